"""C02 (Props/C02f.lean): one topology, opposite daughter order — the predictions of the theorems read off the real
`cal_angle` + `DecayGroup.get_amp`.

Family: A -> B C D with the chains  C1 = A -> [R_BC, D],  C2 = A -> [D, R_BC2] ("opposite") or A -> [R_BC2, D] ("same"),
optionally preceded by C0 = A -> [R_BD, C] (another topology: the reference chain of B and C, so that the chains of the
(BC)D topology carry alignment D-functions).  Two declarations of the SAME model: [.., C1, C2] and [.., C2, C1]; parameters by
name; same events.

Checked (nothing here is a density comparison; that is `search` in c02.py, which reports the listed finding):
 (a) the stored angles of the top vertex obey the definitions `orientO1` / `orientO2` of Props/C02f.lean:
     second-listed daughter = (alpha - pi, pi - beta), first-listed alpha in [-pi, pi), flag s = (alpha_b < 0);
 (b) every other stored helicity angle of the topology is the same number in the two declarations;
 (c) the amplitude tensor of every chain in declaration 2 is the tensor of the same chain in declaration 1 times the factor that
     `chain_amp_sheet_signs` predicts from the sheet signs (t_b = -1 iff s is False, t_c = -1 iff s is True):
         [sign of the daughter whose angles the chain reads]^(2 J_A) * prod_{aligned finals f} (sign_ref(f) * sign_own(f))^(2 j_f)
     per event, all components, 1e-12 relative to the largest component;
 (d) `opposite_orientation_factor` / `_pair_factor`: chain1/chain2 relative factor (-1)^(2 J_A), constant over the events; with C0
     present chain1/C0 changes by (-1)^(2 j_c) and chain2/C0 by (-1)^(2 j_b) (second-written daughters);
 (e) "same" inner order, or integer J_A: every ratio is +1 (chain_order_invariant_same_orientation / _integer_spin).
"""
import copy

import numpy as np

M0 = 5.6196
MASS = {"B": 0.938272, "C": 0.493677, "D": 3.0969}
TOL = 1e-12

# (J_A, j_B, j_C, j_D, j_RBC, j_RBD)
SPINS = [
    ("A1/2:B1/2,C0,D0", 0.5, 0.5, 0, 0, 0.5, 0.5),
    ("A1/2:B1/2,C0,D1", 0.5, 0.5, 0, 1, 1.5, 0.5),
    ("A1:B1,C0,D0", 1, 1, 0, 0, 1, 1),
    ("A3/2:B1/2,C0,D1", 1.5, 0.5, 0, 1, 0.5, 1.5),
    ("A1/2:B0,C0,D1/2", 0.5, 0, 0, 0.5, 0, 0.5),
    ("A1:B1/2,C0,D1/2", 1, 0.5, 0, 0.5, 0.5, 1),   # integer mother, two fermion daughters: second class of the finding
]


def config(chains, sp):
    _, jA, jB, jC, jD, jR, jR2 = sp
    return {
        "data": {"dat_order": ["B", "C", "D"]},
        "decay": {"A": chains, "R_BC": ["B", "C"], "R_BC2": ["B", "C"], "R_BD": ["B", "D"]},
        "particle": {
            "$top": {"A": {"J": jA, "P": 1, "mass": M0}},
            "$finals": {
                "B": {"J": jB, "P": 1, "mass": MASS["B"]},
                "C": {"J": jC, "P": -1, "mass": MASS["C"]},
                "D": {"J": jD, "P": -1, "mass": MASS["D"]},
            },
            "R_BC": {"J": jR, "P": -1, "mass": 1.8, "width": 0.2},
            "R_BC2": {"J": jR, "P": -1, "mass": 2.1, "width": 0.3},
            "R_BD": {"J": jR2, "P": -1, "mass": 4.3, "width": 0.3},
        },
    }


def _prune(cfg):
    used = set()
    for ch in cfg["decay"]["A"]:
        used.update(x for x in ch if isinstance(x, str))
    cfg = copy.deepcopy(cfg)
    for r in ("R_BC", "R_BC2", "R_BD"):
        if r not in used:
            cfg["decay"].pop(r, None)
            cfg["particle"].pop(r, None)
    return cfg


def _two_body(m0, m1, m2, rng, n):
    q = np.sqrt((m0**2 - (m1 + m2) ** 2) * (m0**2 - (m1 - m2) ** 2)) / (2 * m0)
    cos = rng.uniform(-1, 1, n)
    phi = rng.uniform(-np.pi, np.pi, n)
    sin = np.sqrt(1 - cos**2)
    v = np.stack([sin * np.cos(phi), sin * np.sin(phi), cos], -1) * np.reshape(q, (-1, 1))
    e1 = np.sqrt(m1**2 + q**2) + np.zeros(n)
    e2 = np.sqrt(m2**2 + q**2) + np.zeros(n)
    return np.concatenate([e1[:, None], v], -1), np.concatenate([e2[:, None], -v], -1)


def _boost(p, beta):
    b2 = np.sum(beta**2, -1)
    gamma = 1 / np.sqrt(1 - b2)
    bp = np.sum(beta * p[:, 1:], -1)
    g2 = (gamma - 1) / b2
    v = p[:, 1:] + (g2 * bp + gamma * p[:, 0])[:, None] * beta
    return np.concatenate([(gamma * (p[:, 0] + bp))[:, None], v], -1)


def events(rng, n):
    m_bc = rng.uniform(MASS["B"] + MASS["C"] + 0.05, M0 - MASS["D"] - 0.05, n)
    p_bc, p_d = _two_body(M0, m_bc, MASS["D"], rng, n)
    p_b, p_c = _two_body(m_bc, MASS["B"], MASS["C"], rng, n)
    beta = p_bc[:, 1:] / p_bc[:, :1]
    return {"B": _boost(p_b, beta), "C": _boost(p_c, beta), "D": p_d}


def load(cfg, p4, params=None):
    import tensorflow as tf
    from tf_pwa.config_loader import ConfigLoader
    c = ConfigLoader(copy.deepcopy(_prune(cfg)))
    amp = c.get_amplitude()
    if params is None:
        params = {k: float(v) for k, v in amp.get_params().items()}
    else:
        assert set(params) == set(amp.get_params()), "parameter names differ"
        c.set_params(params)
    data = c.data.cal_angle({k: tf.convert_to_tensor(v) for k, v in p4.items()})
    return c, amp, data, params


def chain_key(ch):
    """the chain as written: tuple of (core, outs...) sorted by core name"""
    return tuple(sorted((str(d.core), tuple(str(o) for o in d.outs)) for d in ch))


def chain_amps(amp, data):
    dg = amp.decay_group
    out = {}
    with dg.keep_used_chains():
        for i, ch in enumerate(dg.chains):
            dg.set_used_chains([i])
            out[chain_key(ch)] = np.array(dg.get_amp(data))
    # a tree carrying repair (ii) (fix_C02_orientation_sign.diff) exposes the constant it multiplies into a chain
    signs = {chain_key(ch): float(getattr(ch, "orientation_sign", 1)) for ch in dg.chains}
    return out, [chain_key(ch) for ch in dg.chains], [str(o) for o in dg.outs], signs


def top_angles(data, names=("R_BC", "R_BC2")):
    """the top-vertex angle entries of the (BC)D topology: {daughter name: (alpha, beta)}, listing order of the representative"""
    for topo, dd in data["decay"].items():
        for dec, v in dd.items():
            if not hasattr(dec, "core") or str(dec.core) != "A":
                continue
            outs = [str(o) for o in dec.outs]
            if "D" in outs:
                return outs, {str(o): (np.array(v[o]["ang"]["alpha"]), np.array(v[o]["ang"]["beta"])) for o in dec.outs}, topo
    return None, None, None


def lower_angles(data, topo):
    ret = {}
    for dec, v in data["decay"][topo].items():
        if not hasattr(dec, "core") or str(dec.core) == "A":
            continue
        for o in dec.outs:
            for k, x in v[o]["ang"].items():
                ret[(tuple(sorted(str(y) for y in dec.outs)), str(o), k)] = np.array(x)
    return ret


def predicted(decl, flag_s, sp, with_c0):
    """ratio decl2 / decl1 of every chain's amplitude tensor, per event, from the sheet signs (Props/C02f.lean)"""
    _, jA, jB, jC, jD, jR, jR2 = sp
    n2 = {"A": int(round(2 * jA)), "B": int(round(2 * jB)), "C": int(round(2 * jC)), "D": int(round(2 * jD))}
    t_b = np.where(flag_s, 1.0, -1.0)   # sgnM (!s) on the element of b (the R_BC side)
    t_c = np.where(flag_s, -1.0, 1.0)   # sgnM s on the element of c (= D)
    one = np.ones_like(t_b)
    side = {"B": t_b, "C": t_b, "D": t_c}
    pred = {}
    for key in decl:
        top = dict(key)["A"]
        in_t1 = "D" in top
        # rule 1: reference chain of a final particle = first declared chain producing it from the top particle, else chain 0
        f = one.copy()
        if in_t1:
            reads = top[0]
            f = f * (t_c if reads == "D" else t_b) ** n2["A"]
        for fin in ("B", "C", "D"):
            ref = next((k for k in decl if fin in dict(k)["A"]), decl[0])
            ref_t1 = "D" in dict(ref)["A"]
            if ("D" in dict(ref)["A"]) == in_t1:
                continue  # same topology as its reference: no alignment D-function (own and reference routes coincide)
            s_ref = side[fin] if ref_t1 else one
            s_own = side[fin] if in_t1 else one
            f = f * (s_ref * s_own) ** n2[fin]
        pred[key] = f
    return pred


def run(ctx, res):
    """returns the number of (chain, event) amplitude tensors compared"""
    rng = np.random.Generator(np.random.Philox(ctx.seed + 2026))
    nev = 8 if ctx.quick else 40
    fams = SPINS if not ctx.quick else [SPINS[i] for i in (0, 2, 3, 4, 5)] + ([SPINS[1]] if ctx.seed % 2 else [])
    stat = {"tensors": 0, "worst": 0.0, "flips": 0, "angle_checks": 0, "families": [], "sheet_true": 0, "sheet_false": 0,
            "const_pair_factor": 0, "canonical": 0, "orientation_sign_seen": 0}
    for sp in fams:
        for inner in ("opposite", "same"):
            for with_c0 in (False, True):
                if ctx.quick and with_c0 and inner == "same" and sp[1] != 0.5:
                    continue
                c1 = ["R_BC", "D"]
                c2 = ["D", "R_BC2"] if inner == "opposite" else ["R_BC2", "D"]
                pre = [["R_BD", "C"]] if with_c0 else []
                p4 = events(rng, nev)
                name = "%s %s%s" % (sp[0], inner, " +C0" if with_c0 else "")
                try:
                    _, amp1, data1, params = load(config(pre + [c1, c2], sp), p4)
                    _, amp2, data2, _ = load(config(pre + [c2, c1], sp), p4, params)
                except Exception as e:
                    res.broke("correspondence orientation: family %s cannot be built: %s" % (name, type(e).__name__), str(e)[:400])
                    continue
                a1, order1, outs1, sg1 = chain_amps(amp1, data1)
                a2, order2, outs2, sg2 = chain_amps(amp2, data2)
                if outs1 != outs2 or set(a1) != set(a2):
                    res.broke("correspondence orientation: the two declarations of %s do not have the same chains / final order" % name,
                              "%s | %s | %s | %s" % (outs1, outs2, sorted(a1), sorted(a2)))
                    continue
                # (a) stored angles of the top vertex vs orientO1 / orientO2
                l1, ang1, topo1 = top_angles(data1)
                l2, ang2, topo2 = top_angles(data2)
                first1, second1 = l1
                ab, bb = ang1[first1]
                ac, bc = ang1[second1]
                bad = []
                if np.max(np.abs(ac - (ab - np.pi))) > TOL * 10 or np.max(np.abs(bc - (np.pi - bb))) > TOL * 10:
                    bad.append("second-listed daughter is not (alpha - pi, pi - beta): %g %g" % (np.max(np.abs(ac - (ab - np.pi))), np.max(np.abs(bc - (np.pi - bb)))))
                if not (np.all(ab >= -np.pi) and np.all(ab < np.pi)):
                    bad.append("first-listed alpha outside [-pi, pi)")
                flag = ab < 0
                canonical = inner == "opposite" and list(l2) == list(l1)
                if canonical:
                    # repair (i) observed (fix_C02_canonical_orientation.diff): the representative is listed the same way in both
                    # declarations; the predictions are those of chain_order_invariant_same_orientation: identical data, ratios 1
                    stat["canonical"] += 1
                    if np.max(np.abs(ang2[l2[0]][0] - ab)) > TOL * 10 or np.max(np.abs(ang2[l2[1]][0] - ac)) > TOL * 10:
                        bad.append("canonical representative but different top-vertex angles")
                elif inner == "opposite":
                    first2, second2 = l2
                    a_first2, b_first2 = ang2[first2]     # data of D (= c), listed first
                    a_sec2, b_sec2 = ang2[second2]
                    exp_c = ab - np.pi + np.where(flag, 2 * np.pi, 0.0)
                    if first2 != "D":
                        bad.append("declaration 2 does not list D first: %s" % (l2,))
                    elif (np.max(np.abs(a_first2 - exp_c)) > TOL * 10 or np.max(np.abs(b_first2 - (np.pi - bb))) > TOL * 10
                          or np.max(np.abs(a_sec2 - (exp_c - np.pi))) > TOL * 10 or np.max(np.abs(b_sec2 - bb)) > TOL * 10):
                        bad.append("orientO2 s alpha_b beta_b is not what cal_helicity_angle stores for the opposite representative")
                else:
                    flag_used = flag
                    first2, second2 = l2
                    if np.max(np.abs(ang2[first2][0] - ab)) > TOL * 10 or np.max(np.abs(ang2[second2][0] - ac)) > TOL * 10:
                        bad.append("same orientation but different top-vertex angles")
                stat["angle_checks"] += 4 * len(ab)
                # (b) everything below the top vertex is the same number
                lo1, lo2 = lower_angles(data1, topo1), lower_angles(data2, topo2)
                if set(lo1) != set(lo2) or any(np.max(np.abs(lo1[k] - lo2[k])) > 1e-9 for k in lo1):
                    bad.append("a helicity angle below the top vertex differs between the two declarations")
                if bad:
                    res.broke("correspondence orientation: stored angles of %s do not obey orientO1/orientO2 (Props/C02f.lean)" % name, "; ".join(bad))
                    continue
                stat["sheet_true"] += int(np.sum(flag))
                stat["sheet_false"] += int(np.sum(~flag))
                # (c) per-chain amplitude ratios
                if inner == "opposite" and not canonical:
                    pred = predicted(order1, flag, sp, with_c0)
                else:
                    pred = {k: np.ones(len(ab)) for k in order1}
                if any(v != 1 for v in list(sg1.values()) + list(sg2.values())):
                    stat["orientation_sign_seen"] += 1
                    pred = {k: pred[k] * sg2[k] / sg1[k] for k in pred}
                for key in order1:
                    x1, x2 = a1[key], a2[key]
                    scale = max(float(np.max(np.abs(x1))), 1e-300)
                    f = pred[key].reshape((-1,) + (1,) * (x1.ndim - 1))
                    err = float(np.max(np.abs(x2 - f * x1))) / scale
                    stat["worst"] = max(stat["worst"], err)
                    stat["tensors"] += x1.shape[0]
                    stat["flips"] += int(np.sum(pred[key] < 0))
                    if not err <= TOL:
                        ev = int(np.argmax(np.max(np.abs(x2 - f * x1).reshape(x1.shape[0], -1), axis=1)))
                        res.broke("correspondence orientation factor: chain %s of %s: amplitude(declaration 2) != predicted factor * amplitude(declaration 1)" % (key, name),
                                  "event %d: predicted factor %g, rel. error %.3e; alpha_b = %.6f; amp1 %s amp2 %s" % (
                                      ev, pred[key][ev], err, ab[ev], x1[ev].ravel()[:4], x2[ev].ravel()[:4]))
                # (d) the relative factor of the two oppositely written chains is the constant (-1)^(2 J_A)
                if inner == "opposite" and not canonical:
                    k1 = next(k for k in order1 if dict(k)["A"] == ("R_BC", "D"))
                    k2 = next(k for k in order1 if dict(k)["A"] == ("D", "R_BC2"))
                    rel = pred[k1] * pred[k2]
                    want = (-1.0) ** int(round(2 * sp[1]))
                    if stat["orientation_sign_seen"]:
                        want = 1.0   # repair (ii): the constants (-1)^(2 j_second) of the two chains multiply to (-1)^(2 J_A) and cancel it
                    if not np.all(rel == want):
                        res.broke("correspondence orientation: predicted pair factor of %s is not the constant (-1)^(2 J_A)" % name, str(rel))
                    stat["const_pair_factor"] += 1
                stat["families"].append(name)
    res.coverage["orientation_families"] = stat["families"]
    res.coverage["orientation_chain_event_tensors_compared"] = stat["tensors"]
    res.coverage["orientation_predicted_sign_flips"] = stat["flips"]
    res.coverage["orientation_worst_relative_error"] = stat["worst"]
    res.coverage["orientation_events_by_sheet_flag"] = {"alpha_b<0": stat["sheet_true"], "alpha_b>=0": stat["sheet_false"]}
    res.coverage["orientation_angle_values_checked"] = stat["angle_checks"]
    res.coverage["orientation_tree_variant"] = ("repair (i) canonical representative" if stat["canonical"] else
                                                 "repair (ii) orientation_sign" if stat["orientation_sign_seen"] else "unrepaired (first declared chain orients the data)")
    return stat["tensors"]
