"""C19 — a configuration determines the model deterministically and completely.

Lean model `TfPwaV.Model.Config` (decay card -> ordered chain list, per-decay (l,s) lists, parameter names) with
theorems in `TfPwaV.Props.C19`; tied to `ConfigLoader(dict)` by a seeded grammar of decay cards.  The search part
tests the property statement itself on the implementation (repeated loads, alias / include / key-order variants,
export -> load, an independent enumeration of the allowed chains, history independence of the loaded model)."""
import contextlib
import copy
import io
import itertools
import json
import random

import common as C
import c19_cons as K
import c19_dpar as G
import c19_epar as E

PID = "C19"
DRIVER = [("C19", "TfPwaV.Model.Config", "Config.handle"), ("C19k", "TfPwaV.Model.ConfigC", "ConfigC.handle"), ("C19g", "TfPwaV.Model.ConfigD", "ConfigD.handle"), ("C19h", "TfPwaV.Model.ConfigE", "ConfigE.handle")]
LEAN_TARGETS = ["TfPwaV.Props.C19", "TfPwaV.Props.C19b", "TfPwaV.Props.C19c", "TfPwaV.Props.C19d", "TfPwaV.Props.C19e", "TfPwaV.Props.C19f", "TfPwaV.Props.C19g", "TfPwaV.Props.C19h", "TfPwaV.Model.ConfigC", "TfPwaV.Model.ConfigD", "TfPwaV.Model.ConfigE"]
PROP_MODULES = ["TfPwaV.Props.C19", "TfPwaV.Props.C19b", "TfPwaV.Props.C19c", "TfPwaV.Props.C19d", "TfPwaV.Props.C19e", "TfPwaV.Props.C19f", "TfPwaV.Props.C19g", "TfPwaV.Props.C19h"]
ALL_MODULES = ["TfPwaV.Model.Config", "TfPwaV.Model.ConfigC", "TfPwaV.Model.ConfigD", "TfPwaV.Model.ConfigE", "TfPwaV.Proofs.ConfigG", "TfPwaV.Proofs.ConfigGN", "TfPwaV.Proofs.ConfigGT", "TfPwaV.Proofs.ConfigH", "TfPwaV.Props.C19g", "TfPwaV.Props.C19h", "TfPwaV.Model.LS", "TfPwaV.Proofs.Config", "TfPwaV.Proofs.ConfigRT", "TfPwaV.Props.C19", "TfPwaV.Props.C19b", "TfPwaV.Props.C19c", "TfPwaV.Props.C19d", "TfPwaV.Props.C19e", "TfPwaV.Props.C19f", "TfPwaV.Props.C13"]
ASSUMPTIONS = [
    "grammar of cards: 3- and 4-body, two-body decays (HelicityDecay) only, $top/$finals given (name/list form or dict form), candidate lists of plain names (1-3, occasionally empty or shared between slots), spins from {0,1/2,1,3/2,2} written as int / float / 'k/2', parities +-1 / missing / null, C with c_break, per-decay options p_break c_break l_list ls_list (+ has_barrier_factor as an irrelevant key), aliases m0 g0 Par bw, $include through share_dict, float / m_min m_max bounds, permuted keys; every particle name occurs at most once in a chain (name:id counters all 0)",
    "excluded by design and stated: m_min/m_max WITHOUT mass (set_min_max draws random.random()), fix_chain_val left to np.random.uniform (only names / fixed sets are compared, never initial values), mass_cut, nested dict items inside candidate lists, cyclic cards (Python RecursionError; the model returns raise:RecursionError), 3-body decays",
    "the translation of a Python card into the token line of the Lean driver (encode_card) is trusted to be faithful",
    "constraints: the Lean model ConfigC reproduces, for cards of the grammar extended by float (str / list forms), m_/mass_/g_/width_ min max, mass_/m0_ range, *_free, mass_sigma + mass_constr, gauss_constr {m,g}, constrains.decay (fix_chain_idx / fix_chain_val), fix_var, free_var, var_range, var_equal, gauss_constr, particle.equal.mass (one pair): the ORDERED vm.trainable_vars, bound_dic, vm.same_list, gauss_constr_dic and every value the loader assigns (masses, widths, reference couplings, fix_var values); compared exactly (values to 1e-12) on every constrained card. Excluded and stated: tie groups that overlap an earlier group (set_same merge branch: model answers unsupported), coef_head, decay_d, pre_trans / from_trans, params: sub-dict, gauss_constr {m: ..} on a particle WITHOUT mass (central value = a random initial mass), negative fix_chain_idx; get_fcn().gauss_constr is compared with gauss_constr_dic on 3 (quick) / 20 (thorough) cards with a 16-event phase-space sample",
    "history: the process-wide memo of per-decay factors is a parameter of the model (CacheMode byName = tree before 0e31b14, byObject = tree since); which mode the tree has is OBSERVED (history_demo) and the model in that mode is compared with two real loads in one process on 4 J^P-scan pairs; other shared state (get_chains_map lru_cache, particle.creators growth) is probed by search only",
    "part g (Model/ConfigD, driver C19g): grammar = the cards above + per-decay dict items with has_barrier_factor / barrier_factor_norm / has_bprime / no_q0 / barrier_factor_mass / curve_style / d / unknown keys / model (default, gls-bf) / params_head (unique) / l_list (also null) / p_break (also null) / ls_list, a later dict overriding a key of an earlier one, particle-level decay_params / production_params dicts (local, in $top/$finals dict form, in the include), line-shape model of a resonance from {default, BW, BWR, BWR2, BWR_below, BWR_coupling, BWR_normal, GS_rho, x, LASS, exp, exp_com, one, an unregistered name}, coef_head naming another resonance (or nobody); malformed stream on loadable cards: unknown key, unregistered decay model, model: null, l_list excluding everything, ls_list with a forbidden pair, empty ls_list, l_list: null. Outside the model (it answers unsupported, counted in the evidence): other registered two-body decay classes (LS-decay, gls-cpv, helicity_full, helicity_parity, particle-decay; also every decay of a BWR_LS / BWR_LS2 / MultiBW(R) particle, whose class puts model: LS-decay into its decay_params), ls_selector, params_polar, disable, two decay objects with one params_head (the loader silently shares and reshapes their variables), line shapes with their own parameter tables (Flatte*, Kmatrix*, MultiBW*), a particle with coef_head that is inner particle of more than one chain or names itself (the loader rewrites coef_head and ties variables to themselves), 3-body decays, repeated names in a chain; the second pass of the loader (decay_struct) is not modelled: the malformed stream puts its defect on a decay of a produced chain so that the first pass meets it",
    "part g observation, modelled as it is and reported in the notes: a decay-entry key d is kept in _kwargs and exported by as_config, but HelicityDecay.init_params sets self.d = 3.0 afterwards, so the entry value never reaches the barrier factor (only constrains.decay.decay_d does)",
    "part h (Model/ConfigE, driver C19h): grammar = the part-g cards + line shapes BWR_LS (with same_ratio / same_phase on the particle and in decay_params) / BWR_LS2 / MultiBWR / MultiBW (mass_list, width_list) / Flatte, Flatte2, FlatteC, FlatteGen (mass_list of pairs; never together with float, which makes add_particle_constraints call float.freed()) / Kmatrix / KMatrixSingleChannel (mass_list, width_list, m1, m2), decay keywords disable / params_polar / ls_selector (values without effect; the registered selectors qr and weight at a rate of about 0.2% per entry) / model LS-decay with same_phase / same_ratio on an entry, the SAME params_head on several entries, coef_head also on the particle itself, constrains.decay.decay_d (number / list / dict / text), constrains.pre_trans, constrains.from_trans (x: new name / existing name / the key itself / absent); malformed stream: Flatte without mass_list, KMatrixSingleChannel without mass_list, from_trans naming itself, decay_d as text, an LS particle whose decay_params name an unregistered decay model. The model answers unsupported (counted in coverage.part_h.model_unsupported_answers) for ls_selector qr / weight (QR decomposition of a CG matrix), the decay classes other than HelicityDecay / ParticleDecayLS, the line shapes KMatrixSplitLS / KmatrixSimple and MultiBW(R) without its lists",
    "part h: the variable-creation semantics (Variable.__init__ with overwrite=True removes the variables of an earlier Variable of the same NAME and appends its own; remove_var takes the names out of same_list), particle.decay[0] = first decay object of the particle in creation order that is neither disabled (BaseDecay.__init__ skips core.add_decay for a truthy disable) nor removed by decay_cut (the first failing decay of every candidate chain), the suffix tables of the line shapes, and the text forms of the values (str(4.0) = '4.0') are hand-written mirrors, compared exactly on every card",
    "part h, export -> load: the model (ConfigE.reloadKwargs) assumes that the exported particle dict keeps decay_params / production_params (they are in BaseParticle._kwargs) and loses model (consumed by get_particle); the (l,s) lists it predicts for the reloaded group are compared with the real as_config() -> ConfigLoader on every card that loads",
    "3-body decay entries (A: [[B, C, D]]) and repeated names have NO Lean model: the loader accepts a 3-body entry and builds AngSam3Decay (registered as (3, 'default')): chain [A->B+C+D], variables <head>_total_0r/i and <head>_G_mu_<k>r/i for k < 2J+1, helicity keywords of the entry are swallowed as attributes; a 1-body entry raises KeyError (1, 'default'); a final-state name listed twice in $finals (or produced twice by a chain) never matches (base_particle_set holds one object per name): RuntimeError 'not decay chain aviable'. Six such cards are loaded twice on every run and compared with these expectations (search_part_h)",
    "Python dict = association list in insertion order; str ordering = code-point order (Lean String <)",
    "the grammar uses at most ONE $include file; with two includes and mixed alias/canonical spellings the loader USED to let the first include override the card (repaired by /repo commit 4535060; theorem alias_include_two_refuted is about the model of the unrepaired merge; two_include_demo runs on the implementation on every check and is reported as a failure if the defect returns)",
    "export -> import: the model function Card.roundTrip (as_config restricted to J, P, C, mass, width, p_break, c_break; spins / curve_style / model kwargs of the real export do not influence chains or couplings) is compared with the real as_config -> ConfigLoader on every card; proved for EVERY card that loads without a user ls_list on a produced chain (Props/C19d export_import): the export loads, same chain SET, same J/P/C/width presence, exported p_break/c_break, same (l,s) lists where no l_list; the chain ORDER is not preserved (export_import_order_refuted, reproduced on the implementation by order_demo on every run)",
]

FINALS = ["B", "C", "D", "E"]
SPINS2 = [0, 1, 2, 3, 4]


# --------------------------------------------------------------------------------------------------------------
# grammar
# --------------------------------------------------------------------------------------------------------------

def spin_repr(rnd, j2):
    if j2 % 2 == 0:
        return rnd.choice([j2 // 2, j2 // 2, float(j2 // 2), str(j2 // 2)])
    return rnd.choice([j2 / 2.0, "%d/2" % j2])


def gen_props(rnd, j2, p, role, alias=True):
    """particle dict as a list of (key, value) (order matters), with aliases"""
    kv = [("J", spin_repr(rnd, j2))]
    if p is not None:
        kv.append((rnd.choice(["P", "Par"]) if alias else "P", p))
    elif rnd.random() < 0.3:
        kv.append(("P", None))  # explicit null: parity unknown -> p_break
    mass = {"top": 5.3, "final": round(0.1 + rnd.random(), 3), "res": round(1.5 + 2 * rnd.random(), 3)}[role]
    if role != "res" or rnd.random() < 0.9:
        kv.append((rnd.choice(["mass", "m0"]) if alias else "mass", mass))
    if role == "res":
        if rnd.random() < 0.85:
            kv.append((rnd.choice(["width", "g0"]) if alias else "width", round(0.02 + 0.2 * rnd.random(), 3)))
        if rnd.random() < 0.3:
            kv.append((rnd.choice(["model", "bw"]) if alias else "model", rnd.choice(["default", "BWR", "BW"])))
        if rnd.random() < 0.25 and any(k in ("mass", "m0") for k, _ in kv):
            has_w = any(k in ("width", "g0") for k, _ in kv)
            kv.append(("float", rnd.choice(["m", "g", "mg"]) if has_w else "m"))
            if rnd.random() < 0.5:
                m = dict(kv).get("mass", dict(kv).get("m0"))
                kv += [("m_min", round(m - 0.2, 3)), ("m_max", round(m + 0.2, 3))]
        if rnd.random() < 0.1:
            kv.append(("C", rnd.choice([1, -1])))
    rnd.shuffle(kv)
    return kv


def gen_opts(rnd, top_level):
    o = {}
    r = rnd.random()
    if top_level and r < 0.6 or r < 0.15:
        o["p_break"] = rnd.random() < 0.8
    if rnd.random() < 0.12:
        o["l_list"] = sorted(rnd.sample(range(0, 4), rnd.randint(1, 3)))
    if rnd.random() < 0.05:
        o["c_break"] = rnd.random() < 0.5
    if rnd.random() < 0.08:
        o["has_barrier_factor"] = False
    return o


def items_with_opts(rnd, outs, o):
    """[B, C] + options written as one dict, several one-key dicts, or in between the names"""
    items = list(outs)
    if not o:
        return items
    style = rnd.random()
    if style < 0.5:
        items.append(dict(o))
    elif style < 0.8:
        for k, v in o.items():
            items.append({k: v})
    else:
        ks = list(o.items())
        items.insert(1, dict(ks[:1]))
        if ks[1:]:
            items.append(dict(ks[1:]))
    return items


def gen_card(rnd):
    """returns (config dict, share_dict, meta) — JSON-serialisable"""
    n = rnd.choice([3, 3, 4])
    finals = FINALS[:n]
    # decay topologies: list of slots (name, (daughter, daughter)) ; daughters are finals or slots
    slots = {}  # slot -> (a, b)
    top_decays = []
    if n == 3:
        pairs = [("B", "C", "D"), ("B", "D", "C"), ("C", "D", "B")]
        for (x, y, z) in rnd.sample(pairs, rnd.randint(1, 3)):
            s = "R_%s%s" % (x, y)
            slots[s] = rnd.choice([(x, y), (y, x)])
            top_decays.append(rnd.choice([(s, z), (z, s)]))
    else:
        shapes = rnd.sample(["cascade", "pairs", "cascade2"], rnd.randint(1, 2))
        for sh in shapes:
            perm = rnd.sample(finals, 4)
            x, y, z, w = perm
            if sh == "pairs":
                s1, s2 = "R_%s%s" % tuple(sorted((x, y))), "R_%s%s" % tuple(sorted((z, w)))
                slots.setdefault(s1, (x, y))
                slots.setdefault(s2, (z, w))
                top_decays.append((s1, s2))
            else:
                s1 = "R_%s%s" % tuple(sorted((x, y)))
                s3 = "R_%s%s%s" % tuple(sorted((x, y, z)))
                if s3 not in slots:
                    slots.setdefault(s1, (x, y))  # never an orphan slot: the struct pass infers $top and asserts it is unique
                    slots[s3] = (s1, z)
                top_decays.append((s3, w))
    # drop top decays that became duplicates
    seen, td = set(), []
    for a, b in top_decays:
        if frozenset((a, b)) not in seen:
            seen.add(frozenset((a, b)))
            td.append((a, b))
    top_decays = td

    # candidates per slot
    cands = {}
    k = 0
    all_res = []
    for s in slots:
        r = rnd.random()
        if r < 0.12:
            cands[s] = None          # the slot name is the resonance itself
            all_res.append(s)
        elif r < 0.17:
            cands[s] = []            # slot declared but empty
        else:
            m = rnd.choice([1, 1, 2, 2, 3])
            names = []
            for _ in range(m):
                k += 1
                names.append("X%d" % k if rnd.random() < 0.8 else "NR(%d)S" % k)
            cands[s] = names
            all_res += names
    # a resonance shared between two slots of the same depth (3-body only: keeps every name once per chain)
    if n == 3 and len(slots) >= 2 and rnd.random() < 0.15:
        s1, s2 = rnd.sample(list(slots), 2)
        if cands[s1] and cands[s2] is not None:
            cands[s2] = cands[s2] + [cands[s1][0]]

    # spins: finals random; consistent fermion number with probability 0.8
    qn = {}
    for f in finals:
        qn[f] = (rnd.choice([0, 0, 1, 2, 2, 1, 3, 4]), rnd.choice([1, -1, -1, None]))
    consistent = rnd.random() < 0.85

    def parity_of(x):  # 2J mod 2 of the subtree
        if x in finals:
            return qn[x][0] % 2
        a, b = slots[x]
        return (parity_of(a) + parity_of(b)) % 2

    def pick_spin(par):
        j = rnd.choice([0, 2, 2, 4] if par == 0 else [1, 1, 3])
        if not consistent and rnd.random() < 0.3:
            j = rnd.choice(SPINS2)
        return j

    for s in slots:
        par = parity_of(s)
        for r_ in ([s] if cands[s] is None else cands[s]):
            if r_ not in qn:
                qn[r_] = (pick_spin(par), rnd.choice([1, -1, 1, -1, None]))
    topj = pick_spin(sum(qn[f][0] for f in finals) % 2)
    qn["A"] = (topj, rnd.choice([1, -1]))

    # decay section
    decay = {}
    entries = []
    for a, b in top_decays:
        entries.append(("A", [a, b], gen_opts(rnd, True)))
    for s, (a, b) in slots.items():
        entries.append((s, [a, b], gen_opts(rnd, False)))
    # rare: user-given ls_list (subset of the physical list is not required by the code)
    for e in entries:
        if rnd.random() < 0.06:
            e[2]["ls_list"] = rnd.choice([[[0, 0]], [[1, 1]], [[0, 1], [2, 1]], [[1, 0.5]], [[0, 0.5], [1, 0.5]], []])
    by_core = {}
    order = []
    for core, outs, o in entries:
        if core not in by_core:
            by_core[core] = []
            order.append(core)
        by_core[core].append(items_with_opts(rnd, outs, o))
    rnd.shuffle(order)
    for core in order:
        lst = by_core[core]
        if len(lst) == 1 and rnd.random() < 0.7:
            decay[core] = lst[0]
        else:
            decay[core] = lst

    # particle section
    share = {}
    part_entries = []  # (key, value)
    inc = {}
    for s in slots:
        if cands[s] is not None:
            part_entries.append((s, list(cands[s])))
    use_include = rnd.random() < 0.35
    for r_ in dict.fromkeys(all_res):
        kv = gen_props(rnd, qn[r_][0], qn[r_][1], "res")
        if use_include and rnd.random() < 0.6:
            # part (or all) of the dict lives in the include; the local dict overrides
            cut = rnd.randint(0, len(kv)) if rnd.random() < 0.7 else 0
            inc_kv = kv[:cut] if cut else kv
            inc[r_] = dict(inc_kv)
            if cut:
                loc = kv[cut:]
                if inc_kv and rnd.random() < 0.5:  # an overriding duplicate of one included key (same canonical spelling)
                    k0, v0 = inc_kv[0]
                    if k0 in ("J",):
                        loc = loc + [(k0, v0)]
                        inc[r_][k0] = spin_repr(rnd, rnd.choice(SPINS2))  # overridden locally
                if loc:
                    part_entries.append((r_, dict(loc)))
        else:
            part_entries.append((r_, dict(kv)))
    dict_form = rnd.random() < 0.5
    top_kv = dict(gen_props(rnd, qn["A"][0], qn["A"][1], "top"))
    fin_kv = {f: dict(gen_props(rnd, qn[f][0], qn[f][1], "final")) for f in finals}
    fin_order = rnd.sample(finals, len(finals))
    particle = {}
    if dict_form:
        particle["$top"] = {"A": top_kv}
        particle["$finals"] = {f: fin_kv[f] for f in fin_order}
    else:
        particle["$top"] = "A"
        particle["$finals"] = list(fin_order)
        part_entries.append(("A", top_kv))
        for f in finals:
            part_entries.append((f, fin_kv[f]))
    if inc:
        share["res.yml"] = inc
        particle["$include"] = rnd.choice(["res.yml", ["res.yml"]])
    rnd.shuffle(part_entries)
    for key, v in part_entries:
        particle[key] = v
    cfg = {"data": {"dat_order": list(finals)}, "decay": decay, "particle": particle}
    if rnd.random() < 0.3:
        cfg["constrains"] = {"decay": {"fix_chain_idx": 0, "fix_chain_val": 1.0}}
    return cfg, share


# --------------------------------------------------------------------------------------------------------------
# variants of a card that the documentation declares equivalent
# --------------------------------------------------------------------------------------------------------------

ALIAS = {"Par": "P", "m0": "mass", "g0": "width", "bw": "model"}


def canon_dict(d):
    return {ALIAS.get(k, k): v for k, v in d.items()}


def merged_particle(cfg, share):
    """textual merge of the includes with local override (independent re-statement of the documented rule)"""
    part = copy.deepcopy(cfg["particle"])
    top = part.pop("$top", None)
    fin = part.pop("$finals", None)
    incs = part.pop("$include", None)
    if isinstance(incs, str):
        incs = [incs]
    for name in incs or []:
        for k, v in copy.deepcopy(share[name]).items():
            if k in part:
                if isinstance(part[k], dict):
                    v.update(part[k])
                    part[k] = v
            else:
                part[k] = v
    return top, fin, part


def expanded_variant(rnd, cfg, share):
    """aliases spelled out, includes merged in the text, $top/$finals in the other form, keys permuted"""
    top, fin, part = merged_particle(cfg, share)
    props = {}
    lists = {}
    for k, v in part.items():
        if isinstance(v, dict):
            props[k] = canon_dict(v)
        else:
            lists[k] = list(v)
    if isinstance(top, dict):
        (tn, td), = top.items()
        props[tn] = canon_dict(td)
    else:
        tn = top
    if isinstance(fin, dict):
        fn = list(fin)
        for k, v in fin.items():
            props[k] = canon_dict(v)
    else:
        fn = list(fin)
    particle = {}
    if isinstance(top, dict):  # switch the form
        particle["$top"] = tn
        particle["$finals"] = fn
        entries = [(k, props[k]) for k in props] + [(k, lists[k]) for k in lists]
    else:
        particle["$top"] = {tn: props.pop(tn)}
        particle["$finals"] = {k: props.pop(k) for k in fn}
        entries = [(k, props[k]) for k in props] + [(k, lists[k]) for k in lists]
    rnd.shuffle(entries)
    for k, v in entries:
        if isinstance(v, dict):
            ks = list(v.items())
            rnd.shuffle(ks)
            v = dict(ks)
        particle[k] = v
    out = copy.deepcopy(cfg)
    out["particle"] = particle
    return out, {}


# --------------------------------------------------------------------------------------------------------------
# observation of the implementation
# --------------------------------------------------------------------------------------------------------------

def j2_of(j):
    if isinstance(j, str):
        j = eval(j)
    return int(round(2 * j))


def canon_ls(lst):
    return " ".join("%d,%d" % (int(l), int(round(2 * s))) for l, s in lst)


def observe(cfg, share, amp=True, keep=False):
    """load the card with the real ConfigLoader and return the observable outputs (plain data)"""
    from tf_pwa.config_loader import ConfigLoader
    before = json.dumps([cfg, share], sort_keys=False, default=str)
    out = {}
    buf = io.StringIO()
    try:
        with contextlib.redirect_stdout(buf):
            c = ConfigLoader(cfg, share_dict=share)
            g = c.get_decay()
            out["chains"] = [str(ch) for ch in g]
            out["ls"] = [[canon_ls(d.get_ls_list()) for d in ch] for ch in g]
            qn = {}
            for ch in g:
                for p in ch.get_all_particles():
                    qn[str(p)] = [j2_of(p.J), p.P, p.C, [j2_of(s) for s in p.spins]]
            out["qn"] = dict(sorted(qn.items()))
            out["struct"] = [str(ch) for ch in c.get_decay(False)]
            if amp:
                export = g.as_config()
                out["export"] = export
                c.get_amplitude()
                out["params"] = list(c.get_params().keys())
                out["trainable"] = list(c.vm.trainable_vars)
                out["bound"] = sorted((k, repr(tuple(v))) for k, v in c.bound_dic.items())
                out["fixed"] = sorted(set(out["params"]) - set(out["trainable"]))
            if keep:
                out["_loader"] = c
    except RecursionError:
        out = {"raise": "RecursionError"}
    except Exception as e:  # the loader's own rejections are outputs as well
        out = {"raise": type(e).__name__, "msg": str(e)[:200]}
    out["input_unchanged"] = before == json.dumps([cfg, share], sort_keys=False, default=str)
    return out


def pub(o):
    return {k: v for k, v in o.items() if not k.startswith("_") and k != "export" and k != "msg"}


# --------------------------------------------------------------------------------------------------------------
# card -> token line of the Lean driver
# --------------------------------------------------------------------------------------------------------------

def enc_val(k, v):
    if v is None:
        return "N"
    if k == "J":
        return "j:%d" % j2_of(v)
    if isinstance(v, bool):
        return "x:%s" % v
    if isinstance(v, int):
        return "i:%d" % v
    return "x:" + "".join(str(v).split())


def enc_pdict(d):
    toks = [str(len(d))]
    for k, v in d.items():
        toks += [k, enc_val(k, v)]
    return toks


def enc_pentries(d):
    toks = [str(len(d))]
    for k, v in d.items():
        if isinstance(v, dict):
            toks += ["d", k] + enc_pdict(v)
        else:
            toks += ["c", k, str(len(v))] + list(v)
    return toks


def enc_opt(o):
    fs = []
    for k, v in o.items():
        if k == "p_break":
            fs.append("pb=%d" % bool(v))
        elif k == "c_break":
            fs.append("cb=%d" % bool(v))
        elif k == "l_list":
            fs.append("l=" + ",".join(str(int(i)) for i in v))
        elif k == "ls_list":
            fs.append("ls=" + ",".join("%d.%d" % (int(l), int(round(2 * s))) for l, s in v))
        else:
            fs.append("u")
    return "o:" + ";".join(fs or ["u"])


def enc_items(items):
    toks = [str(len(items))]
    for i in items:
        toks.append(enc_opt(i) if isinstance(i, dict) else "n:" + i)
    return toks


def encode_card(cfg, share):
    part = dict(cfg["particle"])
    top = part.pop("$top")
    fin = part.pop("$finals")
    incs = part.pop("$include", None)
    toks = []
    if isinstance(top, dict):
        (tn, td), = top.items()
        toks += ["TD", tn] + enc_pdict(td)
    else:
        toks += ["T", top[0] if isinstance(top, list) else top]
    if isinstance(fin, dict):
        toks += ["FD", str(len(fin))]
        for k, v in fin.items():
            toks += [k] + enc_pdict(v)
    else:
        toks += ["F", str(len(fin))] + list(fin)
    if isinstance(incs, str):
        incs = [incs]
    incs = incs or []
    toks += ["I", str(len(incs))]
    for name in incs:
        toks += enc_pentries(share[name])
    toks += ["P"] + enc_pentries(part)
    dec = cfg["decay"]
    toks += ["D", str(len(dec))]
    for core, outs in dec.items():
        toks.append(core)
        if len(outs) > 0 and all(isinstance(i, list) for i in outs):
            toks += ["n", str(len(outs))]
            for sub in outs:
                toks += enc_items(sub)
        else:
            toks += ["f"] + enc_items(outs)
    assert all(t and " " not in t for t in toks), toks
    return " ".join(toks)


# --------------------------------------------------------------------------------------------------------------
# independent oracle for the allowed chains (no tf_pwa code, own reading of the card)
# --------------------------------------------------------------------------------------------------------------

def oracle_ls(ja2, jb2, jc2, pa, pb, pc, pbk, ca):
    if pa is None or pb is None or pc is None:
        pbk = True
    out = []
    for s2 in range(abs(jb2 - jc2), jb2 + jc2 + 1, 2):
        for l in range(0, (ja2 + s2) // 2 + 1):
            if not (abs(ja2 - s2) <= 2 * l <= ja2 + s2) or (ja2 + s2) % 2:
                continue
            if not pbk and pa * pb * pc * (-1) ** l != 1:
                continue
            if ca is not None and (s2 % 2 == 1 or ca != (-1) ** (l + s2 // 2)):
                continue
            out.append((l, s2))
    return out


def oracle_chains(cfg, share):
    """set of allowed chains, each a frozenset of 'core->a+b' with sorted daughters, plus their (l,s) lists"""
    top, fin, part = merged_particle(cfg, share)
    props, lists = {}, {}
    for k, v in part.items():
        (props if isinstance(v, dict) else lists)[k] = v
    if isinstance(top, dict):
        props.update(top)
        top = list(top)[0]
    if isinstance(fin, dict):
        props.update(fin)
    fin = list(fin)

    def q(name):
        d = canon_dict(props.get(name, {}))
        return (j2_of(d.get("J", 0)), d.get("P", -1), d.get("C", None))

    declared = {}  # (core, frozenset outs) -> opts (last wins), outs order of the first
    for core, outs in cfg["decay"].items():
        subs = outs if (len(outs) > 0 and all(isinstance(i, list) for i in outs)) else ([outs] if outs else [])
        for sub in subs:
            names = [i for i in sub if not isinstance(i, dict)]
            o = {}
            for i in sub:
                if isinstance(i, dict):
                    o.update(i)
            assert len(names) == 2
            for c in lists.get(core, [core]):
                for a in lists.get(names[0], [names[0]]):
                    for b in lists.get(names[1], [names[1]]):
                        key = (c, frozenset((a, b)))
                        declared[key] = ((declared[key][0] if key in declared else (a, b)), o)
    by_core = {}
    for (c, _), ((a, b), o) in declared.items():
        by_core.setdefault(c, []).append((a, b, o))

    def ls_of(c, a, b, o):
        if o.get("ls_list") is not None:
            return [(int(l), int(round(2 * s))) for l, s in o["ls_list"]]
        (ja, pa, ca_), (jb, pb, _), (jc, pc, _) = q(c), q(a), q(b)
        ca = None if o.get("c_break", True) else ca_
        ls = oracle_ls(ja, jb, jc, pa, pb, pc, bool(o.get("p_break", False)), ca)
        if o.get("l_list") is not None:
            ls = [x for x in ls if x[0] in o["l_list"]]
        return ls

    def trees(x, depth=0):
        if depth > 12:
            raise RecursionError
        if x not in by_core:
            return [([], [x])]  # leaf
        out = []
        for a, b, o in by_core[x]:
            for da, la in trees(a, depth + 1):
                for db, lb in trees(b, depth + 1):
                    out.append(([(x, a, b, o)] + da + db, la + lb))
        return out

    allowed = {}
    if top not in by_core:
        return allowed
    for decs, leaves in trees(top):
        if sorted(leaves) != sorted(fin):
            continue
        lss = [ls_of(c, a, b, o) for c, a, b, o in decs]
        if all(lss):
            key = frozenset("%s->%s" % (c, "+".join(sorted((a, b)))) for c, a, b, o in decs)
            allowed[key] = {"%s->%s" % (c, "+".join(sorted((a, b)))): sorted(l) for (c, a, b, o), l in zip(decs, lss)}
    return allowed


def unreachable_declaration(cfg):
    """a declared decay whose mother slot cannot be reached from $top: the second pass of the loader (decay_struct,
    $top inferred from the declarations) rejects such a card with an AssertionError — outside the grammar"""
    top = cfg["particle"]["$top"]
    top = list(top)[0] if isinstance(top, dict) else top
    kids = {}
    for core, outs in cfg["decay"].items():
        subs = outs if (len(outs) > 0 and all(isinstance(i, list) for i in outs)) else [outs]
        kids[core] = [i for sub in subs for i in sub if not isinstance(i, dict)]
    seen, todo = set(), [top]
    while todo:
        x = todo.pop()
        if x in seen:
            continue
        seen.add(x)
        todo += kids.get(x, [])
    return any(c not in seen for c in kids)


def chain_key(chain_str):
    body = chain_str.strip()[1:-1]
    out = []
    for d in body.split(", "):
        c, os_ = d.split("->")
        out.append("%s->%s" % (c, "+".join(sorted(os_.split("+")))))
    return frozenset(out)


def expected_cg(d):
    """CG factor of HelicityDecay from cg_coef and the decay's own quantum numbers (shape [ls, lambda_b, lambda_c])"""
    import numpy as np
    from tf_pwa.cg import cg_coef
    ls = d.get_ls_list()
    ja, jb, jc = d.core.J, d.outs[0].J, d.outs[1].J
    hb, hc = d.list_helicity_inner()
    ret = np.zeros((len(ls), len(hb), len(hc)))
    for i, (l, s) in enumerate(ls):
        for i1, lb in enumerate(hb):
            for i2, lc in enumerate(hc):
                if abs(lb - lc) > s or abs(lb - lc) > ja:
                    continue
                ret[i][i1][i2] = np.sqrt((2 * l + 1) / (2 * ja + 1)) * cg_coef(jb, jc, lb, -lc, s, lb - lc) * cg_coef(l, s, 0, lb - lc, ja, lb - lc)
    return ret


# --------------------------------------------------------------------------------------------------------------
# fixed corpus (hand-written cards for branches the grammar reaches rarely)
# --------------------------------------------------------------------------------------------------------------

def corpus():
    base_p = {"$top": {"A": {"J": 1, "P": -1, "mass": 4.6}},
              "$finals": {"B": {"J": 1, "P": -1, "mass": 2.0}, "C": {"J": 0, "P": -1, "mass": 0.5}, "D": {"J": 0, "P": -1, "mass": 0.5}}}
    out = []
    # candidates with forbidden J^P are cut, allowed ones kept; aliases; duplicate declaration with swapped daughters
    out.append(({"data": {"dat_order": ["B", "C", "D"]},
                 "decay": {"A": [["R_BC", "D"], ["R_BD", "C"], ["R_CD", "B"], ["D", "R_BC", {"p_break": True}]],
                           "R_BC": ["B", "C"], "R_BD": ["B", "D"], "R_CD": ["C", "D"]},
                 "particle": dict(base_p, **{"R_BC": ["R1", "R2"], "R_BD": ["R3"], "R_CD": ["R4"],
                                             "R1": {"J": 1, "P": 1, "m0": 2.6, "g0": 0.05}, "R2": {"J": 1, "Par": -1, "mass": 2.7, "width": 0.05},
                                             "R3": {"J": 0, "P": 1, "mass": 2.7, "width": 0.05}, "R4": {"J": 0, "P": -1, "mass": 1.7, "width": 0.05}})}, {}))
    # every chain forbidden -> RuntimeError
    out.append(({"data": {"dat_order": ["B", "C", "D"]}, "decay": {"A": ["R", "D"], "R": ["B", "C"]},
                 "particle": dict(base_p, **{"R": {"J": 0, "P": 1, "mass": 2.6, "width": 0.05}})}, {}))
    # half-integer cascade with include and local override
    out.append(({"data": {"dat_order": ["B", "C", "D"]},
                 "decay": {"A": [["L", "D", {"p_break": True}], ["K", "B", {"p_break": True}]], "L": ["B", "C"], "K": ["C", "D", {"l_list": [1]}]},
                 "particle": {"$top": "A", "$finals": ["B", "C", "D"], "$include": "r.yml", "A": {"J": "1/2", "P": 1, "mass": 5.6},
                              "B": {"J": 0.5, "P": 1, "mass": 0.938}, "C": {"J": 0, "P": -1, "mass": 0.49}, "D": {"J": 1, "P": -1, "mass": 3.1},
                              "L": ["L1", "L2"], "K": ["K1"], "L1": {"J": "3/2", "float": "mg"}, "K1": {"mass": 1.4}},
                 }, {"r.yml": {"L1": {"J": "1/2", "P": -1, "mass": 1.52, "width": 0.016}, "L2": {"J": 1.5, "Par": 1, "m0": 1.6, "g0": 0.1},
                               "K1": {"J": 1, "P": -1, "m0": 0.9, "g0": 0.05}}}))
    # cyclic card: Python RecursionError, model raise:RecursionError
    out.append(({"data": {"dat_order": ["B", "C", "D"]}, "decay": {"A": ["R", "D"], "R": [["B", "C"], ["R", "C"]]},
                 "particle": dict(base_p, **{"R": {"J": 1, "P": 1, "mass": 2.6, "width": 0.05}})}, {}))
    return out


# --------------------------------------------------------------------------------------------------------------
# the check
# --------------------------------------------------------------------------------------------------------------

def cases(ctx):
    if getattr(ctx, "_c19_cases", None) is not None:
        return ctx._c19_cases
    n = 60 if ctx.quick else 600
    rnd = random.Random(1000003 * ctx.seed + 19)
    cs = list(corpus())
    while len(cs) < n + len(corpus()):
        try:
            cs.append(gen_card(rnd))
        except AssertionError:
            continue
    ctx._c19_cases = cs
    ctx._c19_obs = {}
    return cs


def obs_of(ctx, i, cfg, share):
    if i not in ctx._c19_obs:
        ctx._c19_obs[i] = [observe(copy.deepcopy(cfg), copy.deepcopy(share)) for _ in range(3)]
    return ctx._c19_obs[i]


def export_load(ctx, i, cfg, o):
    """as_config() of the loaded group, loaded again (cached per case)"""
    cache = ctx.__dict__.setdefault("_c19_exp", {})
    if i not in cache:
        ex = copy.deepcopy(o["export"])
        ex["data"] = {"dat_order": list(cfg["data"]["dat_order"])}
        cache[i] = observe(ex, {}, amp=False)
    return cache[i]


def correspond(ctx, res):
    cs = cases(ctx)
    lines, meta = [], []
    for i, (cfg, share) in enumerate(cs):
        enc = encode_card(cfg, share)
        for op in ("chains", "ls", "params"):
            lines.append("C19 %s %s" % (op, enc))
            meta.append((i, op))
    for i, (cfg, share) in enumerate(cs):
        lines.append("C19 rt %s" % encode_card(cfg, share))
        meta.append((i, "rt"))
    # the documented equivalences on the model itself (the theorem alias_equiv covers cards without $include)
    vrnd = random.Random(31 * ctx.seed + 3)
    for i, (cfg, share) in enumerate(cs):
        vcfg, vshare = expanded_variant(vrnd, cfg, share)
        enc = encode_card(vcfg, vshare)
        for op in ("chains", "ls", "params"):
            lines.append("C19 %s %s" % (op, enc))
            meta.append((i, "v" + op))
    model = ctx.model.query(lines)
    by_case = {}
    for (i, op), m in zip(meta, model):
        by_case.setdefault(i, {})[op] = m
    n_mv = 0
    for i in by_case:
        for op in ("chains", "ls", "params"):
            if by_case[i][op] != by_case[i]["v" + op]:
                n_mv += 1
                if n_mv <= 2:
                    res.broke("model: expanded spelling of a card gives another %s" % op, {"case": i, "base": by_case[i][op][:400], "variant": by_case[i]["v" + op][:400], "config": cs[i][0]})
    res.coverage["model_variant_pairs"] = len(by_case)
    # export -> import: model of as_config (op rt) against the model itself and against the real export -> load
    n_rt = n_rt_bad = 0
    for i, (cfg, share) in enumerate(cs):
        o = obs_of(ctx, i, cfg, share)[0]
        m = by_case[i]
        if "raise" in o or m["chains"].startswith("raise"):
            continue
        oe = export_load(ctx, i, cfg, o)
        impl_rt = ("raise:" + oe["raise"]) if "raise" in oe else "|".join(oe["chains"]) + " # " + "|".join(";".join(x) for x in oe["ls"])
        n_rt += 1
        if impl_rt != m["rt"]:
            n_rt_bad += 1
            if n_rt_bad <= 2:
                res.broke("correspondence Config.roundTrip vs as_config -> ConfigLoader", {"case": i, "impl": impl_rt[:500], "model": m["rt"][:500], "config": cfg, "share": share})
        dec_txt = json.dumps(cfg["decay"])
        if "l_list" not in dec_txt and "ls_list" not in dec_txt and not m["rt"].startswith("raise"):
            ch, ls = m["rt"].split(" # ")
            if dict(zip(ch.split("|"), ls.split("|"))) != dict(zip(m["chains"].split("|"), m["ls"].split("|"))):
                res.broke("model: export -> import changes chains or couplings", {"case": i, "rt": m["rt"][:400], "chains": m["chains"][:400], "ls": m["ls"][:300]})
    res.coverage["roundtrip_cases"] = n_rt
    n_dis = 0
    nontriv = set()
    kinds = {}
    for i, (cfg, share) in enumerate(cs):
        o = obs_of(ctx, i, cfg, share)[0]
        m = by_case[i]
        if "raise" in o:
            impl = {op: "raise:" + o["raise"] for op in ("chains", "ls", "params")}
        else:
            impl = {"chains": "|".join(o["chains"]), "ls": "|".join(";".join(x) for x in o["ls"]), "params": " ".join(o["params"])}
            if len(o["chains"]) >= 2:
                nontriv.add(impl["chains"])
        kinds[impl["chains"].split(":")[-1] if impl["chains"].startswith("raise") else "ok"] = kinds.get(impl["chains"].split(":")[-1] if impl["chains"].startswith("raise") else "ok", 0) + 1
        if m["chains"] == "raise:unsupported":
            res.notes.append("case %d outside the model's scope (repeated name in a chain)" % i)
            continue
        for op in ("chains", "ls", "params"):
            if impl[op] != m[op]:
                n_dis += 1
                if n_dis <= 3:
                    res.broke("correspondence Config.%s vs ConfigLoader" % op, {"case": i, "impl": impl[op][:600], "model": m[op][:600], "config": cfg, "share": share})
                break
        if i < 2:
            res.samples.append({"op": "C19 chains " + encode_card(cfg, share)[:300], "impl": impl["chains"][:300], "model": m["chains"][:300]})
    res.coverage.update({
        "traces_validated_against_impl": len(cs),
        "evaluations": 3 * len(cs),
        "distinct_nontrivial": len(nontriv),
        "rule": "seeded grammar of decay cards (see assumptions) + 4 hand-written cards; compared: ordered chain strings, per-decay (l,s) lists, get_params() key list, error kind; non-trivial = distinct outcomes with >= 2 surviving chains",
        "exhaustive": False,
        "outcome_kinds": kinds,
        "disagreements": n_dis,
    })
    correspond_cons(ctx, res)
    correspond_dpar(ctx, res)
    correspond_epar(ctx, res)


def search(ctx, res):
    """the property statement on the implementation, with oracles that do not use the Lean model"""
    import numpy as np
    cs = cases(ctx)
    rnd = random.Random(7919 * ctx.seed + 5)
    stat = {"loads": 0, "variants": 0, "exports": 0, "oracle_chains": 0, "cg_decays": 0, "tree_checks": 0, "creators_grew": 0, "export_order_changed": 0}

    def fail(key, what, i, extra=None):
        cfg, share = cs[i]
        res.fail(key, what, dict({"config": cfg, "share": share, "check": key}, **(extra or {})))

    for i, (cfg, share) in enumerate(cs):
        o3 = obs_of(ctx, i, cfg, share)
        stat["loads"] += 3
        o = o3[0]
        # 1. repetition independence: three fresh loads in one process
        for k in (1, 2):
            if pub(o3[k]) != pub(o):
                diff = [f for f in pub(o) if pub(o).get(f) != pub(o3[k]).get(f)]
                fail("load:repeat", "load #%d of the same card differs from load #1 in %s" % (k + 1, diff), i)
                break
        if not o["input_unchanged"]:
            fail("load:mutates-input", "ConfigLoader modified the dict it was given", i)
        # 2. allowed chains by an independent enumeration
        try:
            want = oracle_chains(cfg, share)
        except RecursionError:
            want = None
        if want is not None and o.get("raise") == "AssertionError" and unreachable_declaration(cfg):
            stat["rejected_unreachable_declaration"] = stat.get("rejected_unreachable_declaration", 0) + 1
        elif want is not None:
            stat["oracle_chains"] += 1
            if "raise" in o:
                if o["raise"] != "RuntimeError" or want:
                    if not (o["raise"] == "RuntimeError" and not want):
                        fail("chains:raise", "loader raises %s (%s), independent enumeration finds %d allowed chains" % (o["raise"], o.get("msg"), len(want)), i)
            else:
                got = [chain_key(s) for s in o["chains"]]
                miss = [sorted(k) for k in want if k not in got]
                extra = [sorted(k) for k in got if k not in want]
                if miss:
                    fail("chains:dropped", "allowed chain(s) dropped: %s" % miss[:3], i)
                if extra:
                    fail("chains:forbidden-kept", "chain(s) kept that the card/selection rules do not allow: %s" % extra[:3], i)
                if len(set(got)) != len(got):
                    fail("chains:duplicate", "a chain is listed twice", i)
                if not miss and not extra:
                    for s, lss in zip(o["chains"], o["ls"]):
                        w = want[chain_key(s)]
                        body = s[1:-1].split(", ")
                        for d, l in zip(body, lss):
                            c_, os_ = d.split("->")
                            dk = "%s->%s" % (c_, "+".join(sorted(os_.split("+"))))
                            if sorted(tuple(int(x) for x in p.split(",")) for p in l.split()) != [tuple(x) for x in w[dk]]:
                                fail("chains:ls", "decay %s has couplings [%s], selection rule gives %s" % (d, l, w[dk]), i)
        elif o.get("raise") != "RecursionError":
            fail("chains:cyclic", "cyclic card accepted: %s" % str(pub(o))[:200], i)
        if "raise" in o:
            continue
        # 3. each chain is a tree from $top to exactly $finals
        part = cfg["particle"]
        top = part["$top"]
        top = list(top)[0] if isinstance(top, dict) else top
        fin = sorted(part["$finals"])
        for s in o["chains"]:
            stat["tree_checks"] += 1
            decs = [(d.split("->")[0], d.split("->")[1].split("+")) for d in s[1:-1].split(", ")]
            cores = [c_ for c_, _ in decs]
            outs = [x for _, os_ in decs for x in os_]
            leaves = sorted(x for x in outs if x not in cores)
            roots = [c_ for c_ in cores if c_ not in outs]
            if roots != [top] or leaves != fin or len(set(cores)) != len(cores) or len(set(outs)) != len(outs) or any(len(os_) != 2 for _, os_ in decs):
                fail("chains:not-a-tree", "chain %s is not a tree from %s to %s" % (s, top, fin), i)
        # 4. documented equivalences: aliases, includes, form of $top/$finals, key order
        if i % 2 == 0 or not ctx.quick or ctx.suspect:
            vcfg, vshare = expanded_variant(rnd, cfg, share)
            ov = observe(vcfg, vshare)
            stat["variants"] += 1
            stat["loads"] += 1
            if pub(ov) != pub(o):
                diff = [f for f in pub(o) if pub(o).get(f) != pub(ov).get(f)]
                fail("variant:alias-include-order", "the expanded spelling of the card (aliases, merged include, other $top/$finals form, permuted keys) differs in %s" % diff, i, {"variant": vcfg})
        # 5. export -> load
        if i % 2 == 1 or not ctx.quick or ctx.suspect:
            oe = export_load(ctx, i, cfg, o)
            stat["exports"] += 1
            stat["loads"] += 1
            has_ls_opt = "ls_list" in json.dumps(cfg["decay"])
            if "raise" in oe:
                if not has_ls_opt:
                    fail("export:load", "loading the export raises %s %s" % (oe["raise"], oe.get("msg")), i)
            else:
                if sorted(oe["chains"]) != sorted(o["chains"]) and not has_ls_opt:
                    fail("export:chains", "export->load gives chains %s, original %s" % (oe["chains"], o["chains"]), i)
                elif oe["chains"] != o["chains"]:
                    stat["export_order_changed"] += 1
                has_l_opt = has_ls_opt or "l_list" in json.dumps(cfg["decay"])  # l_list / ls_list are not part of the export
                if not has_l_opt and sorted(oe["chains"]) == sorted(o["chains"]) and dict(zip(oe["chains"], oe["ls"])) != dict(zip(o["chains"], o["ls"])):
                    fail("export:couplings", "export->load changes the (l,s) lists (p_break / c_break / C lost?): %s vs %s" % (oe["ls"], o["ls"]), i)
                if any(oe["qn"].get(k) != v for k, v in o["qn"].items() if k in oe["qn"]) or (set(oe["qn"]) != set(o["qn"]) and not has_ls_opt):
                    fail("export:qn", "export->load changes quantum numbers: %s vs %s" % (oe["qn"], o["qn"]), i)

    # 5b. a fresh interpreter (different PYTHONHASHSEED, nothing loaded before) gives the same model
    n_fresh = 12 if ctx.quick and not ctx.suspect else 60
    sel = list(range(min(n_fresh, len(cs))))
    fresh = fresh_process_obs([cs[i] for i in sel], 1 + (ctx.seed * 7919 + 17) % 4000000000)
    stat["fresh_process_cards"] = len(sel)
    for i, of in zip(sel, fresh):
        mine = json.loads(json.dumps(pub(ctx._c19_obs[i][0]), default=str))
        if of != mine:
            diff = [f for f in mine if mine.get(f) != of.get(f)]
            fail("load:fresh-process", "the same card loaded in a fresh interpreter differs in %s (e.g. %s vs %s)" % (
                diff, str(mine.get(diff[0]))[:200] if diff else "", str(of.get(diff[0]))[:200] if diff else ""), i)

    # 6. history independence: the loaded model must be the model of ITS card whatever was loaded before.
    #    Observable: the CG factor of every decay against cg_coef evaluated with the decay's own quantum numbers.
    n_hist = 12 if ctx.quick and not ctx.suspect else 60
    hist_fail = 0
    idx = [i for i in range(len(cs)) if "raise" not in ctx._c19_obs[i][0]]
    for i in idx[:n_hist]:
        cfg, share = cs[i]
        oo = observe(copy.deepcopy(cfg), copy.deepcopy(share), keep=True)
        c = oo.get("_loader")
        if c is None:
            continue
        for ch in c.get_decay():
            for d in ch:
                stat["cg_decays"] += 1
                got = np.asarray(d.get_cg_matrix(), dtype=float)
                exp = expected_cg(d)
                if got.shape != exp.shape or not np.allclose(got, exp, atol=1e-9):
                    hist_fail += 1
                    if hist_fail <= 3:
                        fail("history:cg-matrix-cache", "after other cards were loaded in the process, %s (2J=%s) of this card carries a CG factor of shape %s computed for another card (own quantum numbers give shape %s, max diff %s)" % (
                            d, [j2_of(d.core.J), j2_of(d.outs[0].J), j2_of(d.outs[1].J)], got.shape, exp.shape,
                            "n/a" if got.shape != exp.shape else float(np.max(np.abs(got - exp)))), i, {"history": "all cards of the run before this one"})
        # side effect of topology_map (candidate patch C14-fix_topology_map_no_register): registered temporaries
        for g in (c.get_decay(False), c.get_decay(True)):
            parts = [p for ch in g for p in ch.get_all_particles()]
            snap = {str(p): (len(p.decay), len(p.creators)) for p in parts}
            heads = {str(p): (id(p.decay[0]) if p.decay else None, id(p.creators[0]) if p.creators else None) for p in parts}
            type(g).get_chains_map.cache_clear()  # the cache is shared by all groups; a miss re-runs topology_map
            with contextlib.redirect_stdout(io.StringIO()):
                g.get_chains_map()
            snap2 = {str(p): (len(p.decay), len(p.creators)) for p in parts}
            heads2 = {str(p): (id(p.decay[0]) if p.decay else None, id(p.creators[0]) if p.creators else None) for p in parts}
            if snap != snap2:
                stat["creators_grew"] += 1
            if heads != heads2 or any(a[0] != b[0] for a, b in zip(snap.values(), snap2.values())):
                fail("load:after-topology-map", "get_chains_map() changes particle.decay or decay[0]/creators[0] of the loaded model: %s -> %s" % (snap, snap2), i)
        if stat["creators_grew"]:
            again = observe(copy.deepcopy(cfg), copy.deepcopy(share))
            if pub(again) != pub(ctx._c19_obs[i][0]):
                fail("load:after-topology-map", "a load after get_chains_map() differs", i)
    # the pair that shows the cache finding deterministically (independent of the random stream)
    demo = history_demo()
    if demo is not None:
        res.fail("history:cg-matrix-cache", demo["what"], demo["replay"])
    demo2 = two_include_demo()
    stat["two_include_alias_override_reproduces"] = demo2 is not None
    if demo2 is not None:
        if REPORT_TWO_INCLUDE_ALIAS:
            res.fail("include:two-includes-alias-override", demo2["what"], demo2["replay"])
        else:
            res.notes.append("NOT REPORTED AS FAILURE (outside the one-include grammar, flag REPORT_TWO_INCLUDE_ALIAS): " + demo2["what"])
    stat["history_failures"] = hist_fail
    res.coverage.update({"search": stat})
    search_cons(ctx, res)
    search_dpar(ctx, res)
    search_epar(ctx, res)
    if stat["creators_grew"]:
        res.notes.append("every uncached get_chains_map()/topology_map call appends temporary BaseDecay objects to particle.creators of the loaded groups (%d group probes over %d cards: lists grow, particle.decay, decay[0] and creators[0] unchanged); chains, parameter names, trainable/fixed/bound sets of the same and of later loads are unchanged -> no observable effect on the property, candidate patch C14-fix_topology_map_no_register stays hygiene only" % (stat["creators_grew"], min(len(idx), n_hist)))


# Two includes + mixed spellings: include #1 spells a key with its alias, include #2 (or the card) with the canonical
# name -> the value of include #1 overrides the card's own value (shown on the implementation and reproduced by the
# model; refuted as a theorem in Props/C19c `alias_include_two_refuted`).  The grammar keeps to ONE include, so the
# check does not meet it; set the flag to report it as failure `include:two-includes-alias-override`
# (proposed repair fixes/C19-fix_include_alias_override.diff).
REPORT_TWO_INCLUDE_ALIAS = True


def two_include_card(expanded):
    inc1 = {"R": ({"P": -1, "width": 0.1} if expanded else {"Par": -1, "width": 0.1})}
    inc2 = {"R": {"P": -1}}
    cfg = {"data": {"dat_order": ["B", "C", "D"]}, "decay": {"A": ["R", "D"], "R": ["B", "C"]},
           "particle": {"$top": {"A": {"J": 1, "P": -1, "mass": 5.0}},
                        "$finals": {"B": {"J": 1, "P": -1, "mass": 0.1}, "C": {"J": 0, "P": -1, "mass": 0.5}, "D": {"J": 0, "P": -1, "mass": 0.5}},
                        "$include": ["i1.yml", "i2.yml"], "R": {"J": 1, "P": 1, "mass": 2.0}}}
    return cfg, {"i1.yml": inc1, "i2.yml": inc2}


def two_include_demo():
    """the card says R has P=+1; both includes say -1 (one of them as `Par`). Local definitions must win."""
    a = observe(*two_include_card(False))
    b = observe(*two_include_card(True))
    if pub(a) != pub(b) or a.get("qn", {}).get("R", [None, None])[1] != 1:
        return {"what": "two $include files, the first spelling the parity as `Par`: the card's own `P: 1` of R is overridden by the include (loaded P=%s, couplings %s); with the alias spelled out the card's value wins (P=%s, couplings %s)" % (
            a.get("qn", {}).get("R", [None, None])[1], a.get("ls"), b.get("qn", {}).get("R", [None, None])[1], b.get("ls")),
            "replay": {"check": "two_include_demo"}}
    return None


def lambda_card(jp):
    j, p = jp
    return {"data": {"dat_order": ["B", "C", "D"]},
            "decay": {"A": [["R", "D", {"p_break": True}]], "R": ["B", "C"]},
            "particle": {"$top": {"A": {"J": "1/2", "P": 1, "mass": 5.6}},
                         "$finals": {"B": {"J": "1/2", "P": 1, "mass": 0.94}, "C": {"J": 0, "P": -1, "mass": 0.49}, "D": {"J": 1, "P": -1, "mass": 3.1}},
                         "R": {"J": j, "P": p, "mass": 1.8, "width": 0.1}}}


def history_demo():
    """spin-parity scan in one process: R -> B(1/2+) C(0-) with J^P = 1/2+ then 3/2+ (both have the single coupling
    (l,s) = (1,1/2)); returns a failure description if the second model carries the CG factor of the first"""
    import numpy as np
    o1 = observe(lambda_card(("1/2", 1)), {}, keep=True)
    d1 = o1["_loader"].get_decay()[0][1]
    d1.get_cg_matrix()
    o2 = observe(lambda_card(("3/2", 1)), {}, keep=True)
    d2 = o2["_loader"].get_decay()[0][1]
    got, exp = np.asarray(d2.get_cg_matrix(), dtype=float), expected_cg(d2)
    if got.shape != exp.shape or not np.allclose(got, exp, atol=1e-9):
        return {"what": "J^P scan in one process: after loading R(1/2+) -> B C, the card with R(3/2+) gets get_cg_matrix() = %s for %s, its own quantum numbers give %s" % (
            got.ravel().round(4).tolist(), d2, exp.ravel().round(4).tolist()),
            "replay": {"check": "history_demo", "first": lambda_card(("1/2", 1)), "second": lambda_card(("3/2", 1))}}
    return None


# --------------------------------------------------------------------------------------------------------------
# constraints (fixed / free / bound / tie / gaussian-constraint sets) and the history model
# --------------------------------------------------------------------------------------------------------------

def cons_cases(ctx):
    """constrained variants of the loadable generated cards: list of (case index, cfg, share)"""
    if getattr(ctx, "_c19_cons", None) is not None:
        return ctx._c19_cons
    import sys
    me = sys.modules[__name__]
    cs = cases(ctx)
    n = 50 if ctx.quick else 500
    rnd = random.Random(65537 * ctx.seed + 23)
    out = []
    for i, (cfg, share) in enumerate(cs):
        if len(out) >= n:
            break
        o = obs_of(ctx, i, cfg, share)[0]
        if "raise" in o or "params" not in o:
            continue
        out.append((i, K.add_constraints(me, rnd, cfg, share, o), share))
    ctx._c19_cons = out
    ctx._c19_cons_obs = {}
    return out


def cons_obs(ctx, j, cfg, share):
    if j not in ctx._c19_cons_obs:
        ctx._c19_cons_obs[j] = K.observe(cfg, share)
    return ctx._c19_cons_obs[j]


def order_card():
    """Props/C19d `orderCard`: the decays of x are re-registered in first-appearance order by export -> load"""
    pb = {"p_break": True}
    return {"data": {"dat_order": ["B", "C", "D", "E", "F"]},
            "decay": {"A": [["x", "Q1", pb], ["x", "V", pb]], "x": [["B", "C", pb], ["Z", "C", pb]], "Z": ["B", "E", pb],
                      "Q1": ["D", "F", pb], "V": [["Q2", "E", pb], ["D", "F", pb]], "Q2": ["D", "F", pb]},
            "particle": {"$top": "A", "$finals": ["B", "C", "D", "E", "F"]}}


def order_demo(ctx, res):
    """model (ops chains / rt) against the implementation on the card on which export -> load permutes the chains"""
    cfg = order_card()
    o = observe(copy.deepcopy(cfg), {}, amp=False)
    if "raise" in o:
        res.broke("order_demo: the 5-body order card does not load", o)
        return None
    with contextlib.redirect_stdout(io.StringIO()):
        from tf_pwa.config_loader import ConfigLoader
        ex = ConfigLoader(copy.deepcopy(cfg)).get_decay().as_config()
    ex["data"] = {"dat_order": ["B", "C", "D", "E", "F"]}
    oe = observe(ex, {}, amp=False)
    enc = encode_card(cfg, {})
    m_ch, m_rt = ctx.model.query(["C19 chains " + enc, "C19 rt " + enc])
    impl_rt = ("raise:" + oe["raise"]) if "raise" in oe else "|".join(oe["chains"]) + " # " + "|".join(";".join(x) for x in oe["ls"])
    if "|".join(o["chains"]) != m_ch or impl_rt != m_rt:
        res.broke("correspondence Config.roundTrip on the order card (Props/C19d orderCard)", {"impl": o["chains"], "impl_rt": impl_rt[:400], "model": m_ch, "model_rt": m_rt[:400]})
    if "raise" not in oe and sorted(oe["chains"]) != sorted(o["chains"]):
        res.fail("export:chains", "export->load of the order card gives chains %s, original %s" % (oe["chains"], o["chains"]), {"config": cfg, "share": {}, "check": "export:chains"})
    return "raise" not in oe and oe["chains"] != o["chains"]


def hist_pairs():
    return [(("1/2", 1), ("3/2", 1)), (("3/2", 1), ("1/2", 1)), (("1/2", 1), ("1/2", 1)), (("3/2", -1), ("1/2", 1))]


def hist_impl(first, second):
    """load `first`, touch its CG factors, load `second`: per decay of the second model the (2ja,2jb,2jc : ls) signature
    its CG factor was computed for ('stale' shapes are recognised through expected_cg)"""
    import numpy as np
    o1 = observe(lambda_card(first), {}, keep=True)
    for ch in o1["_loader"].get_decay():
        for d in ch:
            d.get_cg_matrix()
    o2 = observe(lambda_card(second), {}, keep=True)
    out = []
    for ch in o2["_loader"].get_decay():
        for d in ch:
            got, exp = np.asarray(d.get_cg_matrix(), dtype=float), expected_cg(d)
            out.append("own" if got.shape == exp.shape and np.allclose(got, exp, atol=1e-9) else "stale")
    return out


def correspond_cons(ctx, res):
    import sys
    me = sys.modules[__name__]
    cc = cons_cases(ctx)
    lines = [K.encode(me, cfg, share) for _, cfg, share in cc]
    # history model: which cache mode does the tree have?  (observed through history_demo)
    mode = "object" if history_demo() is None else "name"
    pairs = hist_pairs()
    for a, b in pairs:
        lines.append("C19k hist %s %s @@H %s" % (mode, encode_card(lambda_card(a), {}), encode_card(lambda_card(b), {})))
    model = ctx.model.query(lines)
    n_bad = 0
    kinds = {}
    nontriv = set()
    for j, ((i, cfg, share), line) in enumerate(zip(cc, model)):
        m = K.parse_model(line)
        o = cons_obs(ctx, j, cfg, share)
        kinds[o.get("raise", "ok")] = kinds.get(o.get("raise", "ok"), 0) + 1
        if m.get("raise") == "unsupported":
            res.notes.append("constraint case %d outside the model's scope (overlapping tie groups)" % j)
            continue
        d = K.diff(m, o)
        if "raise" not in o:
            nontriv.add(json.dumps([o["train"], o["bound"], o["same"], sorted(o["gauss"])], sort_keys=True, default=str))
        if d is not None:
            n_bad += 1
            if n_bad <= 3:
                res.broke("correspondence ConfigC.constraints vs ConfigLoader.get_amplitude (trainable_vars / bound_dic / same_list / gauss_constr_dic / assigned values)",
                          {"case": i, "difference": d[:600], "config": cfg, "share": share})
        if j < 1:
            res.samples.append({"op": lines[j][:300], "impl_trainable": o.get("train", o.get("raise")), "model": line[:300]})
    n_hist_bad = 0
    for (a, b), line in zip(pairs, model[len(cc):]):
        got, own = line.split(" # ")
        m_obs = ["own" if x == y else "stale" for x, y in zip(got.split("|"), own.split("|"))]
        i_obs = hist_impl(a, b)
        if m_obs != i_obs:
            n_hist_bad += 1
            res.broke("correspondence ConfigC.loadObs (cache mode %s) vs two loads in one process" % mode, {"first": a, "second": b, "model": m_obs, "impl": i_obs})
    reordered = order_demo(ctx, res)
    res.coverage["export_order_card_reordered_on_implementation"] = reordered
    res.coverage["constraints"] = {"cards": len(cc), "outcome_kinds": kinds, "distinct_nontrivial": len(nontriv), "disagreements": n_bad,
                                   "history_pairs": len(pairs), "history_cache_mode_observed": mode, "history_disagreements": n_hist_bad}
    res.coverage["evaluations"] = res.coverage.get("evaluations", 0) + len(cc)


def search_cons(ctx, res):
    """property statements about the constraint sets on the implementation (no Lean model involved)"""
    import sys
    me = sys.modules[__name__]
    cc = cons_cases(ctx)
    cs = cases(ctx)
    rnd = random.Random(104729 * ctx.seed + 11)
    stat = {"repeat_loads": 0, "respelled": 0, "reference_checks": 0, "existence_checks": 0, "fcn_gauss": 0}
    n_fcn = 0
    for j, (i, cfg, share) in enumerate(cc):
        base = obs_of(ctx, i, cs[i][0], cs[i][1])[0]
        o = cons_obs(ctx, j, cfg, share)

        def fail(key, what, extra=None):
            res.fail(key, what, dict({"config": cfg, "share": share, "check": key}, **(extra or {})))
        known = None
        # determinism: a second load gives the same sets (values the loader draws at random excluded)
        if j % 2 == 0 or not ctx.quick or ctx.suspect:
            o2 = K.observe(cfg, share)
            stat["repeat_loads"] += 1
            if "raise" not in o and "raise" not in o2:
                known = {k for k in o["vals"] if K.close(o["vals"][k], o2["vals"][k])}
            if K.public(o2, known) != K.public(o, known):
                a, b = K.public(o, known), K.public(o2, known)
                fail("constraints:repeat", "second load of the same card gives other constraint sets: %s" % [f for f in a if a.get(f) != b.get(f)])
        # documented spellings / dict key order
        if j % 2 == 1 or not ctx.quick or ctx.suspect:
            vcfg = K.respelled(rnd, cfg, share)
            ov = K.observe(vcfg, share)
            stat["respelled"] += 1
            if "raise" not in o and "raise" not in ov:
                known = {k for k in o["vals"] if K.close(o["vals"][k], ov["vals"][k])} | set((cfg.get("constrains") or {}).get("fix_var") or {})
            a, b = K.public(o, known), K.public(ov, known)
            if a != b:
                fail("constraints:alias-key-order", "another spelling of the constraint keys (m_/mass_, g_/width_, m0_/mass_, float forms) or another key order of fix_var/var_range/gauss_constr changes %s" % [f for f in a if a.get(f) != b.get(f)], {"variant": vcfg})
        w = K.reference_oracle(cfg, base, o)
        stat["reference_checks"] += 1
        if w:
            fail("constraints:reference-coupling", w)
        w = K.bounds_oracle(me, cfg, share, base, o)
        if w:
            fail("constraints:particle-bounds", w)
        w = K.existence_oracle(cfg, base, o)
        stat["existence_checks"] += 1
        if w:
            fail("constraints:unknown-name", w)
        if "raise" not in o and o["gauss"] and n_fcn < (3 if ctx.quick else 20):
            n_fcn += 1
            of = K.observe(cfg, share, with_fcn=True)
            stat["fcn_gauss"] += 1
            if "raise" in of or of.get("fcn_gauss") != of.get("gauss") or sorted(of["gauss"]) != sorted(o["gauss"]):
                fail("constraints:fcn-gauss", "get_fcn().gauss_constr = %s, loader gauss_constr_dic = %s" % (of.get("fcn_gauss", of.get("raise")), o["gauss"]))
    stat["unknown_names"] = K.unknown_name_demo(me)
    res.coverage["search_constraints"] = stat
    acc = [k for k, v in stat["unknown_names"].items() if v == "accepted"]
    if acc:
        res.notes.append("names that do not exist are accepted without any check in the sections %s (fix_var / free_var raise KeyError); modelled as it is (Props/C19e `unchecked_sections_accept_unknown_names`), reported here, not counted as a failure" % acc)


# --------------------------------------------------------------------------------------------------------------
# part g: decay-entry parameters, decay_params / production_params, params_head, line-shape names, coef_head
# --------------------------------------------------------------------------------------------------------------

DPAR_OPS = ("chains", "ls", "params", "attrs", "export", "ties")


def dpar_cases(ctx):
    """(kind, cfg, share) : generated cards of the extended grammar + the malformed stream derived from them"""
    if getattr(ctx, "_c19_dpar", None) is not None:
        return ctx._c19_dpar
    import sys
    me = sys.modules[__name__]
    n = 64 if ctx.quick else 400
    rnd = random.Random(2147483 * ctx.seed + 77)
    cs = [("corpus", cfg, share) for cfg, share in G_CORPUS()]
    while len(cs) < n + len(G_CORPUS()):
        try:
            cfg, share = G.gen_dcard(me, rnd)
        except AssertionError:
            continue
        cs.append(("gen", cfg, share))
    obs = [G.observe(me, cfg, share) for _, cfg, share in cs]
    n_mal = 24 if ctx.quick else 150
    k = 0
    for (kind, cfg, share), o in list(zip(cs, obs)):
        if k >= n_mal:
            break
        if kind != "gen" or "raise" in o:
            continue
        m = G.malformed(me, rnd, cfg, share, o["chains"])
        if m is None:
            continue
        cs.append(("mal:" + m[0], m[1], share))
        obs.append(G.observe(me, m[1], share))
        k += 1
    ctx._c19_dpar = (cs, obs)
    return ctx._c19_dpar


def G_CORPUS():
    p = {"$top": {"A": {"J": 1, "P": -1, "mass": 4.6}},
         "$finals": {"B": {"J": 1, "P": -1, "mass": 2.0}, "C": {"J": 0, "P": -1, "mass": 0.5}, "D": {"J": 0, "P": -1, "mass": 0.5}},
         "R": {"J": 1, "P": 1, "mass": 2.6, "width": 0.05}, "S": {"J": 1, "P": 1, "mass": 2.7, "width": 0.05, "coef_head": "R"},
         "T": {"J": 1, "P": 1, "mass": 2.7, "width": 0.05, "coef_head": "R", "model": "LASS"}}
    dat = {"dat_order": ["B", "C", "D"]}
    out = []
    # coef_head: two followers of one head (overlapping tie groups), same coupling counts
    out.append(({"data": dat, "decay": {"A": [["R", "D"], ["S", "D"], ["T", "C"]], "R": ["B", "C"], "S": ["B", "C"], "T": ["B", "D"]}, "particle": copy.deepcopy(p)}, {}))
    # coef_head with different coupling counts: Exception("Shapes are not the same.")
    out.append(({"data": dat, "decay": {"A": [["R", "D"], ["S", "D", {"l_list": [0]}]], "R": ["B", "C"], "S": ["B", "C"]}, "particle": copy.deepcopy(p)}, {}))
    # keyword precedence: entry > decay_params of the mother > production_params of the daughters; params_head; d
    q = copy.deepcopy(p)
    q["R"].update({"decay_params": {"l_list": [0], "has_barrier_factor": False}, "production_params": {"l_list": [0], "foo": 1, "no_q0": True}})
    out.append(({"data": dat, "decay": {"A": [["R", "D", {"l_list": [2], "d": 5.0, "params_head": "HH"}]], "R": ["B", "C", {"has_barrier_factor": True}, {"model": "gls-bf"}]}, "particle": q}, {}))
    # l_list that excludes everything: chain removed / nothing left
    out.append(({"data": dat, "decay": {"A": [["R", "D", {"l_list": [7]}], ["S", "D"]], "R": ["B", "C"], "S": ["B", "C"]}, "particle": copy.deepcopy(p)}, {}))
    out.append(({"data": dat, "decay": {"A": [["R", "D", {"l_list": [7]}]], "R": ["B", "C"]}, "particle": copy.deepcopy(p)}, {}))
    # unknown decay model on a candidate chain that the cut would remove anyway: KeyError comes first
    out.append(({"data": dat, "decay": {"A": [["R", "D", {"l_list": [7], "model": "nope"}], ["S", "D"]], "R": ["B", "C"], "S": ["B", "C"]}, "particle": copy.deepcopy(p)}, {}))
    return out


def correspond_dpar(ctx, res):
    import sys
    me = sys.modules[__name__]
    cs, obs = dpar_cases(ctx)
    lines = []
    for _, cfg, share in cs:
        enc = G.encode(me, cfg, share)
        lines += ["C19g %s %s" % (op, enc) for op in DPAR_OPS]
    ans = ctx.model.query(lines)
    n_bad = n_unsup = n_struct = 0
    kinds, nontriv, feat = {}, set(), {}
    for i, ((kind, cfg, share), o) in enumerate(zip(cs, obs)):
        a = dict(zip(DPAR_OPS, ans[len(DPAR_OPS) * i: len(DPAR_OPS) * (i + 1)]))
        if any(x in ("parse-error", "bad-op") for x in a.values()):
            res.broke("C19g: the model cannot parse the card", {"case": i, "line": lines[len(DPAR_OPS) * i][:400]})
            continue
        mv, iv = G.model_view(a), G.impl_view(o)
        n_unsup += any(v == "raise:unsupported" for v in mv.values() if isinstance(v, str))
        cls = ("raise:" + o["raise"] + "@" + o["stage"]) if "raise" in o else "ok"
        kinds[kind.split(":")[0] + " " + cls] = kinds.get(kind.split(":")[0] + " " + cls, 0) + 1
        txt = json.dumps([cfg["decay"], cfg["particle"], share], default=str)
        for f in ("decay_params", "production_params", "params_head", "coef_head", "l_list", "ls_list", "has_barrier_factor", "\"d\"", "BWR_LS", "LASS", "exp"):
            if f in txt:
                feat[f] = feat.get(f, 0) + 1
        if "raise" not in o:
            nontriv.add(json.dumps([o["chains"], o["attrs"], o["params"], o["same"]]))
        d = G.compare(mv, iv)
        if d is not None and d[0] == "chains" and d[2] == "raise:KeyError" and not str(d[1]).startswith("raise:") and G.entry_with_unregistered_model(cfg):
            # KeyError of the SECOND pass (decay_struct) for an entry the first pass never instantiated: outside ConfigD,
            # modelled by ConfigE.structError and compared there (correspond_epar runs this stream through ConfigE)
            n_struct += 1
            d = None
        if d is not None:
            n_bad += 1
            if n_bad <= 3:
                res.broke("correspondence ConfigD.%s vs ConfigLoader (decay keywords / restricted (l,s) lists / names / ties)" % d[0],
                          {"case": i, "kind": kind, "model": str(d[1])[:600], "impl": str(d[2])[:600], "config": cfg, "share": share})
        if i == 2:
            res.samples.append({"op": lines[len(DPAR_OPS) * i + 3][:300], "impl_attrs": iv.get("attrs"), "model_attrs": mv.get("attrs")})
    res.coverage["decay_params"] = {"cards": len(cs), "malformed_stream": sum(1 for k, _, _ in cs if k.startswith("mal")), "outcome_kinds": kinds,
                                    "features": feat, "distinct_nontrivial": len(nontriv), "model_unsupported_answers": n_unsup, "disagreements": n_bad,
                                    "second_pass_keyerror_left_to_part_h": n_struct}
    res.coverage["evaluations"] = res.coverage.get("evaluations", 0) + len(cs)


def search_dpar(ctx, res):
    """statement-level oracles (own reading of the card, no Lean model) + determinism of the extended cards"""
    import sys
    me = sys.modules[__name__]
    cs, obs = dpar_cases(ctx)
    stat = {"cards": 0, "repeat_loads": 0, "d_ignored": 0}
    for i, ((kind, cfg, share), o) in enumerate(zip(cs, obs)):
        stat["cards"] += 1
        for key, what in G.check_statement(me, cfg, share, o):
            res.fail(key, what, {"config": cfg, "share": share, "check": key})
        if i % 4 == 0 or ctx.suspect or not ctx.quick:
            o2 = G.observe(me, cfg, share)
            stat["repeat_loads"] += 1
            if o2 != o:
                res.fail("dpar:repeat", "second load of the same card differs in %s" % [f for f in o if o.get(f) != o2.get(f)], {"config": cfg, "share": share, "check": "dpar:repeat"})
        if "raise" not in o and "\"d\"" in json.dumps(cfg["decay"]):
            stat["d_ignored"] += 1
    res.coverage["search_decay_params"] = stat
    if stat["d_ignored"]:
        res.notes.append("a decay-entry key `d` is stored in _kwargs (and exported by as_config) but HelicityDecay.init_params sets self.d = 3.0 afterwards: the barrier-factor radius of the entry is NOT used (%d cards); modelled as it is (ConfigD.attrs), only constrains.decay.decay_d changes d" % stat["d_ignored"])



# --------------------------------------------------------------------------------------------------------------
# part h: LS-decay particles, shared params_head, line-shape names, coef_head on several chains, decay_d, transforms
# --------------------------------------------------------------------------------------------------------------

def epar_cases(ctx):
    """(kind, cfg, share, features) of the part-h grammar + its malformed stream, with the observations"""
    if getattr(ctx, "_c19_epar", None) is not None:
        return ctx._c19_epar
    import sys
    me = sys.modules[__name__]
    n = 64 if ctx.quick else 420
    rnd = random.Random(2147483 * ctx.seed + 91)
    cs = [("corpus", cfg, share, set()) for cfg, share in E.corpus()]
    n0 = len(cs)
    while len(cs) < n + n0:
        try:
            cfg, share, feats = E.gen_ecard(me, rnd)
        except AssertionError:
            continue
        cs.append(("gen", cfg, share, feats))
    obs = [E.observe(me, cfg, share) for _, cfg, share, _ in cs]
    n_mal = 24 if ctx.quick else 150
    k = 0
    for (kind, cfg, share, _), o in list(zip(cs, obs)):
        if k >= n_mal:
            break
        if kind != "gen" or "raise" in o:
            continue
        m = E.malformed(me, rnd, cfg, share, o["chains"])
        if m is None:
            continue
        cs.append(("mal:" + m[0], m[1], share, set()))
        obs.append(E.observe(me, m[1], share))
        k += 1
    ctx._c19_epar = (cs, obs)
    return ctx._c19_epar


def correspond_epar(ctx, res):
    import sys
    me = sys.modules[__name__]
    cs, obs = epar_cases(ctx)
    variant = E.decay_d_variant()
    lines = []
    for _, cfg, share, _ in cs:
        enc = E.encode(me, cfg, share, variant)
        lines += ["C19h %s %s" % (op, enc) for op in E.OPS]
    # the part-g stream through the part-h model: nothing of it may be left unsupported
    gcs, gobs = dpar_cases(ctx)
    glines = []
    for _, cfg, share in gcs:
        enc = E.encode(me, cfg, share, variant)
        glines += ["C19h %s %s" % (op, enc) for op in E.OPS]
    ans = ctx.model.query(lines + glines)
    gans = ans[len(lines):]
    n_bad = n_unsup = 0
    kinds, nontriv, feat = {}, set(), {}
    nops = len(E.OPS)
    for i, ((kind, cfg, share, feats), o) in enumerate(zip(cs, obs)):
        a = dict(zip(E.OPS, ans[nops * i: nops * (i + 1)]))
        if any(x in ("parse-error", "bad-op") for x in a.values()):
            res.broke("C19h: the model cannot parse the card", {"case": i, "line": lines[nops * i][:400]})
            continue
        mv, iv = E.model_view(a), E.impl_view(o)
        n_unsup += any(v == "raise:unsupported" for v in mv.values() if isinstance(v, str))
        cls = ("raise:" + o["raise"] + "@" + o["stage"]) if "raise" in o else "ok"
        kinds[kind.split(":")[0] + " " + cls] = kinds.get(kind.split(":")[0] + " " + cls, 0) + 1
        for f in feats:
            feat[f] = feat.get(f, 0) + 1
        if "raise" not in o:
            nontriv.add(json.dumps([o["chains"], o["attrs0"], o["params"], o["same"], o["d"], o["trans"]]))
        d = E.compare(mv, iv, o)
        if d is not None:
            n_bad += 1
            if n_bad <= 3:
                res.broke("correspondence ConfigE.%s vs ConfigLoader (LS-decay / shared heads / line-shape names / coef_head rewriting / decay_d / transforms / export->load)" % d[0],
                          {"case": i, "kind": kind, "model": str(d[1])[:600], "impl": str(d[2])[:600], "config": cfg, "share": share})
        if i == 5:
            res.samples.append({"op": lines[nops * i + 4][:300], "impl_params": iv.get("params"), "model_params": mv.get("params"), "impl_ties": str(iv.get("ties")), "model_ties": str(mv.get("ties"))})
    g_bad = g_unsup = 0
    for i, ((kind, cfg, share), o) in enumerate(zip(gcs, gobs)):
        a = dict(zip(E.OPS, gans[nops * i: nops * (i + 1)]))
        if any(x in ("parse-error", "bad-op") for x in a.values()):
            res.broke("C19h: the model cannot parse a part-g card", {"case": i, "line": glines[nops * i][:400]})
            continue
        mv = E.model_view(a)
        g_unsup += any(v == "raise:unsupported" for v in mv.values() if isinstance(v, str))
        # part g observes a subset: chains, ls, export, params, ties (attrs of part g have no d override here)
        iv = G.impl_view(o)
        d = None
        if mv["chains"].startswith("raise:"):
            if mv["chains"] != "raise:unsupported" and iv["chains"] != mv["chains"]:
                d = ("chains", mv["chains"], iv["chains"])
        else:
            for op in ("chains", "ls", "export", "params", "ties", "attrs"):
                if op in ("params", "ties", "attrs") and isinstance(mv["params"], str) and mv["params"] == "raise:unsupported":
                    continue
                if op in ("params", "ties", "attrs") and isinstance(iv["params"], str) and iv["params"].startswith("raise:"):
                    if mv["params"] != iv["params"]:
                        d = ("params", mv["params"], iv["params"])
                    break
                if mv[op] != iv[op]:
                    d = (op, mv[op], iv[op])
                    break
        if d is not None:
            g_bad += 1
            if g_bad <= 2:
                res.broke("correspondence ConfigE.%s vs ConfigLoader on a part-g card" % d[0],
                          {"case": i, "kind": kind, "model": str(d[1])[:600], "impl": str(d[2])[:600], "config": cfg, "share": share})
    res.coverage["part_h"] = {"cards": len(cs), "malformed_stream": sum(1 for k, _, _, _ in cs if k.startswith("mal")), "outcome_kinds": kinds,
                              "features": feat, "distinct_nontrivial": len(nontriv), "model_unsupported_answers": n_unsup, "disagreements": n_bad,
                              "decay_d_dict_loop": {"d": "zip(decay_d, chain) as written", "D": "every decay of the chain (fix applied)"}[variant],
                              "part_g_cards_through_part_h_model": {"cards": len(gcs), "model_unsupported_answers": g_unsup, "disagreements": g_bad}}
    res.coverage["evaluations"] = res.coverage.get("evaluations", 0) + len(cs) + len(gcs)


def search_epar(ctx, res):
    """statement-level oracles of part h + determinism + 3-body / repeated-name cards (no Lean model)"""
    import sys
    me = sys.modules[__name__]
    cs, obs = epar_cases(ctx)
    stat = {"cards": 0, "repeat_loads": 0, "self_tie_untrainable": 0, "three_body_cards": 0}
    for i, ((kind, cfg, share, _), o) in enumerate(zip(cs, obs)):
        stat["cards"] += 1
        for key, what in E.check_statement(me, cfg, share, o):
            res.fail(key, what, {"config": cfg, "share": share, "check": key})
        if i % 4 == 0 or ctx.suspect or not ctx.quick:
            o2 = E.observe(me, cfg, share)
            stat["repeat_loads"] += 1
            if o2 != o:
                res.fail("epar:repeat", "second load of the same card differs in %s" % [f for f in o if o.get(f) != o2.get(f)], {"config": cfg, "share": share, "check": "epar:repeat"})
        if o.get("stage") == "done" and any(len(set(g)) == 1 and len(g) > 1 for g in o["same"]):
            stat["self_tie_untrainable"] += 1
    for name, cfg, chains, params in E.three_body_cards():
        stat["three_body_cards"] += 1
        o = E.observe_plain(cfg)
        o2 = E.observe_plain(cfg)
        if o != o2:
            res.fail("epar:repeat", "second load of the %s card differs" % name, {"config": cfg, "share": {}, "check": "epar:repeat"})
        if isinstance(chains, str):
            if o.get("raise") != chains:
                res.fail("epar:three-body", "%s: expected the loader to raise %s, got %s" % (name, chains, json.dumps(o)[:300]), {"config": cfg, "share": {}, "check": "epar:three-body", "name": name})
        elif o.get("chains") != chains or o.get("params") != params:
            res.fail("epar:three-body", "%s: chains %s params %s, expected %s %s" % (name, o.get("chains", o.get("raise")), o.get("params"), chains, params), {"config": cfg, "share": {}, "check": "epar:three-body", "name": name})
    res.coverage["search_part_h"] = stat
    if stat["self_tie_untrainable"]:
        res.notes.append("coef_head naming the particle itself, or a head that is first met in a LATER chain while the particle is in several chains: the loader rewrites coef_head to the particle and ties every g_ls / total of that chain TO ITSELF (same_list entries [x, x]); VarsManager.set_same([x, x]) removes x from trainable_vars, so all couplings of the chain are silently fixed (%d cards of this run). Modelled as it is (ConfigE.coefStepE, CoefStE.rew); only the tie partition is compared." % stat["self_tie_untrainable"])


def replay_cons(key, cfg, share, variant):
    """re-evaluate one constraint oracle on the stored (already constrained) card"""
    import sys
    me = sys.modules[__name__]
    plain = copy.deepcopy(cfg)
    plain.pop("constrains", None)
    for v in plain["particle"].values():
        if isinstance(v, dict):
            for k in ("float", "gauss_constr", "mass_constr"):
                v.pop(k, None)
    base = observe(plain, copy.deepcopy(share))
    o = K.observe(cfg, share)
    what = None
    if "raise" in base:
        print("REPLAY: the card without its constraints does not load on this tree: %s" % base)
        return 1
    if key == "constraints:repeat":
        o2 = K.observe(cfg, share)
        known = None if ("raise" in o or "raise" in o2) else {k for k in o["vals"] if K.close(o["vals"][k], o2["vals"][k])}
        what = None if K.public(o, known) == K.public(o2, known) else "two loads differ"
    elif key == "constraints:alias-key-order" and variant is not None:
        ov = K.observe(variant, share)
        known = None if ("raise" in o or "raise" in ov) else ({k for k in o["vals"] if K.close(o["vals"][k], ov["vals"][k])} | set((cfg.get("constrains") or {}).get("fix_var") or {}))
        a, b = K.public(o, known), K.public(ov, known)
        what = None if a == b else "respelled card differs in %s" % [f for f in a if a.get(f) != b.get(f)]
    elif key == "constraints:reference-coupling":
        what = K.reference_oracle(cfg, base, o)
    elif key == "constraints:particle-bounds":
        what = K.bounds_oracle(me, cfg, share, base, o)
    elif key == "constraints:unknown-name":
        what = K.existence_oracle(cfg, base, o)
    elif key == "constraints:fcn-gauss":
        of = K.observe(cfg, share, with_fcn=True)
        what = None if ("raise" not in of and of.get("fcn_gauss") == of.get("gauss")) else "get_fcn().gauss_constr = %s, gauss_constr_dic = %s" % (of.get("fcn_gauss", of.get("raise")), of.get("gauss"))
    if what:
        print("still failing:", what[:500])
    print("REPLAY: property C19 key %s %s" % (key, "still violated" if what else "not reproduced on this tree"))
    return 1 if what else 0


def replay(ctx, payload):
    import numpy as np
    r = payload.get("replay") or {}
    key = payload.get("key") or r.get("check")
    if not r:
        print("replay file names a broken obligation, not a failing input: %s" % json.dumps(payload.get("broken"), default=str)[:3000])
        return 1
    if r.get("check") == "two_include_demo":
        d = two_include_demo()
        print("REPLAY two_include_demo:", d["what"] if d else "not reproduced on this tree")
        return 1 if d else 0
    if r.get("check") == "history_demo":
        d = history_demo()
        print("REPLAY history_demo:", d["what"] if d else "not reproduced on this tree")
        return 1 if d else 0
    cfg, share = r["config"], r.get("share", {})
    if str(key).startswith("constraints:"):
        return replay_cons(key, cfg, share, r.get("variant"))
    if str(key).startswith("epar:") or str(key).startswith("decay_d:"):
        import sys
        me = sys.modules[__name__]
        if key == "epar:three-body":
            same = []
            for name, c3, chains, params in E.three_body_cards():
                if name == r.get("name"):
                    o = E.observe_plain(c3)
                    if (o.get("raise") != chains) if isinstance(chains, str) else (o.get("chains") != chains or o.get("params") != params):
                        same.append("%s: %s" % (name, json.dumps(o)[:300]))
        else:
            o = E.observe(me, cfg, share)
            same = [w for k, w in E.check_statement(me, cfg, share, o) if k == key]
            if key == "epar:repeat" and E.observe(me, cfg, share) != o:
                same.append("two loads differ")
        for w in same[:3]:
            print("still failing:", w[:500])
        print("REPLAY: property C19 key %s %s" % (key, "still violated" if same else "not reproduced on this tree"))
        return 1 if same else 0
    if str(key).startswith("dpar:"):
        import sys
        me = sys.modules[__name__]
        o = G.observe(me, cfg, share)
        same = [w for k, w in G.check_statement(me, cfg, share, o) if k == key]
        if key == "dpar:repeat" and G.observe(me, cfg, share) != o:
            same.append("two loads differ")
        for w in same[:3]:
            print("still failing:", w[:500])
        print("REPLAY: property C19 key %s %s" % (key, "still violated" if same else "not reproduced on this tree"))
        return 1 if same else 0
    # re-run the whole per-card statement on the stored card
    ctx._c19_cases = [(cfg, share)]
    ctx._c19_obs = {}
    ctx._c19_exp = {}
    ctx.quick = False
    res = C.Result()
    real_demo = globals()["history_demo"]
    try:
        if key != "history:cg-matrix-cache":
            globals()["history_demo"] = lambda: None
        else:
            # history: load the default seeded stream first, as the failing run did
            ctx._c19_cases = None
            ctx.quick = True
            ctx.seed = int(payload.get("seed", ctx.seed))
            cases(ctx)
        search(ctx, res)
    finally:
        globals()["history_demo"] = real_demo
    same = [f for f in res.failures if f.key == key]
    for f in same[:3]:
        print("still failing:", f.what[:500])
    print("REPLAY: property C19 key %s %s" % (key, "still violated" if same else "not reproduced on this tree"))
    return 1 if same else 0


def fresh_process_obs(cards, hashseed):
    """observables of the cards loaded in a NEW interpreter (other string-hash seed, empty caches)"""
    import os
    import shutil
    import subprocess
    import sys
    import tempfile
    d = tempfile.mkdtemp(prefix="c19_")
    try:
        path = os.path.join(d, "cards.json")
        with open(path, "w") as f:
            json.dump(cards, f)
        env = dict(os.environ, PYTHONHASHSEED=str(hashseed), TF_CPP_MIN_LOG_LEVEL="3", CUDA_VISIBLE_DEVICES="")
        r = subprocess.run([sys.executable, os.path.abspath(__file__), "--fresh", path], env=env,
                           stdout=subprocess.PIPE, stderr=subprocess.PIPE, text=True, timeout=1200)
        if r.returncode != 0:
            raise C.InfraError("fresh-process loader failed: " + r.stderr[-500:])
        return json.loads(r.stdout.strip().splitlines()[-1])
    finally:
        shutil.rmtree(d, ignore_errors=True)


def _fresh_main(path):
    C.setup_tf()
    with open(path) as f:
        cards = json.load(f)
    out = [pub(observe(cfg, share)) for cfg, share in cards]
    print(json.dumps(out, default=str))


if __name__ == "__main__":
    import sys
    if len(sys.argv) == 3 and sys.argv[1] == "--fresh":
        _fresh_main(sys.argv[2])
    raise SystemExit(0)

MANIFEST = {
    "text": "Lean model of the decay-card loader (decay_item, particle_item with $include, rename_params, get_decay_struct with chain_decay/cross_combine, the ls cut through C13's lsList, chain and parameter naming, DecayGroup.as_config, and ConfigLoader.add_constraints: add_decay / add_particle (set_prefix_constrains, float, gauss_constr, equal) / fix_var / free_var / var_range / var_equal / gauss_constr on the VarsManager operations they use) with theorems for every card: produced chains are trees from $top through declared decays whose leaves are exactly $finals; the cut keeps a candidate iff every decay has an allowed coupling (C13.ls_mem_iff); alias / include / key-order equivalences; export -> import (export_import: every card that loads without a user ls_list on a produced chain loads again from its export with the same chain set, J/P/C, width presence, p_break/c_break and (l,s) lists; the chain ORDER is refuted by a witness); constraint sets (fix_var / free_var accept only existing names or raise KeyError, var_range / var_equal / gauss_constr do not check names (witness), exactly one reference coupling per decay and exactly the fix_chain_idx chain coupling fixed, fix_var key order irrelevant for the ordered trainable list, free_var order visible (witness)); history independence with the shared memo as explicit state (load_independent_of_history for the memo on the decay object, refuted for the memo keyed by names). The models are compared on every run with ConfigLoader(dict) over a seeded grammar of cards (ordered chains, (l,s) lists, parameter names, export->load, ordered trainable_vars, bound_dic, same_list, gauss_constr_dic, assigned values); the implementation itself is checked for repetition independence (three loads + fresh interpreter), documented equivalences incl. constraint-key spellings and dict key order, export->load, an independent enumeration of the allowed chains, the reference-coupling convention, rejection of unknown fix_var/free_var names, get_fcn().gauss_constr, history independence of the CG factors. Part g (Model/ConfigD, Props/C19g): decay-entry parameters as general dicts and the way they reach the decay object (_list2decay merge, get_decay = {**production_params of the daughters, **decay_params of the mother, **entry}, class selection by `model` with KeyError for an unregistered name BEFORE the cut, split into named arguments and _kwargs / as_config options, params_head, init_params overriding d), theorems for every card: kwargs_precedence, restricted_cut_sound_complete (a candidate chain is kept iff every decay keeps a coupling after ls_list / l_list / p_break / c_break of its EFFECTIVE keywords; ls_iff_coupling ties the restricted list to C13.Allowed), chainsD_are_trees, loaded_models_registered, param_names_determined (the name list is a function of chain order, heads and restricted-list LENGTHS), gls_names_count, names_deterministic(_partial) (resonances listed once, variable-creating decay objects pairwise different), coef_ties_declared_partial (every tie made for coef_head is a declared one: totals of the two chains or position-matched couplings), no_coef_head_no_ties; exact correspondence of chains, (l,s) lists, 17 attributes and the exported option dict of every decay object, the get_params() name list (line-shape suffix table for 15 models) and the vm.same_list partition on 64 + 24 malformed (quick) / 400 + 150 (thorough) cards; statement-level oracle with its own reading of the card (effective keywords, restricted lists, chain set, g_ls counts, duplicate names, undeclared ties, repeat loads). Part h (Model/ConfigE, Props/C19h): the cards part g answered `unsupported` for. Decays of BWR_LS / BWR_LS2 / MultiBW(R) particles (the particle class injects model: LS-decay and, for BWR_LS, same_ratio / same_phase into decay_params; class ParticleDecayLS: real g_ls with same_phase, tied moduli with same_ratio), disable / params_polar / ls_selector, two decay objects with one params_head (Variable overwrite), line-shape variables of Flatte / Flatte2 / FlatteC / FlatteGen / Kmatrix / KMatrixSingleChannel / MultiBW(R) / BWR_LS(2) incl. the dependence on particle.decay[0], coef_head on a particle of several chains and on itself (the loader REWRITES coef_head), constrains.decay.decay_d (number / list / dict as written and as repaired), pre_trans / from_trans, and export -> load of cards with decay-entry parameters. Theorems for every card / every string: names_injective, gls_name_injective, real_name_injective, real_ne_complex, particle_name_injective, decayHead_injective (the rendering <base>_<k><part> determines base, index and part for ARBITRARY bases because the decimal index has no underscore; default heads determine the decay for names without '>' and '.'), coupling_names_nodup (after any sequence of creations of indexed variables, shared heads included, no name is listed twice: discharges names_deterministic_partial for couplings / totals), coef_ties_declared_iff + mem_visitTies + coef_head_rewritten (a pair is tied IFF a visit of the loader's plan declares it in the state the earlier visits left: soundness AND converse), kwargs_precedence_E, ls_particle_injects_model, ls_particle_decay_class, restricted_cut_sound_complete_E, loaded_classes_E, export_drops_named, export_import_opts (after as_config -> load a decay keeps p_break / c_break and has the l_list / ls_list of the PARTICLE level only), export_import_ls_superset, export_import_chain_survives (refuted for a verbatim user ls_list by a kernel-checked witness), decay_d_dict_truncated (the listed finding decay_d:dict:truncated-by-zip as a theorem about the loop as written). Exact correspondence of chains, (l,s) lists, exported options, (l,s) lists after export -> load, get_params() names, vm.same_list partition, 17 attributes + d, vm.pre_trans keys on 27 corpus + 64 generated + 24 malformed (quick) / 420 + 150 (thorough) cards, and of the whole part-g stream through the part-h model with zero unsupported answers.",
    "note": "Proved about the models; models tied to the code by differential comparison on generated cards (60 + 50 constrained quick / 600 + 500 thorough). Validated only (not proved): equality of the constraint-key aliases m_/mass_, g_/width_, m0/mass for every key (kernel-evaluated instances + respelled variants on the implementation), float spellings, key order of var_range / gauss_constr, get_fcn().gauss_constr, other shared state than the CG memo (get_chains_map cache, creators lists), fresh-process equality. Excluded: m_min/m_max or gauss_constr{m} without mass (random by design), 3-body decays, repeated names in a chain, overlapping tie groups in var_equal (set_same merge; for coef_head the tie PARTITION is compared, which covers two followers of one head), decay_d, pre_trans/from_trans, user ls_list for export->import. Part g, validated only: trainable / fixed sets after coef_head (only the partition of tied names is compared), the line-shape suffix table (hand-written mirror of init_params of 15 models, compared on generated cards), the second pass of the loader (decay_struct). The part-g exclusions (LS-decay via BWR_LS particles, ls_selector values without effect, params_polar, disable, shared params_head, Flatte / Kmatrix / MultiBW line shapes, coef_head on a particle of several chains) are modelled by part h. Part h, validated only: cross-KIND name collisions (a scalar particle variable such as X_mass against an indexed one; chain heads are concatenations, so that two different chains with one concatenated head are handled as an overwrite, not excluded), the line-shape suffix tables and the rule for particle.decay[0] (hand-written mirrors, compared on every card), trainable / fixed sets (the self-ties [x, x] that the coef_head rewriting produces make x untrainable: reported in the notes, not compared), values of transformed variables, 3-body entries and repeated names (no Lean model: six cards with the exact expected chains / names / exceptions). Part h excluded (model answers unsupported): ls_selector qr / weight, decay classes other than HelicityDecay / ParticleDecayLS, KMatrixSplitLS / KmatrixSimple. Finding (listed, patch fixes/C19-fix_decay_d_dict.diff): decay_d given as a dict is truncated by zip(decay_d, chain); the model has both loops and follows what the tree does.",
    "technique": "Lean 4 proof (induction over the expansion, pigeonhole on decay paths for the recursion budget, C13 selection-rule lemmas, fold invariants of the VarsManager operations, cache-consistency invariant) + character-list lemmas on Nat.repr for the name rendering, fold characterisation of the coef_head pass + grammar-based differential testing against ConfigLoader + model-independent oracles",
}
