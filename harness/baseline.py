#!/venv/bin/python
"""baseline.py <repo_dir>: run the pinned test-suite command in <repo_dir> and compare with /root/.vp/BASELINE.json (development helper)."""
import json, subprocess, sys, os, tempfile, xml.etree.ElementTree as ET
d = sys.argv[1] if len(sys.argv) > 1 else "/repo"
out = tempfile.mktemp(suffix=".xml")
r = subprocess.run(["/venv/bin/python", "-m", "pytest", "-ra", "-q", "-p", "no:cacheprovider", "--timeout=900", "--continue-on-collection-errors", "--junitxml=" + out], cwd=d, stdout=subprocess.PIPE, stderr=subprocess.STDOUT, text=True)
base = set(json.load(open("/root/.vp/BASELINE.json"))["stable_pass"])
passed = set()
for tc in ET.parse(out).getroot().iter("testcase"):
    if not any(c.tag in ("failure", "error", "skipped") for c in tc):
        passed.add(tc.get("classname") + "::" + tc.get("name"))
os.remove(out)
missing = sorted(base - passed)
print("passed %d, baseline %d, baseline tests not passing: %s" % (len(passed), len(base), missing))
print(r.stdout.strip().splitlines()[-1])
sys.exit(1 if missing else 0)
