"""Certificates for Props/C04.d00_legendre: d^J_00(s,c) - P_J(c^2-s^2) = Q_J(s,c) * (s^2 + c^2 - 1), J = 0..4.
Run with /venv/bin/python; prints the Lean `linear_combination` coefficients."""
import sympy as sp
from math import comb

s, c = sp.symbols("s c")
for J in range(5):
    d = sum((-1) ** k * comb(J, k) ** 2 * c ** (2 * J - 2 * k) * s ** (2 * k) for k in range(J + 1))
    P = sp.legendre(J, c ** 2 - s ** 2)
    q, r = sp.div(sp.expand(d - P), s ** 2 + c ** 2 - 1, s, c)
    assert r == 0
    print(J, sp.expand(d), "|", sp.factor(q) if q != 0 else 0)
    print("   Q =", str(sp.expand(q)).replace("**", "^"))
