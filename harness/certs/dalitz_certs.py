from sympy import *
m12,m23,m0,m1,m2,m3,i0,r,pc = symbols('m12 m23 m0 m1 m2 m3 i0 r pc')
x0=m0**2; x1=m1**2; x2=-m23+x0+x1; x3=i0; x4=x3/2; x5=m3**2; x6=m0**4; x7=m1**4; x8=m23**2; x9=m23*x0; x10=m23*x1; x11=x0*x1
x12=-2*x10+x7+x8; x13=2*m0*m1; x15=m12*m23; x16=m12*x0; x17=x0*x5; x18=x1*x5; x19=m12*x1; x20=m23*x5; x21=m2**2
L = -2*x11+x12+x6-2*x9
G = (-(m12**2)*m23 + m12*x10 + m12*x18 - m12*x8 + m12*x9 - m2**4*x0 - m3**4*x1 - x1*x9 + x10*x5 + x11*x21 + x11*x5 + x15*x21 + x15*x5 + x16*x21 - x16*x5 + x17*x21 + x18*x21 - x19*x21 - x20*x21 - x21*x6 + x21*x9 - x5*x7)
print(expand((-x13+x2)*(x13+x2)-L))
e1=x2*x4; e2=x4*(m12+m23-x1-x5); e3=x4*(-m12+x0+x5)
pa=x3*(x10+x11-x6/2-x7/2-x8/2+x9)*r
pb=r*x4*(-2*x0*x21-x11+x12+x15+x16+x17+x18-x19-x20-x9)
h0 = m0*i0-1; hr = r*r*L-1; hpc = pc*pc - r*r*G
goals = {
 'esum': e1+e2+e3-m0,
 'on1': e1**2-pa**2-m1**2,
 'on2': e2**2-pb**2-pc**2-m2**2,
 'on3': e3**2-(pa+pb)**2-pc**2-m3**2,
 's12': (e1+e2)**2-(pa+pb)**2-pc**2-m12,
 's23': (e2+e3)**2-pa**2-m23,
}
for k,g in goals.items():
    q, rem = reduced(expand(g), [expand(hpc), expand(hr), expand(h0)], pc, r, i0, m12,m23,m0,m1,m2,m3, order='lex')
    print(k, 'rem=',rem)
    print('  cpc=',q[0]); print('  cr=',factor(q[1])); print('  c0=',factor(q[2]))


def lean(e):
    return str(e).replace('**','^')
out=[]
out.append("""import TfPwaV.Gen.DalitzR
import Mathlib.Tactic.LinearCombination
import Mathlib.Tactic.FieldSimp
import Mathlib.Tactic.Positivity
/-! Helper lemmas for the Dalitz clause of C11.  Certificates computed by sympy (`reduced` w.r.t. the three
relations `m0*i0 = 1`, `r²·λ = 1`, `pc² = r²·G`); Lean only checks them.  (Generated once by a sympy script, committed.) -/
namespace TfPwaV.DalitzR
""")
Ls = lean(expand(L)); Gs = lean(expand(G))
out.append("/-- expanded Källén polynomial -/\ndef Lpoly (m23 m0 m1 : ℝ) : ℝ := %s\n" % Ls)
out.append("/-- expanded polynomial under the last root -/\ndef Gpoly (m12 m23 m0 m1 m2 m3 : ℝ) : ℝ := %s\n" % Gs)
out.append("theorem lam_eq (m23 m0 m1 : ℝ) : lam m23 m0 m1 = Lpoly m23 m0 m1 := by unfold lam Lpoly; ring\n")
out.append("theorem gpoly_eq (m12 m23 m0 m1 m2 m3 : ℝ) : gpoly m12 m23 m0 m1 m2 m3 = Gpoly m12 m23 m0 m1 m2 m3 := by unfold gpoly Gpoly; ring\n")
hyp = "(m12 m23 m0 m1 m2 m3 i0 r pc : ℝ)\n    (h0 : m0 * i0 = 1) (hr : r * r * Lpoly m23 m0 m1 = 1)\n    (hpc : pc * pc = r * r * Gpoly m12 m23 m0 m1 m2 m3)"
for k,g in goals.items():
    q, rem = reduced(expand(g), [expand(hpc), expand(hr), expand(h0)], pc, r, i0, m12,m23,m0,m1,m2,m3, order='lex')
    out.append("theorem aux_%s %s :\n    %s = 0 := by\n  unfold Lpoly at hr; unfold Gpoly at hpc\n  linear_combination (%s) * hpc + (%s) * hr + (%s) * h0\n" % (k, hyp, lean(g), lean(q[0]), lean(q[1]), lean(q[2])))
out.append("end TfPwaV.DalitzR\n")
open('/verif/lean/TfPwaV/Proofs/Dalitz.lean','w').write("\n".join(out))
