"""C05 part B — the factorised / cached strategies as algebra.

Lean model `TfPwaV.Factorise` (Model/Factorise.lean): paramsVector (iterated outer product + flatten in the code's
index order), cachedAmp (Σ_k pv_k · ang_k), factorAmp (successive contraction of the leading axis), intMatrix /
cachedInt (Σ_ab p_a conj(p_b) M_ab with M_ab = Σ w x_a conj(x_b)) and the direct forms; theorems in Props/C05c.lean.

Correspondence: the REAL functions
    experimental/build_amp.py   build_params_vector, build_angle_amp_matrix, cached_amp, build_amp2s
    amp/amp.py                  CachedAmpAmplitudeModel.pdf, FactorAmplitudeModel.get_amp_list
    experimental/opt_int.py     build_int_matrix, build_params_vector, build_params_matrix, cached_int_mc
    model/opt_int.py            ModelCachedInt.build_cached_int / get_cached_int
are driven on a stub decay group (`StubGroup`: it only stores integer-valued tensors and hands them out through the
DecayGroup interface these functions use: get_m_dep, get_angle_amp, get_factor_angle_amp, get_amp3, chain iteration,
keep_used_chains / set_used_chains, get_ls_list / set_ls, get_all_factor / product_gls) and compared EXACTLY with the
model over Int (float64) and the Gaussian integers (complex128).

Search (oracle independent of the model): numpy evaluation of the direct multilinear expression
Σ_chains Π_decays (Σ_ls g_ls · part_ls) and of Σ_events w |A|² against the library's cached functions.
"""
import contextlib
import itertools
import random
import types

import common as C

DRIVER_ENTRY = ("C05f", "TfPwaV.Model.Factorise", "Factorise.handle")
LEAN_TARGETS_EXTRA = ["TfPwaV.Props.C05c"]
PROP_MODULES_EXTRA = ["TfPwaV.Props.C05c"]
ALL_MODULES_EXTRA = ["TfPwaV.Model.Factorise", "TfPwaV.Proofs.Factorise", "TfPwaV.Props.C05c"]
ASSUMPTIONS_EXTRA = [
    "factorise: the theorems of Props/C05c.lean are about the list model TfPwaV.Factorise (one event / one flat list of event x helicity slots at a time); TensorFlow's reshape / broadcasting / reduce_sum / stack are taken as their row-major array semantics, validated by exact comparison on integer-valued float64 / complex128 tensors",
    "factorise: the library functions are driven on a stub decay group that only stores tensors and serves them through the DecayGroup interface (get_m_dep, get_angle_amp, get_factor_angle_amp, get_amp3, split_gls hooks); that the real DecayGroup serves tensors with the documented axes (m_dep = [ls-amp per decay ..., total], angle tensor axes = ls axes in decay order then helicities) is covered by the strategy comparison on the config zoo (search_strategies), not by the model",
    "factorise: cached_eq_direct / factor_eq_direct are stated for angular tensors of product form (one term of the helicity sum: ang_k = Π_d part_{d,l_d}, times a helicity vector); for the cached form the sum over inner-helicity configurations is proved too (cached_eq_direct_helicity_sum, by linearity in the angular cache); for factorAmp the additivity in the angular tensor is validated only (the exact correspondence runs it on arbitrary, non-product tensors)",
    "factorise: cached_int_eq_direct has the explicit hypothesis that the cached tensors x_a (amplitude / g_ls product, which contain the line shapes) are the same at the parameters where the matrix was built and where it is used; with floating mass / width the identity fails (counterexample in Props/C05c.lean) - this is the documented restriction of the cached_int model",
]

MANIFEST_EXTRA = {
    "text": "The factorised / cached strategies as algebra (Lean model TfPwaV.Factorise, theorems in Props/C05c.lean, for ANY commutative ring with a conjugation endomorphism and any number of chains, decays, ls terms, events): (4) params_vector_row_major / cached_eq_direct / cached_eq_direct_helicity_sum - build_params_vector's iterated outer product is the row-major product tensor (the order of split_gls), and Σ_chains Σ_k pv_k · ang_k equals the direct multilinear expression Σ_chains Π_decays (Σ_ls g_ls · part_ls), also summed over inner-helicity configurations; (5) factor_eq_direct / factor_total_eq_direct / factor_eq_cached - the successive contraction of the leading axis in FactorAmplitudeModel.get_amp_list never raises on well-shaped input and returns the same product, it declines exactly when the reshape raises; (6) cached_int_eq_direct - Σ_ab p_a conj(p_b) M_ab with M_ab = Σ w x_a conj(x_b) built once at θ0 equals Σ_events w |A(θ)|² GIVEN the cached tensors are the same at θ and θ0 (fixed masses / widths), with a counterexample without that hypothesis; the value is self-conjugate (tf.math.real loses nothing) and the matrix is additive over batches. Tied to the code by exact comparison of build_params_vector, build_angle_amp_matrix, cached_amp, build_amp2s, CachedAmpAmplitudeModel.pdf, FactorAmplitudeModel.get_amp_list / pdf, opt_int.build_int_matrix / build_params_vector / build_params_matrix / cached_int_mc and ModelCachedInt.build_cached_int on stub decay groups with integer-valued float64 / complex128 tensors, plus a model-independent numpy oracle for the direct expressions.",
    "note": "Still validated only for part B: that the real DecayGroup serves tensors with the axes the stub uses (m_dep order, angle tensor axes), sum_with_polarization (the cached_shape variant has its own model: harness/c05_shape.py, Props/C05d.lean), gradients / Hessians of the cached likelihoods, tf.function tracing - all covered by the strategy comparison on the config zoo; additivity of factorAmp in the angular tensor (non-product tensors) by the exact correspondence.",
}

HELS = [(), (1,), (2,), (3,), (2, 2), (3, 2)]
UNITS_Z = [1, -1, 2, -2]
UNITS_G = [1, -1, 2, -2, 1j, -1j, 2j, -2j]


# ------------------------------------------------------------------------------------------------------
# stub decay group
# ------------------------------------------------------------------------------------------------------

class StubDecay:
    def __init__(self, n_ls):
        self.all_ls = tuple(range(n_ls))
        self.cur = list(self.all_ls)

    def get_ls_list(self):
        return tuple(self.cur)

    def set_ls(self, ls):
        self.cur = list(ls)


class StubChain:
    """total, per-decay coefficient vectors g (opt_int) and per-event ls amplitudes m (build_amp)"""

    def __init__(self, decays, total, g, m, tot_ev, ang, x, dtype):
        self.decays, self.total, self.g, self.m, self.tot_ev, self.ang, self.x, self.dtype = decays, total, g, m, tot_ev, ang, x, dtype

    def __iter__(self):
        return iter(self.decays)

    def get_all_factor(self):
        import numpy as np
        import tensorflow as tf
        ret = [tf.constant(np.array([self.total], dtype=self.dtype))]
        for d, g in zip(self.decays, self.g):
            ret.append(tf.constant(np.asarray(g, dtype=self.dtype)[list(d.cur)]))
        return ret

    def product_gls(self):
        import tensorflow as tf
        return tf.reduce_prod(self.get_all_factor())  # as DecayChain.product_gls

    def sel(self):
        return tuple(d.cur for d in self.decays)


class StubGroup:
    def __init__(self, chains):
        self.chains = chains
        self.chains_idx = list(range(len(chains)))
        self.not_full = False

    def __iter__(self):
        return iter(self.chains)

    @contextlib.contextmanager
    def keep_used_chains(self):
        old = list(self.chains_idx)
        try:
            yield
        finally:
            self.chains_idx = old

    def set_used_chains(self, idx):
        self.chains_idx = list(idx)

    def _used(self):
        return [self.chains[i] for i in self.chains_idx]

    @staticmethod
    def _ev(data, arr):
        """rows of the stored tensor for the events of this batch (data["x"] holds the event numbers)"""
        import tensorflow as tf
        return tf.gather(tf.constant(arr), tf.cast(data["x"], tf.int32), axis=0)

    def get_m_dep(self, data):
        import tensorflow as tf
        return [[(tf.constant(m) if m.shape[0] == 1 else self._ev(data, m)) for m in c.m] + [self._ev(data, c.tot_ev)] for c in self._used()]

    def _take(self, c, arr):
        import numpy as np
        out = arr
        for ax, d in enumerate(c.decays):
            out = np.take(out, list(d.cur), axis=ax + 1)
        return out

    def get_angle_amp(self, data):
        """angle amplitude of the (last) used chain for the current ls selection, ls axes summed (one ls each under split_gls)"""
        import tensorflow as tf
        c = self._used()[-1]
        a = self._take(c, c.ang)
        return self._ev(data, a.sum(axis=tuple(range(1, 1 + len(c.decays)))))

    def get_factor_angle_amp(self, data):
        import tensorflow as tf
        return [self._ev(data, c.ang) for c in self._used()]

    def get_amp3(self, data):
        """full amplitude for the used chains and the current ls selection: Σ_c total_c Σ_sel Π_d g_d[l_d] · x_c[:, l_1..l_D, hel]"""
        import numpy as np
        import tensorflow as tf
        tot = None
        for c in self._used():
            x = self._take(c, c.x)
            for ax, (d, g) in enumerate(zip(c.decays, c.g)):
                gv = np.asarray(g, dtype=c.dtype)[list(d.cur)]
                x = np.tensordot(gv, np.moveaxis(x, 1, 0), axes=(0, 0))  # contract the first remaining ls axis
            x = c.total * x
            tot = x if tot is None else tot + x
        return self._ev(data, tot)

    def sum_with_polarization(self, amp):
        return amp  # hands the amplitude tensor itself back (the |.|^2 sum is build_amp2s / the model's amp2s)


def rint(rnd, kind, lo=-3, hi=3):
    if kind == "Z":
        return rnd.randint(lo, hi)
    return complex(rnd.randint(lo, hi), rnd.randint(lo, hi))


def rarr(rnd, kind, shape):
    import numpy as np
    dt = np.float64 if kind == "Z" else np.complex128
    n = 1
    for s in shape:
        n *= s
    return np.array([rint(rnd, kind) for _ in range(n)], dtype=dt).reshape(shape)


def gen_group(rnd, idx, product_form=False):
    import numpy as np
    kind = "G" if idx % 3 else "Z"
    dt = np.float64 if kind == "Z" else np.complex128
    n_ev = rnd.choice([1, 2, 3, 4])
    hel = rnd.choice(HELS)
    n_ch = rnd.choice([1, 1, 2, 3])
    units = UNITS_Z if kind == "Z" else UNITS_G
    chains = []
    for _ in range(n_ch):
        D = rnd.choice([1, 2, 2, 3])
        nls = [rnd.choice([1, 2, 2, 3]) for _ in range(D)]
        decays = [StubDecay(k) for k in nls]
        total = rnd.choice(units)
        g = [[rnd.choice(units) for _ in range(k)] for k in nls]
        m = []
        for j, k in enumerate(nls):
            rows = 1 if (rnd.random() < 0.25 and n_ev > 1) else n_ev  # a factor without event dependence: tile / broadcast branch
            m.append(rarr(rnd, kind, (rows, k)))
        tot_ev = rarr(rnd, kind, (n_ev,))
        if product_form:
            parts = [rarr(rnd, kind, (n_ev, k)) for k in nls]
            hv = rarr(rnd, kind, (n_ev,) + hel)
            ang = hv.reshape((n_ev,) + (1,) * D + hel).astype(dt)
            for j, p in enumerate(parts):
                ang = ang * p.reshape((n_ev,) + tuple(nls[j] if a == j else 1 for a in range(D)) + (1,) * len(hel))
            x = ang.copy()
            c = StubChain(decays, total, g, m, tot_ev, ang, x, dt)
            c.parts, c.hv = parts, hv
        else:
            ang = rarr(rnd, kind, (n_ev,) + tuple(nls) + hel)
            x = rarr(rnd, kind, (n_ev,) + tuple(nls) + hel)
            c = StubChain(decays, total, g, m, tot_ev, ang, x, dt)
        c.nls = nls
        chains.append(c)
    dg = StubGroup(chains)
    dg.kind, dg.n_ev, dg.hel, dg.dt = kind, n_ev, hel, dt
    dg.weight = np.array([rnd.randint(1, 3) for _ in range(n_ev)], dtype=np.float64)
    return dg


# ------------------------------------------------------------------------------------------------------
# encoding
# ------------------------------------------------------------------------------------------------------

def enc_vec(v, kind):
    import numpy as np
    v = np.asarray(v).reshape(-1)
    if v.size == 0:
        return "-"
    if kind == "Z":
        return ",".join(str(int(round(float(np.real(x))))) for x in v)
    return ",".join("%d,%d" % (int(round(float(np.real(x)))), int(round(float(np.imag(x))))) for x in v)


def enc_rows(rows, kind):
    rows = list(rows)
    if not rows:
        return "_"
    return ";".join(enc_vec(r, kind) for r in rows)


def dec_vec(s, kind):
    import numpy as np
    if s == "-":
        return np.zeros((0,), dtype=np.float64 if kind == "Z" else np.complex128)
    v = [int(t) for t in s.split(",")]
    if kind == "Z":
        return np.array(v, dtype=np.float64)
    return np.array([complex(v[i], v[i + 1]) for i in range(0, len(v), 2)], dtype=np.complex128)


def dec_rows(s, kind):
    if s == "_":
        return []
    return [dec_vec(r, kind) for r in s.split(";")]


def is_integral(a):
    import numpy as np
    a = np.asarray(a)
    return bool(np.all(np.isfinite(np.real(a))) and np.all(np.real(a) == np.round(np.real(a))) and np.all(np.imag(a) == np.round(np.imag(a))))


def same(a, b):
    import numpy as np
    a, b = np.asarray(a), np.asarray(b)
    return a.reshape(-1).shape == b.reshape(-1).shape and bool(np.all(a.reshape(-1) == b.reshape(-1)))


def prodn(l):
    r = 1
    for i in l:
        r *= i
    return r


# ------------------------------------------------------------------------------------------------------
# the real functions on one stub group
# ------------------------------------------------------------------------------------------------------

def run_impl(dg, traced):
    """Everything the library computes for one stub group; `traced`: go through the tf.function wrappers, else call their
    Python bodies eagerly (same code, no graph tracing cost)."""
    import numpy as np
    import tensorflow as tf
    from tf_pwa.amp.amp import CachedAmpAmplitudeModel, FactorAmplitudeModel
    from tf_pwa.experimental import build_amp, opt_int
    from tf_pwa.model.opt_int import ModelCachedInt

    def call(f, *a):
        return f(*a) if traced else f.python_function(*a)

    data = {"x": tf.constant(np.arange(dg.n_ev, dtype=np.float64)), "weight": tf.constant(dg.weight)}
    out = {}
    out["pv"] = [np.asarray(t) for t in build_amp.build_params_vector(dg, data)]
    idx, c_amp = build_amp.build_angle_amp_matrix(dg, data)
    out["c_amp"] = [[np.asarray(t) for t in ch] for ch in c_amp]
    out["cached_amp"] = np.asarray(call(build_amp.cached_amp(dg, data)))
    out["amp2s"] = np.asarray(call(build_amp.build_amp2s(dg), data, c_amp))
    ns = types.SimpleNamespace(decay_group=dg)
    ns.get_amp_list = lambda d: FactorAmplitudeModel.get_amp_list(ns, d)
    out["pdf_cached_amp"] = np.asarray(CachedAmpAmplitudeModel.pdf(ns, {**data, "cached_amp": c_amp}))
    out["amp_list"] = [np.asarray(t) for t in FactorAmplitudeModel.get_amp_list(ns, data)]
    out["amp_list_cached_angle"] = [np.asarray(t) for t in FactorAmplitudeModel.get_amp_list(ns, {**data, "cached_angle": dg.get_factor_angle_amp(data)})]
    out["pdf_factor"] = np.asarray(FactorAmplitudeModel.pdf(ns, data))
    data_nw = {"x": data["x"]}  # no "weight" entry: the explicit weight argument must be the one that is used
    index, M = opt_int.build_int_matrix(dg, data_nw, tf.constant(dg.weight))
    out["int_index"] = [(dg.chains.index(c), j) for c, j in index]
    out["int_matrix"] = np.array([[np.asarray(v) for v in row] for row in M])
    out["params_cat"] = np.asarray(opt_int.build_params_vector(dg))
    out["params_matrix"] = np.asarray(opt_int.build_params_matrix(dg))
    out["int_mc"] = float(np.asarray(call(opt_int.cached_int_mc(dg, data, batch=2))))  # weight from data["weight"], two events per batch
    ns2 = types.SimpleNamespace(Amp=types.SimpleNamespace(decay_group=dg), cached_int={})
    ModelCachedInt.build_cached_int(ns2, data_nw, tf.constant(dg.weight), batch=3)
    f = ns2.cached_int[id(data_nw)]
    out["int_mc_model"] = float(np.asarray(call(f)))
    out["restored"] = (dg.chains_idx == list(range(len(dg.chains)))) and all(list(d.cur) == list(d.all_ls) for c in dg.chains for d in c.decays)
    return out


def model_lines_stage1(dg):
    """pv per chain, famp per event, pcat, imat — everything that needs no earlier model answer"""
    k = dg.kind
    H = prodn(dg.hel)
    lines = []
    for c in dg.chains:
        fs = [enc_rows(m, k) for m in c.m] + [enc_rows(c.tot_ev.reshape(-1, 1), k)]
        lines.append("C05f pv %s %d %s" % (k, dg.n_ev, " ".join(fs)))
    for e in range(dg.n_ev):
        parts = []
        for c in dg.chains:
            fs = [m[0 if m.shape[0] == 1 else e] for m in c.m] + [c.tot_ev[e:e + 1]]
            parts.append("%s %s" % (enc_rows(fs, k), enc_vec(c.ang[e], k)))
        lines.append("C05f famp %s %d %s" % (k, H, " ".join(parts)))
    lines.append("C05f pcat %s %s" % (k, " ".join(enc_rows([[c.total]] + [g for g in c.g], k) for c in dg.chains)))
    xs = []
    for c in dg.chains:
        K = prodn(c.nls)
        xk = c.x.reshape(dg.n_ev, K, H)
        for j in range(K):
            xs.append(xk[:, j, :])
    lines.append("C05f imat %s %d %s %s" % (k, H, enc_vec(dg.weight, k), enc_rows(xs, k)))
    return lines, xs


def stage1_compare(dg, impl, tag, a1, dis):
    """answers of the stage-1 lines against the library; returns (comparisons, stage-2 lines, context for stage 2)"""
    import numpy as np
    k = dg.kind
    H = prodn(dg.hel)
    n_cmp = 0
    pos = 0
    pv_rows = []
    for ci, c in enumerate(dg.chains):
        a = a1[pos]
        pos += 1
        if not a.startswith("ok "):
            dis.append(("build_params_vector", tag, "model: %s" % a, "impl shape %s" % (impl["pv"][ci].shape,)))
            pv_rows.append(None)
            continue
        rows = dec_rows(a[3:], k)
        pv_rows.append(a[3:].split(";"))
        n_cmp += 1
        if not same(np.array(rows), impl["pv"][ci]):
            dis.append(("build_params_vector", tag, "model %s" % np.array(rows).tolist(), "impl %s" % impl["pv"][ci].tolist()))
    for e in range(dg.n_ev):
        a = a1[pos]
        pos += 1
        n_cmp += 1
        want = sum(t[e].reshape(-1) for t in impl["amp_list"])
        want2 = sum(t[e].reshape(-1) for t in impl["amp_list_cached_angle"])
        if not a.startswith("ok ") or not same(dec_vec(a[3:], k), want) or not same(want, want2):
            dis.append(("FactorAmplitudeModel.get_amp_list", tag, "model %s" % a, "impl %s / cached_angle %s" % (want.tolist(), want2.tolist())))
        # FactorAmplitudeModel.pdf goes through sum_with_polarization (stub: identity): the summed amplitude itself
        if not same(impl["pdf_factor"][e].reshape(-1), want):
            dis.append(("FactorAmplitudeModel.pdf", tag, "sum of get_amp_list %s" % want.tolist(), "pdf %s" % impl["pdf_factor"][e].tolist()))
    a_pcat = a1[pos]
    pos += 1
    n_cmp += 1
    if not a_pcat.startswith("ok ") or not same(dec_vec(a_pcat[3:], k), impl["params_cat"]):
        dis.append(("opt_int.build_params_vector", tag, "model %s" % a_pcat, "impl %s" % impl["params_cat"].tolist()))
    a_imat = a1[pos]
    pos += 1
    n_cmp += 1
    okM = a_imat.startswith("ok ")
    if not okM or not same(np.array(dec_rows(a_imat[3:], k)), impl["int_matrix"]) or not is_integral(impl["int_matrix"]):
        dis.append(("opt_int.build_int_matrix", tag, "model %s" % a_imat[:600], "impl %s" % impl["int_matrix"].tolist()))
    want_index = [(ci, j) for ci, c in enumerate(dg.chains) for j in range(prodn(c.nls))]
    if impl["int_index"] != want_index:
        dis.append(("opt_int.build_int_matrix index", tag, "expected %s" % want_index, "impl %s" % impl["int_index"]))
    pm = impl["params_matrix"]
    pc = impl["params_cat"]
    if not same(pm, pc[:, None] * np.conj(pc)[None, :]):
        dis.append(("opt_int.build_params_matrix", tag, "p_a conj(p_b)", "impl %s" % pm.tolist()))
    if not impl["restored"]:
        dis.append(("chain / ls selection restored", tag, "", ""))
    # stage 2: cachedAmp with the model's own params vector, cachedInt with the model's own vector and matrix
    l2 = []
    camp_ok = all(r is not None for r in pv_rows)
    if camp_ok:
        for e in range(dg.n_ev):
            parts = []
            for ci, c in enumerate(dg.chains):
                K = prodn(c.nls)
                parts.append("%s %s" % (pv_rows[ci][e], enc_rows(c.ang[e].reshape(K, H), k)))
            l2.append("C05f camp %s %d %s" % (k, H, " ".join(parts)))
    int_ok = a_pcat.startswith("ok ") and okM
    if int_ok:
        xs = model_lines_stage1(dg)[1]
        l2.append("C05f cint %s %s %s" % (k, a_pcat[3:], a_imat[3:]))
        l2.append("C05f dint %s %d %s %s %s" % (k, H, enc_vec(dg.weight, k), a_pcat[3:], enc_rows(xs, k)))
    return n_cmp, l2, (camp_ok, int_ok)


def stage2_compare(dg, impl, tag, a2, st, dis):
    import numpy as np
    k = dg.kind
    camp_ok, int_ok = st
    n_cmp = 0
    pos = 0
    if camp_ok:
        for e in range(dg.n_ev):
            a = a2[pos]
            pos += 1
            n_cmp += 1
            toks = a.split(" ")
            if toks[0] != "ok":
                dis.append(("cached_amp", tag, "model %s" % a, ""))
                continue
            A = dec_vec(toks[1], k)
            A2 = dec_vec(toks[2], k)
            for name in ("cached_amp", "pdf_cached_amp"):
                if not same(A, impl[name][e]):
                    dis.append((name, tag, "model %s" % A.tolist(), "impl %s" % impl[name][e].tolist()))
            if np.imag(A2[0]) != 0 or float(np.real(A2[0])) != float(impl["amp2s"][e]):
                dis.append(("build_amp2s", tag, "model %s" % A2.tolist(), "impl %r" % float(impl["amp2s"][e])))
    if int_ok:
        ci_, di_ = a2[pos], a2[pos + 1]
        n_cmp += 2
        vc = dec_vec(ci_[3:], k)[0] if ci_.startswith("ok ") else None
        vd = dec_vec(di_[3:], k)[0] if di_.startswith("ok ") else None
        if vc is None or vd is None or vc != vd or np.imag(vc) != 0:
            dis.append(("model cachedInt vs directInt", tag, ci_, di_))
        else:
            for name in ("int_mc", "int_mc_model"):
                if float(np.real(vc)) != impl[name]:
                    dis.append(({"int_mc": "opt_int.cached_int_mc", "int_mc_model": "ModelCachedInt.build_cached_int"}[name], tag, "model %s" % ci_, "impl %r" % impl[name]))
    return n_cmp


_CACHE = {}


def factor_cases(ctx):
    """stub groups + what the library computes on them (shared by correspond_factor and search_factor)"""
    key = (ctx.seed, ctx.tier)
    if key not in _CACHE:
        rnd = random.Random(ctx.seed * 7919 + 50505)
        n = 14 if ctx.quick else 80
        n_traced = 2 if ctx.quick else 10
        cases = []
        for i in range(n):
            dg = gen_group(rnd, i, product_form=False)
            cases.append((dg, run_impl(dg, traced=i < n_traced), "random#%d" % i))
        m = 8 if ctx.quick else 40
        for i in range(m):
            dg = gen_group(rnd, i, product_form=True)
            cases.append((dg, run_impl(dg, traced=False), "product#%d" % i))
        _CACHE[key] = cases
    return _CACHE[key]


def describe(dg):
    return {"kind": dg.kind, "n_ev": dg.n_ev, "hel": list(dg.hel), "chains": [list(c.nls) for c in dg.chains]}


def correspond_factor(ctx, res):
    cases = factor_cases(ctx)
    dis = []
    n_cmp = 0
    sizes = set()
    tags = [tag + " " + str(describe(dg)) for dg, impl, tag in cases]
    # two driver calls in total: the second uses answers of the first verbatim (params vector -> cachedAmp, vector + matrix -> cachedInt)
    l1, spans = [], []
    for dg, impl, tag in cases:
        ls = model_lines_stage1(dg)[0]
        spans.append((len(l1), len(l1) + len(ls)))
        l1 += ls
    a1 = ctx.model.query(l1)
    l2, spans2, states = [], [], []
    for (dg, impl, tag), t, (lo, hi) in zip(cases, tags, spans):
        n, ls, st = stage1_compare(dg, impl, t, a1[lo:hi], dis)
        n_cmp += n
        spans2.append((len(l2), len(l2) + len(ls)))
        states.append(st)
        l2 += ls
    a2 = ctx.model.query(l2)
    for (dg, impl, tag), t, (lo, hi), st in zip(cases, tags, spans2, states):
        n_cmp += stage2_compare(dg, impl, t, a2[lo:hi], st, dis)
        sizes.add((dg.kind, dg.n_ev, dg.hel, tuple(tuple(c.nls) for c in dg.chains), tuple(tuple(m.shape[0] for m in c.m) for c in dg.chains)))
    res.coverage.update({
        "factor_cases": len(cases),
        "factor_comparisons": n_cmp,
        "factor_distinct_sizes": len(sizes),
        "factor_disagreements": len(dis),
        "factor_rule": "stub decay groups with 1-3 chains, 1-3 decays per chain, 1-3 ls terms per decay, helicity shapes (), (1,), (2,), (3,), (2,2), (3,2), 1-4 events, event-independent factors (tile / broadcast branch), integer-valued float64 and complex128 data; every function listed in harness/c05_factor.py compared exactly with the Lean model (Int / Gaussian integers); first cases through the tf.function wrappers, the rest through their Python bodies",
    })
    if cases:
        res.samples.append({"factorise": describe(cases[0][0])})
    for d in dis[1:6]:
        C.log("[C05] factorise disagreement: %s | %s | %s | %s" % (d[0], d[1], str(d[2])[:300], str(d[3])[:300]))
    if dis:
        d = dis[0]
        res.broke("correspondence factorise %s" % d[0], {"case": d[1], "model": str(d[2])[:800], "impl": str(d[3])[:800], "n": len(dis), "all_sites": sorted({x[0] for x in dis})})


# ------------------------------------------------------------------------------------------------------
# search: the library's cached functions against numpy's direct multilinear expression (no model involved)
# ------------------------------------------------------------------------------------------------------

def direct_amp(dg, use):
    """Σ_chains total Π_decays (Σ_ls g_ls part_ls) · helicity vector, per event; `use` = 'm' (per-event ls amplitudes of
    build_amp) or 'g' (constant coefficients of opt_int)"""
    import numpy as np
    H = prodn(dg.hel)
    A = np.zeros((dg.n_ev, H), dtype=np.complex128)
    for c in dg.chains:
        for e in range(dg.n_ev):
            f = c.tot_ev[e] if use == "m" else c.total
            for d, p in enumerate(c.parts):
                coef = (c.m[d][0 if c.m[d].shape[0] == 1 else e]) if use == "m" else np.asarray(c.g[d])
                f = f * sum(coef[l] * p[e, l] for l in range(c.nls[d]))
            A[e] += f * c.hv[e].reshape(-1)
    return A


def search_factor(ctx, res):
    import numpy as np
    cases = [c for c in factor_cases(ctx) if c[2].startswith("product#")]
    n = 0
    seen = set()

    def bad(site, tag, dg, got, want):
        if site in seen:
            return
        seen.add(site)
        res.fail("factorise:%s" % site, "%s differs from the direct multilinear expression on %s: library %s, direct %s" % (site, describe(dg), str(np.asarray(got).tolist())[:300], str(np.asarray(want).tolist())[:300]),
                 {"kind": "factor", "seed": ctx.seed, "tier": ctx.tier, "case": tag, "site": site})

    def close(a, b):
        a, b = np.asarray(a, dtype=np.complex128).reshape(-1), np.asarray(b, dtype=np.complex128).reshape(-1)
        return a.shape == b.shape and bool(np.all(np.abs(a - b) <= 1e-12 * (1 + np.abs(b))))

    for dg, impl, tag in cases:
        A = direct_amp(dg, "m")
        n += 1
        for site in ("cached_amp", "pdf_cached_amp"):
            if not close(impl[site].reshape(dg.n_ev, -1), A):
                bad(site, tag, dg, impl[site], A)
        if not close(impl["amp2s"], np.sum(np.abs(A) ** 2, axis=1)):
            bad("build_amp2s", tag, dg, impl["amp2s"], np.sum(np.abs(A) ** 2, axis=1))
        fa = sum(t.reshape(dg.n_ev, -1) for t in impl["amp_list"])
        if not close(fa, A):
            bad("get_amp_list", tag, dg, fa, A)
        G = direct_amp(dg, "g")
        want = float(np.sum(dg.weight[:, None] * np.abs(G) ** 2))
        for site in ("int_mc", "int_mc_model"):
            if not close(impl[site], want):
                bad({"int_mc": "cached_int_mc", "int_mc_model": "ModelCachedInt.build_cached_int"}[site], tag, dg, impl[site], want)
    res.coverage.update({"factor_search_cases": n, "factor_search_rule": "product-form stub groups: library cached_amp / CachedAmpAmplitudeModel.pdf / build_amp2s / FactorAmplitudeModel.get_amp_list / cached_int_mc / ModelCachedInt.build_cached_int against numpy loops for Σ_chains Π_decays (Σ_ls g_ls part_ls) and Σ_events w |A|² (1e-12 relative; integer data, so exact in practice)"})


def replay_factor(ctx, r, key=None):
    """re-runs the factorise search with the recorded seed / tier; 1 = the recorded site still fails"""
    ctx.seed = int(r.get("seed", ctx.seed))
    if r.get("tier") in ("quick", "thorough"):
        ctx.tier, ctx.quick = r["tier"], r["tier"] == "quick"
    res = C.Result()
    search_factor(ctx, res)
    site = "factorise:%s" % r.get("site") if r.get("site") else key
    same = [f for f in res.failures if f.key == site]
    for f in same[:3]:
        print("still failing:", f.what)
    print("REPLAY: property C05 key %s %s" % (site, "still violated" if same else "not reproduced on this tree"))
    return 1 if same else 0
