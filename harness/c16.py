"""C16 — parameter constraints survive every sequence of updates (tf_pwa.variable.VarsManager / Variable / Bound)."""
import contextlib
import math
import random

import common as C

PID = "C16"
DRIVER = [("C16", "TfPwaV.Model.VarsF", "VarsF.handle"),
          ("C16S", "TfPwaV.Model.VarsSepF", "VarsSepF.handle"),
          ("C16E", "TfPwaV.Model.BExprH", "BExprH.handle")]
LEAN_TARGETS = ["TfPwaV.Props.C16", "TfPwaV.Props.C16b", "TfPwaV.Props.C16c", "TfPwaV.Model.VarsF", "TfPwaV.Model.VarsSepF",
                "TfPwaV.Gen.BExprF", "TfPwaV.Model.BExprH"]
PROP_MODULES = ["TfPwaV.Props.C16", "TfPwaV.Props.C16b", "TfPwaV.Props.C16c"]
ALL_MODULES = ["TfPwaV.Model.Vars", "TfPwaV.Model.VarsF", "TfPwaV.Model.VarsSep", "TfPwaV.Model.VarsSepF", "TfPwaV.Model.BExprH",
               "TfPwaV.Proofs.Vars", "TfPwaV.Proofs.VarsFixed", "TfPwaV.Proofs.VarsTied", "TfPwaV.Proofs.PolarBound",
               "TfPwaV.Proofs.BExpr", "TfPwaV.Props.C16", "TfPwaV.Props.C16b", "TfPwaV.Props.C16c"]
ASSUMPTIONS = [
    "histories follow the order a configuration applies operations (create; fix/free; tie; bound; then arbitrary interleavings) — `Vars.WellPhased`; set_fix(unfix=True) after a tie is outside the quantifier",
    "inv_reachable_patched (the tree after 647ec00) needs `WellNamed`: every tie call lists existing parameters of the right kind (real ties: bound names; cplx ties / set_share_r: complex parameters) and no name is both a real variable and the base c of a complex one (c and c+'r' both bound). Without it the statement is false for the model AND the code (theorem well_named_needed: add_real_var('a'), add_complex_var('a'), ... leaves two free names on one object). All generated histories satisfy WellNamed (counted in coverage.histories_outside_WellNamed)",
    "tied_stays_tied_partial (every same_list group stays bound to one object) needs in addition `WellSeparated`: a complex parameter is tied either as a whole (set_same(cplx=True) / Variable.sameas) or through its parts (set_same of real names, set_share_r), not both. Outside it the statement is false for the model AND the code (theorem tied_stays_tied_refuted_outside, finding set_same:whole-and-part:tie-broken); 'counted once' (counted_once_every_named_history) does not need it. 1/6 of the correspondence histories and 1/5 of the search histories ('mixed' mode) are outside WellSeparated (coverage.histories_outside_WellSeparated); tieOK / sepOK are evaluated by the Lean definitions on the model (C16S hyp) and cross-checked against their Python renderings on the real object",
    "parameters tied as a whole are in the same coordinate system when tied (the generators respect this; the code does not check it)",
    "custom Bound expressions: the grammar x, numbers, a, b, + - * /, ** integer, exp log sin cos tanh sqrt (own recursive-descent parser, a/b replaced by the numbers get_func substitutes); diff_is_deriv is about the textbook rules on this AST over the reals with explicit side conditions (denominators != 0, log/sqrt arguments > 0); that sympy's diff(f, x) computes the same function is validated on grids (1e-12), not proved; the inverse (sympy.solve) of a custom expression is validated by x2y(y2x(y)) = y only",
    "pre_trans is empty, complex_vars values are booleans (never lists), no rename_var/remove_var/combineVM in a history, built-in Bound expressions only inside histories (custom expressions: grid check only)",
    "the random source of add_*_var / refresh_vars is an explicit input (tf.random.uniform / tf.random.normal / numpy.random.chisquare are replaced by seeded streams in the harness process); the rejection loop of refresh_vars for (mu, sigma) inside a bound is assumed to accept the first draw; a Bound(None, None) entry in refresh_vars (`break` in hash order) is excluded",
    "refresh_vars iterates Python sets of names: the model iterates in dict order, which is equivalent when no two trainable names share a variable object (theorem inv_reachable)",
    "TensorFlow's eager cache of Python scalars does not keep the sign of a zero (assign(0.0) may store -0.0): +0.0 and -0.0 are treated as equal everywhere",
    "IEEE double: values moved by assignments are compared bit-exactly; after the first op of a history that can evaluate cos/sin/sqrt/atan2/asin (TensorFlow, sympy evalf vs Lean Float/libm) values are compared to 1e-12 relative, outputs of Bound.get_y2x to 2e-6 absolute (asin/sqrt conditioning at the end points)",
]

TRANSC = {"rp2xy", "xy2rp", "rp2xyall", "xy2rpall", "std", "stdall", "stdc", "trans", "share", "vshare", "vratio"}
COORD = {"rp2xy", "xy2rp", "rp2xyall", "xy2rpall", "std", "stdall", "stdc", "trans"}


# ----------------------------------------------------------------------------------------------
# random source of the implementation -> explicit inputs
# ----------------------------------------------------------------------------------------------

class Hook:
    def __init__(self):
        self.mode = "fresh"
        self.rnd = random.Random(0)
        self.u = 0.5
        self.z = 0.0
        self.chi = 1.0
        self.log = []

    def uniform(self, minval, maxval):
        u = self.rnd.random() if self.mode == "fresh" else self.u
        v = float(minval) + (float(maxval) - float(minval)) * u
        self.log.append(v)
        return v

    def normal(self, mean, stddev):
        v = float(mean) + float(stddev) * self.z
        self.log.append(v)
        return v


@contextlib.contextmanager
def patched_random(hook):
    import numpy as np
    import tensorflow as tf
    o_u, o_n, o_c = tf.random.uniform, tf.random.normal, np.random.chisquare

    def uniform(shape=(), minval=0, maxval=None, dtype=None, **kw):
        return tf.constant(hook.uniform(minval, 1.0 if maxval is None else maxval), dtype=dtype or tf.float64)

    def normal(shape=(), mean=0.0, stddev=1.0, dtype=None, **kw):
        return tf.constant(hook.normal(mean, stddev), dtype=dtype or tf.float64)

    def chisquare(df=1, size=None):
        return hook.chi

    tf.random.uniform, tf.random.normal, np.random.chisquare = uniform, normal, chisquare
    try:
        yield
    finally:
        tf.random.uniform, tf.random.normal, np.random.chisquare = o_u, o_n, o_c


# ----------------------------------------------------------------------------------------------
# executing one history op on the real object; translation to model ops
# ----------------------------------------------------------------------------------------------

def opt_f(x):
    return "N" if x is None else C.f2h(x)


def b01(x):
    return "1" if x else "0"


def shape_names(name, shape):
    if not shape:
        return [name]
    out = []
    for i in range(shape[0]):
        out += shape_names(name + "_" + str(i), shape[1:])
    return out


class Real:
    """a real VarsManager plus the bookkeeping needed to drive it from a history"""

    def __init__(self, polar0, hook):
        from tf_pwa.variable import VarsManager
        self.vm = VarsManager(dtype="float64")
        self.vm.polar = polar0
        self.hook = hook
        self.masks = []
        self.vars = {}

    def apply(self, op):
        """returns (out, model_ops); out is None when the call has no observable result"""
        from tf_pwa.variable import Variable
        vm, k, hook = self.vm, op["k"], self.hook
        hook.log = []
        hook.mode = "fresh"
        out = ("none",)
        toks = None
        try:
            if k == "ar":
                vm.add_real_var(op["name"], op["value"], op["range"], op["tr"])
                v = op["value"] if op["value"] is not None else hook.log[0]
                toks = [["ar", op["name"], C.f2h(v), b01(op["value"] is not None), b01(op["tr"])]]
            elif k == "ac":
                vm.add_complex_var(op["name"], op["polar"], op["tr"], tuple(op["fix_vals"]))
                v1, v2 = (hook.log[0], hook.log[1]) if op["tr"] else op["fix_vals"]
                toks = [["ac", op["name"], "N" if op["polar"] is None else b01(op["polar"]), b01(op["tr"]), C.f2h(v1), C.f2h(v2)]]
            elif k == "var":
                kw = dict(op["kw"])
                if "fix_vals" in kw:
                    kw["fix_vals"] = tuple(kw["fix_vals"])
                self.vars[op["name"]] = Variable(op["name"], shape=list(op["shape"]), cplx=op["cplx"], vm=vm, **kw)
                toks = []
                tr = not kw.get("fix", False)
                log = list(hook.log)
                for n in shape_names(op["name"], op["shape"]):
                    if op["cplx"]:
                        fv = kw.get("fix_vals", (1.0, 0.0))
                        v1, v2 = (log.pop(0), log.pop(0)) if tr else fv
                        pol = kw.get("polar")
                        toks.append(["ac", n, "N" if pol is None else b01(pol), b01(tr), C.f2h(v1), C.f2h(v2)])
                    else:
                        val = kw.get("value")
                        v = val if val is not None else log.pop(0)
                        toks.append(["ar", n, C.f2h(v), b01(val is not None), b01(tr)])
            elif k == "fix":
                toks = [["fix", op["name"], opt_f(op["value"]), b01(op["unfix"])]]
                vm.set_fix(op["name"], op["value"], op["unfix"])
            elif k == "vfixed":
                V = self.vars[op["var"]]
                if V.cplx:
                    z = complex(*op["value"]) if op["value"] is not None else None
                    toks = [["fix", V.name + "r", opt_f(None if z is None else z.real), "0"],
                            ["fix", V.name + "i", opt_f(None if z is None else z.imag), "0"]]
                else:
                    toks = [["fix", V.name, opt_f(op["value"]), "0"]]
                V.fixed(complex(*op["value"]) if (V.cplx and op["value"] is not None) else op["value"])
            elif k == "vfreed":
                V = self.vars[op["var"]]
                toks = [["fix", V.name + s, "N", "1"] for s in (("r", "i") if V.cplx else ("",))]
                V.freed()
            elif k == "same":
                lst = list(op["names"])
                toks = [["same", b01(op["cplx"]), str(len(lst))] + lst]
                vm.set_same(lst, op["cplx"])
                out = ("names", lst)
            elif k == "vsameas":
                A, B = self.vars[op["a"]], self.vars[op["b"]]
                toks = [["same", b01(A.cplx), "2", x, y] for x, y in zip(shape_names(A.name, A.shape), shape_names(B.name, B.shape))]
                A.sameas(B)
                out = None
            elif k == "share":
                toks = [["share", str(len(op["names"]))] + list(op["names"])]
                vm.set_share_r(list(op["names"]))
                out = None
            elif k == "vshare":
                A, B = self.vars[op["a"]], self.vars[op["b"]]
                toks = [["share", "2", x, y] for x, y in zip(shape_names(A.name, A.shape), shape_names(B.name, B.shape))]
                A.r_shareto(B)
                out = None
            elif k == "vratio":
                A = self.vars[op["a"]]
                ns = shape_names(A.name, A.shape)
                toks = [["share", str(len(ns))] + ns]
                A.set_same_ratio()
                out = None
            elif k == "bound":
                toks = [["bound", str(len(op["b"]))] + [t for n, (lo, hi) in op["b"].items() for t in (n, opt_f(lo), opt_f(hi))]]
                vm.set_bound({n: tuple(v) for n, v in op["b"].items()})
            elif k == "rmb":
                toks = [["rmb"]]
                out = ("names", list(vm.remove_bound()))
            elif k == "set":
                toks = [["set", op["name"], C.f2h(op["v"]), b01(op["vif"])]]
                vm.set(op["name"], op["v"], val_in_fit=op["vif"])
            elif k == "sad":
                toks = [["sad", b01(op["vif"]), str(len(op["d"]))] + [t for n, v in op["d"].items() for t in (n, C.f2h(v))]]
                vm.set_all(dict(op["d"]), val_in_fit=op["vif"])
            elif k == "sal":
                toks = [["sal", b01(op["vif"]), str(len(op["l"]))] + [C.f2h(v) for v in op["l"]]]
                vm.set_all(list(op["l"]), val_in_fit=op["vif"])
            elif k == "get":
                toks = [["get", op["name"], b01(op["vif"])]]
                out = ("val", float(vm.get(op["name"], op["vif"])))
            elif k == "gad":
                toks = [["gad", b01(op["tonly"])]]
                out = ("dict", [(n, float(v)) for n, v in vm.get_all_dic(op["tonly"]).items()])
            elif k == "gav":
                toks = [["gav", b01(op["vif"])]]
                out = ("vals", [float(v) for v in vm.get_all_val(op["vif"])])
            elif k == "refresh":
                hook.mode = "const"
                hook.u, hook.z, hook.chi = op["u"], op["z"], op["chi"]
                u = op["u"]
                vxy = float(-1) + (float(1) - float(-1)) * u
                vr = float(0) + (float(2) - float(0)) * u
                vp = float(-math.pi) + (float(math.pi) - float(-math.pi)) * u
                t = ["refresh"] + [C.f2h(x) for x in (vxy, vr, vp, u, op["chi"], op["z"])]
                if op["init"] is None:
                    t.append("N")
                else:
                    t += ["I", str(len(op["init"]))]
                    for n, sp in op["init"].items():
                        if sp is None:
                            t += [n, "n", "0", "0"]
                        elif isinstance(sp, list):
                            t += [n, "g", C.f2h(sp[0]), C.f2h(sp[1])]
                        else:
                            t += [n, "s", C.f2h(sp), "0"]
                if op["bound"] is None:
                    t.append("N")
                else:
                    t += ["B", str(len(op["bound"]))] + [x for n, (lo, hi) in op["bound"].items() for x in (n, opt_f(lo), opt_f(hi))]
                toks = [t]
                kw = {}
                if op["init"] is not None:
                    kw["init_val"] = dict(op["init"])
                if op["bound"] is not None:
                    kw["bound_dic"] = {n: tuple(v) for n, v in op["bound"].items()}
                vm.refresh_vars(**kw)
            elif k in ("rp2xy", "xy2rp", "std"):
                toks = [[k, op["name"]]]
                {"rp2xy": vm.rp2xy, "xy2rp": vm.xy2rp, "std": vm.std_polar}[k](op["name"])
            elif k in ("rp2xyall", "xy2rpall", "stdall", "stdc"):
                toks = [[k]]
                {"rp2xyall": vm.rp2xy_all, "xy2rpall": vm.xy2rp_all, "stdall": vm.std_polar_all, "stdc": vm.standard_complex}[k]()
            elif k == "trans":
                toks = [["trans", b01(op["polar"])]]
                vm.trans_params(op["polar"])
            elif k == "stv":
                toks = [["stv", str(len(op["l"]))] + [C.f2h(v) for v in op["l"]]]
                vm.set_trans_var(list(op["l"]))
            elif k == "maskin":
                toks = [["maskin", str(len(op["d"]))] + [t for n, v in op["d"].items() for t in (n, C.f2h(v))]]
                cm = vm.mask_params(dict(op["d"]))
                cm.__enter__()
                self.masks.append(cm)
            elif k == "maskout":
                toks = [["maskout"]]
                if not self.masks:
                    raise KeyError("no mask")
                cm = self.masks.pop()
                try:
                    cm.__exit__(None, None, None)
                except StopIteration:
                    pass
            else:
                raise ValueError("unknown op " + k)
        except ValueError:
            raise
        except Exception:
            out = ("raise",)
        return out, toks

    def dump(self):
        vm = self.vm
        names = list(vm.variables)
        ids, part = [], []
        for n in names:
            i = id(vm.variables[n])
            if i not in ids:
                ids.append(i)
            part.append(ids.index(i))
        return {
            "trainable": list(vm.trainable_vars),
            "names": names,
            "part": part,
            "vals": [float(vm.variables[n].numpy()) for n in names],
            "flags": [bool(vm.variables[n].trainable) for n in names],
            "cplx": [(n, bool(v)) for n, v in vm.complex_vars.items()],
            "same": [list(g) for g in vm.same_list],
            "bnd": list(vm.bnd_dic),
            "init": list(vm.init_val),
            "polar": bool(vm.polar),
        }


def parse_dump(s):
    f = s.split("|")
    sp = lambda x: x.split(",") if x else []
    out = f[10]
    if out == "-":
        o = ("none",)
    elif out == "raise":
        o = ("raise",)
    elif out.startswith("v:"):
        o = ("val", C.h2f(out[2:]))
    elif out.startswith("l:"):
        o = ("vals", [C.h2f(x) for x in sp(out[2:])])
    elif out.startswith("d:"):
        o = ("dict", [(x.split("=")[0], C.h2f(x.split("=")[1])) for x in sp(out[2:])])
    else:
        o = ("names", sp(out[2:]))
    return {
        "trainable": sp(f[0]), "names": sp(f[1]), "part": [int(x) for x in sp(f[2])],
        "vals": [C.h2f(x) for x in sp(f[3])], "flags": [x == "1" for x in sp(f[4])],
        "cplx": [(x.split("=")[0], x.split("=")[1] == "1") for x in sp(f[5])],
        "same": [g.split(",") for g in f[6].split(";")] if f[6] else [],
        "bnd": sp(f[7]), "init": sp(f[8]), "polar": f[9] == "1",
    }, o


def close(a, b, exact, tol=1e-12):
    if a == b:
        return True
    if exact:
        return C.f2h(a) == C.f2h(b)
    if math.isnan(a) or math.isnan(b):
        return math.isnan(a) and math.isnan(b)
    return abs(a - b) <= tol * max(1.0, abs(a), abs(b))


def compare(real, rout, model, mout, exact, y2x_out):
    for key in ("trainable", "names", "part", "flags", "cplx", "same", "polar", "init"):
        if real[key] != model[key]:
            return "%s: impl %r model %r" % (key, real[key], model[key])
    if sorted(real["bnd"]) != sorted(model["bnd"]) or real["bnd"] != model["bnd"]:
        return "bnd_dic keys: impl %r model %r" % (real["bnd"], model["bnd"])
    for n, a, b in zip(real["names"], real["vals"], model["vals"]):
        if not close(a, b, exact):
            return "value of %s: impl %r model %r (%s)" % (n, a, b, "bit-exact" if exact else "tol 1e-12")
    if rout is None:
        return None
    if rout[0] != mout[0]:
        return "result kind: impl %r model %r" % (rout, mout)
    otol = 2e-6 if y2x_out else 1e-12
    ex = exact and not y2x_out
    if rout[0] == "val" and not close(rout[1], mout[1], ex, otol):
        return "result: impl %r model %r" % (rout, mout)
    if rout[0] == "vals":
        if len(rout[1]) != len(mout[1]) or not all(close(a, b, ex, otol) for a, b in zip(rout[1], mout[1])):
            return "result: impl %r model %r" % (rout, mout)
    if rout[0] == "dict":
        if [x[0] for x in rout[1]] != [x[0] for x in mout[1]] or not all(close(a[1], b[1], ex, otol) for a, b in zip(rout[1], mout[1])):
            return "result: impl %r model %r" % (rout, mout)
    if rout[0] == "names" and list(rout[1]) != list(mout[1]):
        return "result: impl %r model %r" % (rout, mout)
    return None


# ----------------------------------------------------------------------------------------------
# generator of well-phased histories
# ----------------------------------------------------------------------------------------------

NICE = [0.0, 1.0, -1.0, 0.5, 2.0, -2.5, 3.0, 0.25, -0.75]


def rval(rnd):
    return rnd.choice(NICE) if rnd.random() < 0.4 else rnd.uniform(-3.0, 3.0)


def rangle(rnd):
    return rnd.choice([0.0, math.pi, -math.pi, 1.0, 4.0, -5.0, 7.5]) if rnd.random() < 0.3 else rnd.uniform(-8.0, 8.0)


class Gen:
    """mode: 'safe' avoids the input classes of the listed findings, 'wild' does not, 'mixed' additionally ties complex
    parameters both as a whole and through their parts (outside Vars.WellSeparated); pure: no transcendental op"""

    def __init__(self, rnd, mode="wild", pure=False):
        self.rnd, self.mode, self.pure = rnd, mode, pure
        self.ops = []
        self.reals = []      # real names (incl. parts of complex)
        self.plain = []      # real, non-part names
        self.cnames = []     # complex names
        self.variables = {}  # Variable name -> (shape, cplx)
        self.real_tied = set()
        self.cplx_tied = set()
        self.classes = []    # generator's view of real-name tie classes (lists)
        self.shared = False
        self.bounded = {}
        self.mask_depth = 0
        self.cflag = {}
        self.polar0 = True

    def cls_of(self, n):
        for c in self.classes:
            if n in c:
                return c
        return None

    # phase 0 ----------------------------------------------------------------------------
    def create(self):
        rnd = self.rnd
        nv = rnd.randint(2, 6)
        for i in range(nv):
            r = rnd.random()
            if self.mode == "mixed" and i < 2:
                r = 0.4 + 0.4 * r  # at least two complex parameters
            if r < 0.4:
                name = "p%d" % i
                value = rval(rnd) if rnd.random() < 0.6 else None
                rng = None if value is not None or rnd.random() < 0.5 else [-1.0, 2.0]
                self.ops.append({"k": "ar", "name": name, "value": value, "range": rng, "tr": rnd.random() < 0.8})
                self.reals.append(name)
                self.plain.append(name)
            elif r < 0.8:
                name = "c%d" % i
                tr = rnd.random() < 0.75
                self.ops.append({"k": "ac", "name": name, "polar": rnd.choice([None, None, True, False]), "tr": tr,
                                 "fix_vals": [rval(rnd), rangle(rnd)]})
                self.cnames.append(name)
                self.cflag[name] = self.polar0 if self.ops[-1]["polar"] is None else self.ops[-1]["polar"]
                self.reals += [name + "r", name + "i"]
            else:
                name = "V%d" % i
                shape = rnd.choice([[], [2], [2, 2]] if i < 3 else [[], [2]])
                cplx = rnd.random() < 0.5
                kw = {}
                if cplx:
                    if rnd.random() < 0.3:
                        kw["polar"] = rnd.random() < 0.5
                    if rnd.random() < 0.25:
                        kw["fix"] = True
                        kw["fix_vals"] = [rval(rnd), rangle(rnd)]
                else:
                    if rnd.random() < 0.5:
                        kw["value"] = rval(rnd)
                    if rnd.random() < 0.2:
                        kw["fix"] = True
                self.ops.append({"k": "var", "name": name, "shape": shape, "cplx": cplx, "kw": kw})
                self.variables[name] = (shape, cplx)
                for n in shape_names(name, shape):
                    if cplx:
                        self.cnames.append(n)
                        self.cflag[n] = kw.get("polar", self.polar0)
                        self.reals += [n + "r", n + "i"]
                    else:
                        self.reals.append(n)
                        self.plain.append(n)
        if rnd.random() < 0.15 and self.plain:  # overwrite an existing real variable
            self.ops.append({"k": "ar", "name": rnd.choice(self.plain), "value": rval(rnd), "range": None, "tr": rnd.random() < 0.7})

    # phase 1 ----------------------------------------------------------------------------
    def fixfree(self):
        rnd = self.rnd
        for _ in range(rnd.randint(0, 4)):
            r = rnd.random()
            scal = [n for n, (sh, cp) in self.variables.items() if not sh]
            if r < 0.12 and scal:
                n = rnd.choice(scal)
                cp = self.variables[n][1]
                if rnd.random() < 0.5:
                    v = None if rnd.random() < 0.4 else (rval(rnd) if not cp else [rval(rnd), rval(rnd)])
                    self.ops.append({"k": "vfixed", "var": n, "value": v})
                else:
                    self.ops.append({"k": "vfreed", "var": n})
            elif r < 0.16:
                self.ops.append({"k": "fix", "name": "nosuch", "value": None, "unfix": False})
            else:
                self.ops.append({"k": "fix", "name": rnd.choice(self.reals), "value": None if rnd.random() < 0.5 else rval(rnd),
                                 "unfix": rnd.random() < 0.35})

    # phase 2 ----------------------------------------------------------------------------
    def merge_classes(self, names):
        new = []
        for n in names:
            c = self.cls_of(n)
            if c is not None:
                self.classes.remove(c)
                new += c
            elif n not in new:
                new.append(n)
        self.classes.append(new)
        self.real_tied.update(new)

    def tie(self):
        rnd = self.rnd
        safe = self.mode == "safe"
        mixed = self.mode == "mixed"
        for _ in range(rnd.randint(2, 6) if mixed else (rnd.randint(0, 4) if not safe else rnd.randint(0, 3))):
            r = rnd.random()
            if r < 0.55:
                cand = [n for n in self.reals if mixed or not (n[:-1] in self.cplx_tied and n[:-1] in self.cnames)]
                if safe:
                    cand = list(self.plain)
                if len(cand) < 2:
                    continue
                k = min(len(cand), rnd.choice([2, 2, 2, 3]))
                names = rnd.sample(cand, k)
                if safe:
                    seen, keep = 0, []
                    for n in names:
                        if self.cls_of(n) is not None:
                            seen += 1
                            if seen > 1:
                                continue
                        keep.append(n)
                    names = keep
                    if len(names) < 2:
                        continue
                self.ops.append({"k": "same", "names": names, "cplx": False})
                self.merge_classes(names)
            elif r < 0.8:
                cand = [c for c in self.cnames if mixed or (c + "r" not in self.real_tied and c + "i" not in self.real_tied)]
                if safe:
                    cand = [c for c in cand if c not in self.cplx_tied]
                if len(cand) < 2:
                    continue
                if not safe and rnd.random() < 0.15 and len(self.variables) >= 2:
                    same_shape = [(a, b) for a in self.variables for b in self.variables
                                  if a != b and self.variables[a] == self.variables[b]]
                    same_shape = [(a, b) for a, b in same_shape if not self.variables[a][1] or
                                  all(self.cflag[x] == self.cflag[y] and not any(z + p in self.real_tied for z in (x, y) for p in "ri")
                                      for x, y in zip(shape_names(a, self.variables[a][0]), shape_names(b, self.variables[b][0])))]
                    same_shape = [(a, b) for a, b in same_shape if self.variables[a][1] or
                                  not any(z[:-1] in self.cplx_tied for nm in (a, b) for z in shape_names(nm, self.variables[nm][0]))]
                    if same_shape:
                        a, b = rnd.choice(same_shape)
                        self.ops.append({"k": "vsameas", "a": a, "b": b})
                        if self.variables[a][1]:
                            self.cplx_tied.update(shape_names(a, self.variables[a][0]) + shape_names(b, self.variables[b][0]))
                        else:
                            for x, y in zip(shape_names(a, self.variables[a][0]), shape_names(b, self.variables[b][0])):
                                self.merge_classes([x, y])
                        continue
                names = rnd.sample(cand, 2 if safe or len(cand) < 3 else rnd.choice([2, 3]))
                names = [n for n in names if self.cflag[n] == self.cflag[names[0]]]
                if len(names) < 2:
                    continue
                self.ops.append({"k": "same", "names": names, "cplx": True})
                self.cplx_tied.update(names)
            else:
                cand = [c for c in self.cnames if mixed or c not in self.cplx_tied]
                if len(cand) < 2:
                    continue
                names = rnd.sample(cand, rnd.choice([2, 2, 3]) if len(cand) >= 3 else 2)
                if safe:
                    seen, keep = 0, []
                    for n in names:
                        if self.cls_of(n + "r") is not None:
                            seen += 1
                            if seen > 1:
                                continue
                        keep.append(n)
                    names = keep
                    if len(names) < 2:
                        continue
                if self.pure:
                    continue
                self.ops.append({"k": "share", "names": names})
                for n in names:
                    self.cflag[n] = True
                self.merge_classes([n + "r" for n in names])
                self.shared = True

    # phase 3 ----------------------------------------------------------------------------
    def rbound(self):
        rnd = self.rnd
        r = rnd.random()
        lo = rnd.choice([-1.0, 0.0, 0.5, -2.0, rnd.uniform(-2, 1)])
        hi = lo + rnd.choice([1.0, 2.0, 0.5, rnd.uniform(0.3, 3)])
        if r < 0.5:
            return [lo, hi]
        if r < 0.75:
            return [lo, None]
        # Bound(None, b) cannot be constructed for b <= -1 on the unchanged tree (finding bound:construct:upper-only-le-minus1)
        return [None, rnd.choice([0.5, 1.0, 3.0, rnd.uniform(-0.9, 3.0)])]

    def bound(self, p=0.35):
        rnd = self.rnd
        if rnd.random() > p or not self.reals:
            return
        b = {}
        for _ in range(rnd.randint(1, 2)):
            b[rnd.choice(self.reals)] = self.rbound()
        self.ops.append({"k": "bound", "b": b})
        self.bounded.update(b)

    # phase 4 ----------------------------------------------------------------------------
    def free_op(self):
        rnd = self.rnd
        kinds = ["set"] * 6 + ["sad"] * 3 + ["sal"] * 4 + ["get"] * 3 + ["gad"] * 2 + ["gav"] * 2 + ["refresh"] * 3 + ["mask"] * 2 + ["err"]
        if not self.pure:
            kinds += ["stv"] * 2 + ["bound", "rmb"]
            if self.cnames and not (self.mode == "safe" and self.shared):
                kinds += ["rp2xy", "xy2rp", "std"] * 2 + ["rp2xyall", "xy2rpall", "stdall", "trans"]
            if self.cnames:
                kinds += ["stdc"] * 2
        k = rnd.choice(kinds)
        vif = (not self.pure) and rnd.random() < 0.4
        nt = rnd.randint(0, len(self.reals) + 1)
        if k == "set":
            n = rnd.choice(self.reals) if rnd.random() < 0.95 else "nosuch"
            v = rangle(rnd) if n.endswith("i") else rval(rnd)
            self.ops.append({"k": "set", "name": n, "v": v, "vif": vif})
        elif k == "sad":
            ns = rnd.sample(self.reals, rnd.randint(1, min(4, len(self.reals))))
            self.ops.append({"k": "sad", "d": {n: rval(rnd) for n in ns}, "vif": vif})
        elif k == "sal":
            self.ops.append({"k": "sal", "l": [rval(rnd) for _ in range(len(self.reals) + (0 if rnd.random() < 0.9 else -len(self.reals)))], "vif": vif})
        elif k == "stv":
            self.ops.append({"k": "stv", "l": [rval(rnd) for _ in range(len(self.reals))]})
        elif k == "get":
            self.ops.append({"k": "get", "name": rnd.choice(self.reals), "vif": vif})
        elif k == "gad":
            self.ops.append({"k": "gad", "tonly": rnd.random() < 0.4})
        elif k == "gav":
            self.ops.append({"k": "gav", "vif": vif})
        elif k == "refresh":
            op = {"k": "refresh", "u": rnd.random(), "z": rnd.uniform(-0.9, 0.9), "chi": rnd.uniform(0.01, 3.0), "init": None, "bound": None}
            if rnd.random() < 0.5:
                bd = {}
                for n in rnd.sample(self.reals, rnd.randint(0, min(3, len(self.reals)))):
                    bd[n] = self.rbound()
                op["bound"] = bd
                eff = bd
            else:
                eff = self.bounded
            if rnd.random() < 0.5:
                init = {}
                for n in rnd.sample(self.reals, rnd.randint(0, min(3, len(self.reals)))):
                    r = rnd.random()
                    b = eff.get(n)
                    if r < 0.2:
                        init[n] = None
                    elif r < 0.6:
                        init[n] = rval(rnd)
                    elif b is None:
                        init[n] = [rval(rnd), rnd.uniform(0.1, 1.0)]
                    elif b[0] is not None and b[1] is not None:
                        init[n] = [(b[0] + b[1]) / 2, (b[1] - b[0]) / 4]
                    else:
                        init[n] = rval(rnd)
                op["init"] = init
            self.ops.append(op)
        elif k == "mask":
            if self.mask_depth and rnd.random() < 0.6:
                self.ops.append({"k": "maskout"})
                self.mask_depth -= 1
            else:
                ns = rnd.sample(self.reals, rnd.randint(1, min(2, len(self.reals))))
                self.ops.append({"k": "maskin", "d": {n: rval(rnd) for n in ns}})
                self.mask_depth += 1
        elif k == "err":
            self.ops.append(rnd.choice([{"k": "get", "name": "nosuch", "vif": False}, {"k": "rp2xy", "name": "nosuch"},
                                        {"k": "maskout"} if not self.mask_depth else {"k": "gad", "tonly": False}]))
        elif k == "bound":
            self.bound(1.0)
        elif k == "rmb":
            self.ops.append({"k": "rmb"})
            self.bounded = {}
        elif k in ("rp2xy", "xy2rp", "std"):
            self.ops.append({"k": k, "name": rnd.choice(self.cnames)})
        elif k == "trans":
            self.ops.append({"k": "trans", "polar": rnd.random() < 0.5})
        else:
            self.ops.append({"k": k})

    def history(self):
        rnd = self.rnd
        self.create()
        self.fixfree()
        self.tie()
        if not self.pure:
            self.bound()
        target = rnd.randint(5, 60)
        while len(self.ops) < target:
            self.free_op()
        return self.ops


def gen_history(seed, mode, pure):
    rnd = random.Random(seed)
    g = Gen(rnd, mode, pure)
    polar0 = rnd.random() < 0.7
    g.polar0 = polar0
    return polar0, g.history()


# ----------------------------------------------------------------------------------------------
# which variant of the two patched behaviours does the tree have?
# ----------------------------------------------------------------------------------------------

def probe_variant():
    from tf_pwa.variable import VarsManager
    vm = VarsManager(dtype="float64")
    for n, v in zip("abcd", [1.0, 2.0, 3.0, 4.0]):
        vm.add_real_var(n, v)
    vm.set_same(["a", "b"])
    vm.set_same(["c", "d"])
    vm.set_same(["b", "d"])
    merge = vm.variables["d"] is vm.variables["a"]
    vm = VarsManager(dtype="float64")
    for n in "abc":
        vm.add_complex_var(n)
    vm.set_same(["a", "b"], cplx=True)
    vm.set_same(["c", "b"], cplx=True)
    cplx = vm.variables["ar"] is vm.variables["br"] and vm.variables["cr"] is vm.variables["ar"]
    vm = VarsManager(dtype="float64")
    vm.add_complex_var("c", polar=True)
    vm.set("cr", 1.0)
    vm.set("ci", 5.0)
    vm.std_polar("c")
    std = -math.pi <= float(vm.get("ci")) < math.pi
    # the two C08 repairs inside VarsManager (Cfg.stdFree, Cfg.boundHead of the shared model):
    # fix_C08_standard_complex_free_only.diff: standard_complex leaves a complex variable with a fixed part alone
    vm = VarsManager(dtype="float64")
    vm.add_complex_var("c", polar=True, trainable=False, fix_vals=(-1.0, 0.5))
    vm.add_complex_var("d", polar=True)
    vm.set("dr", -1.0)
    vm.set("di", 0.5)
    vm.set_fix("di")
    vm.standard_complex()
    std_free = float(vm.get("cr")) == -1.0 and float(vm.get("ci")) == 0.5 and float(vm.get("dr")) == -1.0 and float(vm.get("di")) == 0.5
    # fix_C08_set_bound_free_name.diff: set_bound registers under the first entry of the tie group
    vm = VarsManager(dtype="float64")
    for n, v in zip("abc", [1.0, 1.0, 2.0]):
        vm.add_real_var(n, v)
    vm.set_same(["a", "b"])
    import warnings
    with warnings.catch_warnings():
        warnings.simplefilter("ignore")
        vm.set_bound({"b": (0.5, 1.5), "c": (None, 3.0)})
    bound_head = list(vm.bnd_dic) == ["a", "c"]
    return {"fixSame": bool(merge and cplx), "fixStd": bool(std), "merge": bool(merge), "cplx": bool(cplx),
            "stdFree": bool(std_free), "boundHead": bool(bound_head)}


# ----------------------------------------------------------------------------------------------
# correspondence
# ----------------------------------------------------------------------------------------------

def is_transc(op, real):
    k = op["k"]
    if k in TRANSC:
        return True
    if k in ("set", "sad", "sal") and op.get("vif") and real.vm.bnd_dic:
        return True
    if k == "stv" and real.vm.bnd_dic:
        return True
    if k in ("fix", "vfixed") and op.get("value") is not None and real.vm.bnd_dic:
        return True
    return False


OUTSIDE_WELL_NAMED = []


def well_named_op(op, real):
    """Python rendering of Vars.tieOK (hypothesis of inv_reachable_patched), evaluated on the real object"""
    k = op["k"]
    if k not in ("same", "share", "vsameas", "vshare", "vratio"):
        return True
    keys = set(real.vm.variables)
    if any(n + "r" in keys for n in keys):
        return False
    is_c = lambda n: n + "r" in keys and n + "i" in keys
    if k == "same":
        return all(is_c(n) if op["cplx"] else n in keys for n in op["names"])
    if k == "share":
        return all(is_c(n) for n in op["names"])
    V = real.vars
    for nm in [op["a"]] + ([op["b"]] if "b" in op else []):
        for n in shape_names(V[nm].name, V[nm].shape):
            if not (is_c(n) if V[nm].cplx else n in keys):
                return False
    return True


def well_sep_op(op, real):
    """Python rendering of Vars.sepOK (hypothesis of tied_stays_tied_partial) for the calls that are ONE model call"""
    k = op["k"]
    if k not in ("same", "share"):
        return True
    keys = set(real.vm.variables)
    is_c = lambda n: n + "r" in keys and n + "i" in keys
    members = [m for g in real.vm.same_list for m in g]
    sep_real = lambda names: all(not (is_c(c) and n in (c + "r", c + "i")) for n in names for c in members)
    if k == "share":
        return sep_real([n + "r" for n in op["names"]])
    if op["cplx"]:
        return all(m not in (n + "r", n + "i") for n in op["names"] for m in members)
    return sep_real(op["names"])


def run_history_real(polar0, ops, hook):
    """-> list of (out, dump, tainted, y2x_out), list of model token lists, index map"""
    real = Real(polar0, hook)
    steps, toks, last, hyps = [], [], [], []
    tainted = False
    for op in ops:
        if not well_named_op(op, real):
            OUTSIDE_WELL_NAMED.append(op)
        hyps.append((well_named_op(op, real), well_sep_op(op, real)))
        tainted = tainted or is_transc(op, real)
        y2x_out = op["k"] in ("get", "gav") and bool(op.get("vif")) and bool(real.vm.bnd_dic)
        out, t = real.apply(op)
        toks += t
        last.append(len(toks) - 1)
        steps.append((out, real.dump(), tainted, y2x_out))
    return steps, toks, last, hyps


def bound_grid(ctx, res):
    """Bound.get_x2y/get_y2x/get_dydx/get_d2ydx2 vs the Float instance of templates/Bound.lean.in"""
    from tf_pwa.variable import Bound
    rnd = random.Random(ctx.seed * 7919 + 5)
    specs = [(-1.0, 2.0), (0.0, 1.0), (0.5, None), (None, 3.0), (None, None), (-2.0, None), (None, -0.5)]
    specs.append((round(rnd.uniform(-3, 0), 3), round(rnd.uniform(0.5, 4), 3)))
    if not ctx.quick:
        specs += [(round(rnd.uniform(-3, 0), 3), round(rnd.uniform(0.5, 4), 3)) for _ in range(6)]
        specs += [(round(rnd.uniform(-3, 3), 3), None), (None, round(rnd.uniform(-0.9, 3), 3))]
    lines, impl, meta = [], [], []
    for lo, hi in specs:
        b = Bound(lo, hi)
        xs = [0.0, 1.0, -1.0, math.pi / 2, -math.pi / 2, 3.0, -7.5, 1e-3, 40.0] + [rnd.uniform(-6, 6) for _ in range(12)]
        ys = []
        a = lo if lo is not None else (hi - 5.0 if hi is not None else -3.0)
        c = hi if hi is not None else (lo + 5.0 if lo is not None else 3.0)
        ys += [a, c, a - 1.0, c + 1.0, (a + c) / 2, a + 1e-9 * (c - a), c - 1e-9 * (c - a)] + [rnd.uniform(a, c) for _ in range(12)]
        for fn, pts, f in (("x2y", xs, b.get_x2y), ("dydx", xs, b.get_dydx), ("d2ydx2", xs, b.get_d2ydx2), ("y2x", ys, b.get_y2x)):
            for p in pts:
                lines.append("C16 bound %s %s %s %s" % (fn, opt_f(lo), opt_f(hi), C.f2h(p)))
                try:
                    impl.append(float(f(p)))
                except Exception as e:
                    impl.append(e)
                meta.append((fn, lo, hi, p))
    out = ctx.model.query(lines)
    nbad, first = 0, None
    for (fn, lo, hi, p), iv, line in zip(meta, impl, out):
        if line == "bad-op":
            res.broke("model driver bad-op", "bound")
            return 0
        mv = C.h2f(line)
        if isinstance(iv, Exception):
            ok = False
        elif fn == "y2x":
            # conditioning of asin / sqrt at the end points: compare after mapping back as well
            ok = abs(iv - mv) <= 1e-11 * max(1.0, abs(mv)) or (abs(iv - mv) <= 3e-7 * max(1.0, abs(mv)))
            if ok and abs(iv - mv) > 1e-11 * max(1.0, abs(mv)):
                from tf_pwa.variable import Bound as B2  # noqa: F401
                # only allowed close to an end point of the range
                yc = p
                if lo is not None and yc < lo:
                    yc = lo
                if hi is not None and yc > hi:
                    yc = hi
                d = min(abs(yc - lo) if lo is not None else 1e9, abs(yc - hi) if hi is not None else 1e9)
                ok = d <= 1e-6 * max(1.0, abs(yc))
        else:
            ok = abs(iv - mv) <= 1e-12 * max(1.0, abs(mv))
        if not ok:
            nbad += 1
            if first is None:
                first = {"fn": fn, "lo": lo, "hi": hi, "arg": p, "impl": repr(iv), "model": mv}
    if nbad:
        res.broke("correspondence BoundF vs tf_pwa.variable.Bound", {"n": nbad, "first": first})
        ctx.bound_hint = first
    return len(lines)


# ----------------------------------------------------------------------------------------------
# custom bound expressions: own parser of the grammar -> prefix AST for TfPwaV.BExprF (templates/BExpr.lean.in)
# ----------------------------------------------------------------------------------------------

BEXPR_FUNCS = ("exp", "log", "sin", "cos", "tanh", "sqrt")


def bexpr_tokens(src, lo, hi):
    """recursive-descent parser (Python precedence) of  + - * / ** ( ) numbers x a b exp log sin cos tanh sqrt  ->
    prefix token list; a, b are replaced by the numbers Bound.get_func substitutes (lower / upper, -1e9 / 1e9 for None)"""
    import re
    toks = re.findall(r"\s*(\*\*|[-+*/()]|[A-Za-z_]\w*|\d+\.?\d*(?:[eE][-+]?\d+)?|\.\d+)", src)
    if "".join(toks) != "".join(src.split()):
        raise ValueError("cannot tokenise %r" % src)
    pos = [0]
    const = lambda v: ["c", C.f2h(float(v))]

    def peek():
        return toks[pos[0]] if pos[0] < len(toks) else None

    def take(t=None):
        v = peek()
        if v is None or (t is not None and v != t):
            raise ValueError("parse error in %r at token %d" % (src, pos[0]))
        pos[0] += 1
        return v

    def expr():
        e = term()
        while peek() in ("+", "-"):
            op = take()
            e = ["add" if op == "+" else "sub"] + e + term()
        return e

    def term():
        e = unary()
        while peek() in ("*", "/"):
            op = take()
            e = ["mul" if op == "*" else "div"] + e + unary()
        return e

    def unary():
        if peek() == "-":
            take()
            return ["neg"] + unary()
        if peek() == "+":
            take()
            return unary()
        return power()

    def power():
        e = atom()
        if peek() == "**":
            take()
            neg = False
            if peek() == "-":
                take()
                neg = True
            n = take()
            if not n.isdigit():
                raise ValueError("only integer powers: %r" % src)
            e = ["pow", n] + e
            if neg:
                e = ["div"] + const(1.0) + e
        return e

    def atom():
        t = take()
        if t == "(":
            e = expr()
            take(")")
            return e
        if t == "x":
            return ["x"]
        if t == "a":
            return const(lo if lo is not None else -1e9)
        if t == "b":
            return const(hi if hi is not None else 1e9)
        if t in BEXPR_FUNCS:
            take("(")
            e = expr()
            take(")")
            return [t] + e
        if t[0].isdigit() or t[0] == ".":
            return const(t)
        raise ValueError("unknown name %r in %r" % (t, src))

    e = expr()
    if peek() is not None:
        raise ValueError("trailing input in %r" % src)
    return e


_BOUNDS = {}


def get_bound(lo, hi, func):
    from tf_pwa.variable import Bound
    key = (lo, hi, func)
    if key not in _BOUNDS:
        _BOUNDS[key] = Bound(lo, hi, func=func)
    return _BOUNDS[key]


CUSTOM_SPECS_QUICK = [
    ((0.0, 3.0), "a+(b-a)/(1+exp(-x))"),   # a = 0.0: a falsy end point must not be read as "no bound"
    ((0.5, None), "a+exp(x)"),
    ((None, 2.0), "b-exp(-x)"),
    ((-1.0, 1.5), "(a+b)/2+(b-a)/2*tanh(x)"),
    # the three built-in forms, through the generic expression path
    ((-1.0, 2.0), "(b-a)*(sin(x)+1)/2+a"),
    ((0.5, None), "a-1+sqrt(x**2+1)"),
    ((None, 3.0), "b+1-sqrt(x**2+1)"),
]
CUSTOM_SPECS_MORE = [
    ((-2.0, 5.0), "a+(b-a)/(1+exp(-x))"),
    ((None, -0.5), "b-exp(x)"),
    ((-1.0, 1.0), "(b-a)*(tanh(x)+1)/2+a"),
    ((0.0, None), "a+log(1+exp(x))"),
    ((0.0, 2.0), "a+(b-a)*(x/sqrt(1+x**2)+1)/2"),
    ((-3.0, None), "a+exp(2*x-1)"),
    ((1.0, 4.0), "a+(b-a)*(1+cos(x))/2"),
]


def bound_expr_grid(ctx, res):
    """get_x2y / get_dydx / get_d2ydx2 of a real Bound with a custom expression (sympy: f, diff(f), diff(diff(f))) vs
    eval e / eval (diff e) / eval (diff (diff e)) of the Float instance of the Lean AST (theorem C16b.diff_is_deriv is
    about the same text at R).  1e-12 relative to max(1, |value|, |a|, |b|)."""
    rnd = random.Random(ctx.seed * 104729 + 11)
    specs = list(CUSTOM_SPECS_QUICK) + ([] if ctx.quick and not ctx.suspect else list(CUSTOM_SPECS_MORE))
    lines, meta = [], []
    nskip = 0
    for (lo, hi), func in specs:
        try:
            toks = bexpr_tokens(func, lo, hi)
            b = get_bound(lo, hi, func)
        except Exception as e:
            res.broke("custom bound expression cannot be built", {"lo": lo, "hi": hi, "func": func, "error": "%s: %s" % (type(e).__name__, str(e)[:100])})
            continue
        xs = [0.0, 1.0, -1.0, 0.3, 2.5, -4.0, math.pi / 2, 1e-3, 6.0] + [rnd.uniform(-6, 6) for _ in range(10 if ctx.quick else 30)]
        for order, f in ((0, b.get_x2y), (1, b.get_dydx), (2, b.get_d2ydx2)):
            for xv in xs:
                try:
                    iv = float(f(xv))
                except Exception as e:
                    iv = e
                lines.append("C16E eval %d %s %s" % (order, C.f2h(xv), " ".join(toks)))
                lines.append("C16E dom %d %s %s" % (order, C.f2h(xv), " ".join(toks)))
                meta.append((lo, hi, func, order, xv, iv))
    out = ctx.model.query(lines)
    nbad, first = 0, None
    for (lo, hi, func, order, xv, iv), ev, dm in zip(meta, out[0::2], out[1::2]):
        if ev == "bad-op" or dm == "bad-op":
            res.broke("model driver bad-op", "C16E %r" % func)
            return 0
        if dm != "1":
            nskip += 1   # outside the domain of definition of the expression (side conditions of diff_is_deriv)
            continue
        mv = C.h2f(ev)
        scale = max(1.0, abs(mv), abs(lo) if lo is not None else 0.0, abs(hi) if hi is not None else 0.0)
        ok = (not isinstance(iv, Exception)) and abs(iv - mv) <= 1e-12 * scale
        if not ok:
            nbad += 1
            if first is None:
                first = {"lo": lo, "hi": hi, "func": func, "derivative_order": order, "x": xv, "impl": repr(iv), "model": mv}
    if nbad:
        res.broke("correspondence BExprF eval/diff vs tf_pwa.variable.Bound(func=...) get_x2y/get_dydx/get_d2ydx2", {"n": nbad, "first": first})
        ctx.bound_hint = first
    res.coverage.update({"custom_bound_expressions": len(specs), "custom_bound_points": len(meta), "custom_bound_points_outside_domain": nskip})
    return len(meta)


def correspond(ctx, res):
    variant = probe_variant()
    ctx.variant = variant
    res.notes.append("observed variant of the tree: %r" % variant)
    hook = Hook()
    n = 90 if ctx.quick else 1200
    lines, runs, hlines = [], [], []
    kinds = {}
    del OUTSIDE_WELL_NAMED[:]
    with patched_random(hook):
        for i in range(n):
            mode = "mixed" if i % 6 == 5 else ("safe" if i % 3 == 0 else "wild")
            pure = i % 4 == 1
            seed = ctx.seed * 1000003 + i
            hook.rnd = random.Random(seed ^ 0x5EED)
            polar0, ops = gen_history(seed, mode, pure)
            steps, toks, last, hyps = run_history_real(polar0, ops, hook)
            for op in ops:
                kinds[op["k"]] = kinds.get(op["k"], 0) + 1
            flat = []
            for t in toks:
                flat += t + [";"]
            lines.append("C16 histv %s %s %s %s %s %s" % (b01(variant["fixSame"]), b01(variant["fixStd"]), b01(variant["stdFree"]), b01(variant["boundHead"]), b01(polar0), " ".join(flat[:-1])))
            hlines.append("C16S hyp %s %s %s %s" % (b01(variant["fixSame"]), b01(variant["fixStd"]), b01(polar0), " ".join(flat[:-1])))
            runs.append((seed, mode, pure, polar0, ops, steps, last, hyps))
    out = ctx.model.query(lines)
    hout = ctx.model.query(hlines)
    nsteps, ndis, first, nexact = 0, 0, None, 0
    nontriv = set()
    # the hypotheses of the history theorems, evaluated by the Lean definitions (tieOK / sepOK) on the model, against
    # their Python renderings evaluated on the real object; and the conclusion of tied_stays_tied_partial on the real object
    n_named = n_sep = n_outside_sep = n_groups_checked = 0
    for (seed, mode, pure, polar0, ops, steps, last, hyps), hl in zip(runs, hout):
        if hl == "bad-op":
            res.broke("model driver bad-op", "C16S hyp, history seed %d" % seed)
            break
        fl = hl.split(",") if hl else []
        named = all(f[0] == "1" for f in fl)
        sep = all(f[1] == "1" for f in fl)
        n_named += named
        n_sep += named and sep
        n_outside_sep += named and not sep
        for j, (op, li, (pn, ps)) in enumerate(zip(ops, last, hyps)):
            if op["k"] in ("same", "share") and li < len(fl) and (fl[li][0] == "1") != bool(pn):
                res.broke("correspondence Vars.tieOK vs its rendering on the real object", {"seed": seed, "call": j, "op": op, "lean": fl[li], "python": [pn, ps]})
                break
            if op["k"] in ("same", "share") and li < len(fl) and pn and (fl[li][1] == "1") != bool(ps):
                res.broke("correspondence Vars.sepOK vs its rendering on the real object", {"seed": seed, "call": j, "op": op, "lean": fl[li], "python": [pn, ps]})
                break
        if named and sep and variant["fixSame"] and steps:
            # theorem tied_stays_tied_partial: every same_list group is bound to one object (real names) / partwise (complex)
            d = steps[-1][1]
            cell = dict(zip(d["names"], d["part"]))
            for g in d["same"]:
                n_groups_checked += 1
                if all(m in cell for m in g):
                    ok = len({cell[m] for m in g}) <= 1
                else:
                    ok = all(m + "r" in cell and m + "i" in cell for m in g) and len({cell[m + "r"] for m in g}) <= 1 and len({cell[m + "i"] for m in g}) <= 1
                if not ok:
                    res.broke("theorem tied_stays_tied_partial vs implementation: a group of same_list is not bound to one object although the history is WellNamed and WellSeparated",
                              {"seed": seed, "mode": mode, "group": g, "polar0": polar0, "ops": ops})
                    ctx.hint = {"seed": seed, "mode": mode, "pure": pure, "polar0": polar0, "ops": ops}
                    break
    for (seed, mode, pure, polar0, ops, steps, last, hyps), line in zip(runs, out):
        if line == "bad-op":
            ndis += 1
            first = first or {"seed": seed, "what": "model could not parse the history", "ops": ops[:5]}
            continue
        dumps = line.split("#")
        for j, ((rout, rdump, tainted, y2x_out), li) in enumerate(zip(steps, last)):
            md, mo = parse_dump(dumps[li])
            nsteps += 1
            nexact += 0 if tainted else 1
            why = compare(rdump, rout, md, mo, not tainted, y2x_out)
            if why:
                ndis += 1
                if first is None:
                    first = {"seed": seed, "mode": mode, "pure": pure, "step": j, "op": ops[j], "why": why, "polar0": polar0, "ops": ops[: j + 1]}
                break
        if steps and len(rdump["same"]) and len(rdump["trainable"]):
            nontriv.add((len(rdump["names"]), len(rdump["trainable"]), len(rdump["same"]), len(rdump["bnd"]), tuple(rdump["part"])))
    nb = bound_grid(ctx, res) + bound_expr_grid(ctx, res)
    res.coverage.update({
        "traces_validated_against_impl": len(runs),
        "evaluations": nsteps + nb,
        "states_compared_after_every_op": nsteps,
        "states_compared_bit_exact": nexact,
        "bound_grid_points": nb,
        "distinct_nontrivial": len(nontriv),
        "rule": "seeded well-phased histories (5-60 calls; real/complex names, Variable shapes (),(2,),(2,2); 1/3 'safe' (avoid the input classes of the listed findings), 1/2 'wild', 1/6 'mixed' (2-6 overlapping tie calls, complex parameters tied as a whole AND through their parts); 1/4 without any transcendental op) executed on a real VarsManager and on TfPwaV.Vars.step; canonical state (trainable_vars in order, names, partition of names by object identity, values, trainable flags, complex_vars, same_list, bnd_dic keys, init_val keys, polar) + call result compared after EVERY call; non-trivial = distinct final (sizes, partition) with at least one tie group and one free parameter",
        "exhaustive": False,
        "op_kinds": kinds,
        "histories_outside_WellNamed": len(OUTSIDE_WELL_NAMED),
        "histories_WellNamed_by_Lean_tieOK": n_named,
        "histories_WellNamed_and_WellSeparated": n_sep,
        "histories_outside_WellSeparated": n_outside_sep,
        "same_list_groups_checked_tied_on_impl": n_groups_checked,
        "disagreements": ndis,
        "variant": variant,
    })
    if runs:
        res.samples += [{"history_seed": runs[i][0], "mode": runs[i][1], "n_ops": len(runs[i][4]), "first_ops": runs[i][4][:3]} for i in (0, len(runs) // 2)]
    if ndis:
        res.broke("correspondence Vars.step vs VarsManager", {"n": ndis, "first": first})
        ctx.hint = first


# ----------------------------------------------------------------------------------------------
# search: the property statement on the real object, oracle independent of the Lean model
# ----------------------------------------------------------------------------------------------

class Oracle:
    """what the caller asked for: tie classes (union-find over real names) and nothing else"""

    def __init__(self):
        self.parent = {}
        self.shared_r = set()
        self.cplx_tie = set()
        self.part_tie = set()   # real names listed in a real tie / radii listed in set_share_r

    def find(self, x):
        self.parent.setdefault(x, x)
        while self.parent[x] != x:
            self.parent[x] = self.parent[self.parent[x]]
            x = self.parent[x]
        return x

    def union(self, names):
        names = list(names)
        for n in names[1:]:
            self.parent[self.find(n)] = self.find(names[0])

    def cls(self, n, universe):
        r = self.find(n)
        return [m for m in universe if self.find(m) == r]


def same_val(a, b):
    """equal as numbers (the eager scalar cache of TensorFlow does not keep the sign of a zero passed as a Python float)"""
    return a == b or (a != a and b != b)


def cvalue(vm, c):
    r = float(vm.variables[c + "r"].numpy())
    i = float(vm.variables[c + "i"].numpy())
    return complex(r * math.cos(i), r * math.sin(i)) if vm.complex_vars[c] else complex(r, i)


def targets_of(op, real, ora):
    """names an op explicitly assigns (value-wise)"""
    k = op["k"]
    vm = real.vm
    V = real.vars
    parts = lambda cs: [c + s for c in cs for s in ("r", "i")]
    if k in ("ar", "set", "fix"):
        return [op["name"]]
    if k == "ac":
        return parts([op["name"]])
    if k == "var":
        ns = shape_names(op["name"], op["shape"])
        return parts(ns) if op["cplx"] else ns
    if k in ("vfixed", "vfreed"):
        v = V[op["var"]]
        return parts([v.name]) if v.cplx else [v.name]
    if k == "same":
        return parts(op["names"]) if op["cplx"] else list(op["names"])
    if k == "vsameas":
        out = []
        for nm in (op["a"], op["b"]):
            ns = shape_names(V[nm].name, V[nm].shape)
            out += parts(ns) if V[nm].cplx else ns
        return out
    if k == "share":
        return parts(op["names"] or list(vm.complex_vars))
    if k in ("vshare", "vratio"):
        out = []
        for nm in [op["a"]] + ([op["b"]] if "b" in op else []):
            out += parts(shape_names(V[nm].name, V[nm].shape))
        return out
    if k == "sad":
        return list(op["d"])
    if k in ("rp2xy", "xy2rp", "std"):
        return parts([op["name"]])
    if k in ("rp2xyall", "xy2rpall", "stdall", "stdc", "trans"):
        return parts(list(vm.complex_vars))
    return []  # sal, stv, refresh, get*, mask*, bound, rmb: no name is explicitly assigned


def search_history(polar0, ops, hook, res, seed, mode, report=True):
    """returns list of (key, what) found on this history (stops at the first)"""
    real = Real(polar0, hook)
    vm = real.vm
    ora = Oracle()
    found = []
    sep_ok = True   # Vars.WellSeparated so far (rendering of sepOK on the real object before every tie call)

    def fail(key, what, j):
        found.append((key, what))
        if report:
            res.fail(key, what + " [history seed=%d mode=%s, call %d: %r]" % (seed, mode, j, ops[j]),
                     {"seed": seed, "mode": mode, "polar0": polar0, "ops": ops[: j + 1]})

    for j, op in enumerate(ops):
        k = op["k"]
        names0 = list(vm.variables)
        before = {n: float(vm.variables[n].numpy()) for n in names0}
        cbefore = {}
        if k in COORD:
            for c in vm.complex_vars:
                if c + "r" in vm.variables and c + "i" in vm.variables and isinstance(vm.complex_vars[c], bool):
                    cbefore[c] = cvalue(vm, c)
        tr0 = list(vm.trainable_vars)
        tg = set(targets_of(op, real, ora))
        if not well_sep_op(op, real):
            sep_ok = False
        out, _ = real.apply(op)
        # oracle bookkeeping: what the caller asked to tie
        if out != ("raise",):
            if k == "same":
                if op["cplx"]:
                    ora.union([n + "r" for n in op["names"]])
                    ora.union([n + "i" for n in op["names"]])
                    ora.cplx_tie.update(op["names"])
                else:
                    ora.union(op["names"])
                    ora.part_tie.update(op["names"])
            elif k == "vsameas":
                A, B = real.vars[op["a"]], real.vars[op["b"]]
                for x, y in zip(shape_names(A.name, A.shape), shape_names(B.name, B.shape)):
                    if A.cplx:
                        ora.union([x + "r", y + "r"])
                        ora.union([x + "i", y + "i"])
                        ora.cplx_tie.update([x, y])
                    else:
                        ora.union([x, y])
                        ora.part_tie.update([x, y])
            elif k == "share":
                ora.union([n + "r" for n in op["names"]])
                ora.shared_r.update(op["names"])
                ora.part_tie.update(n + "r" for n in op["names"])
            elif k == "vshare":
                A, B = real.vars[op["a"]], real.vars[op["b"]]
                for x, y in zip(shape_names(A.name, A.shape), shape_names(B.name, B.shape)):
                    ora.union([x + "r", y + "r"])
                    ora.shared_r.update([x, y])
                    ora.part_tie.update([x + "r", y + "r"])
            elif k == "vratio":
                A = real.vars[op["a"]]
                ns = shape_names(A.name, A.shape)
                ora.union([n + "r" for n in ns])
                ora.shared_r.update(ns)
                ora.part_tie.update(n + "r" for n in ns)
        names = list(vm.variables)
        after = {n: float(vm.variables[n].numpy()) for n in names}
        tr = list(vm.trainable_vars)
        # S1: the free-parameter list has no duplicates and only names that exist
        if len(set(tr)) != len(tr) or any(n not in vm.variables for n in tr):
            fail("trainable:duplicate-or-unknown", "trainable_vars = %r has a duplicate / unknown name" % tr, j)
            break
        # S2: a tie group counts once: no two free names are bound to one object
        objs = [id(vm.variables[n]) for n in tr]
        if len(set(objs)) != len(objs):
            fail("trainable:tie-group-counted-twice", "two names of trainable_vars %r are bound to the same tf.Variable" % tr, j)
            break
        # S3: tied names read the same value
        bad = None
        for n in names:
            for m in ora.cls(n, names):
                if not same_val(after[m], after[n]) or vm.variables[m] is not vm.variables[n]:
                    bad = (n, m)
                    break
            if bad:
                break
        if bad:
            cp = k in ("same", "vsameas") and (op.get("cplx") or (k == "vsameas" and real.vars[op["a"]].cplx))
            key = "set_same:cplx:existing-group-ignored" if cp else "set_same:merge:follower-not-rebound"
            # input class of the listed finding: the broken tie class contains a part of a complex parameter that was
            # tied through that part (real tie / shared radius) AND as a whole (outside Vars.WellSeparated)
            cl = ora.cls(bad[0], names)
            # (theorem tied_stays_tied_partial: impossible while the history is WellSeparated, so never attributed then)
            if not sep_ok and any(x in ora.part_tie and x[-1:] in ("r", "i") and x[:-1] in ora.cplx_tie for x in cl):
                key = "set_same:whole-and-part:tie-broken"
            fail(key, "tied parameters %s and %s are bound to different objects (values %r / %r) after %s" % (bad[0], bad[1], after[bad[0]], after[bad[1]], k), j)
            break
        # S4: frame — a parameter none of whose tie class is free changes only when explicitly assigned
        moved = None
        for n in names0:
            if n not in after or same_val(after[n], before[n]):
                continue
            cl = ora.cls(n, names0)
            if any(m in tr0 for m in cl):
                continue
            if any(m in tg for m in cl):
                continue
            moved = n
            break
        if moved:
            fail("frame:%s" % k, "fixed parameter %s changed %r -> %r by %s which does not assign it" % (moved, before[moved], after[moved], k), j)
            break
        # S5: coordinate switches / standardisation preserve every complex value; standard form reached
        if cbefore:
            badc = None
            for c, z0 in cbefore.items():
                if c not in vm.complex_vars or c + "r" not in vm.variables:
                    continue
                z1 = cvalue(vm, c)
                if abs(z1 - z0) > 1e-11 * (1.0 + abs(z0)):
                    badc = (c, z0, z1)
                    break
            if badc:
                c = badc[0]
                cls_r, cls_i = ora.cls(c + "r", names), ora.cls(c + "i", names)
                only_cplx = c in ora.cplx_tie and all(m[:-1] in ora.cplx_tie and m.endswith(sfx)
                                                      for cl, sfx in ((cls_r, "r"), (cls_i, "i")) for m in cl)
                if k == "stdc" and (len(cls_r) > 1 or len(cls_i) > 1) and not only_cplx:
                    # standard_complex is written to SKIP complex parameters with a tied part (every member of the tie group,
                    # its head included): not the listed finding about the explicit coordinate operations
                    key = "standard_complex:tied-part:value-changed"
                elif (len(cls_r) > 1 or len(cls_i) > 1) and not only_cplx:
                    key = "tied-part:coordinate-op-changes-value"
                elif c in ora.cplx_tie and len(cls_r) >= 3:
                    # only a chain of complex ties (>= 3 names) leaves separate same_list groups on the unchanged tree
                    key = "set_same:cplx:coordinate-flag-not-spread"
                else:
                    key = "coordinate:%s:value-changed" % k
                fail(key, "complex parameter %s changed its value %r -> %r by %s" % (c, badc[1], badc[2], k), j)
                break
            std_names = []
            if k == "std" and out != ("raise",):
                std_names = [op["name"]]
            elif k in ("stdall",) or (k == "trans" and op["polar"]):
                std_names = list(vm.complex_vars) if out != ("raise",) else []
            badp = None
            for c in std_names:
                r_, p_ = after.get(c + "r"), after.get(c + "i")
                if r_ is None or p_ is None:
                    continue
                if vm.complex_vars[c] is not True or r_ < 0:
                    # a radius shared with / tied to another phase may legitimately stay as it is
                    # (also through a real tie of its parts, e.g. set_same([c+"r", c+"i"]) ties a radius to its own phase)
                    if not (c in ora.shared_r or c in ora.cplx_tie or len(ora.cls(c + "r", names)) > 1 or len(ora.cls(c + "i", names)) > 1):
                        badp = (c, r_, p_, "r<0 or not polar")
                        break
                elif not (-math.pi <= p_ < math.pi + 1e-15):
                    badp = (c, r_, p_, "phase outside [-pi, pi)")
                    break
            if badp:
                fail("std_polar:phase-range" if badp[3].startswith("phase") else "std_polar:radius",
                     "after %s complex parameter %s has r=%r phi=%r (%s)" % (k, badp[0], badp[1], badp[2], badp[3]), j)
                break
        # a mask is active exactly while the caller is inside mask_params
        if bool(vm.mask_vars) and not real.masks:
            fail("mask:not-restored", "mask_vars = %r after every mask_params context was left" % dict(vm.mask_vars), j)
            break
        # S6: reading everything and writing it back changes nothing
        if (j % 3 == 2 or j == len(ops) - 1) and not (mode == "safe" and vm.mask_vars):
            snap = real.dump()
            d = vm.get_all_dic()
            vm.set_all(d)
            snap2 = real.dump()
            if any(snap[x] != snap2[x] for x in snap if x != "vals") or not all(same_val(a, b) for a, b in zip(snap["vals"], snap2["vals"])):
                ch = [n for n, a, b in zip(snap["names"], snap["vals"], snap2["vals"]) if not same_val(a, b)]
                key = "mask:get_all_dic-set_all" if vm.mask_vars else "getall_setall:changed"
                fail(key, "set_all(get_all_dic()) changed %r%s" % (ch, " while mask_params(%r) is active" % dict(vm.mask_vars) if vm.mask_vars else ""), j)
                break
    return found


def bound_search(ctx, res):
    """x2y(y2x(y)) = y on the range, clipping outside, x2y maps into the range, reported slopes = numerical derivatives"""
    from tf_pwa.variable import Bound
    rnd = random.Random(ctx.seed * 31 + 17)
    specs = [((-1.0, 2.0), None), ((0.5, None), None), ((None, 3.0), None), ((None, None), None),
             ((round(rnd.uniform(-3, 0), 2), round(rnd.uniform(0.5, 3), 2)), None),
             ((None, -1.5), None), ((None, -0.5), None), ((-1.5, None), None),
             ] + CUSTOM_SPECS_QUICK[:4]
    if not ctx.quick or ctx.suspect:
        specs += [((round(rnd.uniform(-3, 0), 2), None), None), ((None, round(rnd.uniform(-3, 3), 2)), None),
                  ((None, 2.0), "b-exp(x)")] + CUSTOM_SPECS_MORE[:5]
    n = 0
    for (lo, hi), func in specs:
        try:
            b = get_bound(lo, hi, func) if func else Bound(lo, hi, func=func)
        except Exception as e:
            key = "bound:construct:upper-only-le-minus1" if (func is None and lo is None and hi is not None and hi <= -1) else "bound:construct"
            res.fail(key, "Bound(%r, %r, func=%r) raises %s" % (lo, hi, func, type(e).__name__), {"lo": lo, "hi": hi, "func": func})
            continue
        tag = "%s,%s,%s" % (lo, hi, func)
        try:
            n += _bound_points(b, lo, hi, func, tag, rnd, res)
        except Exception as e:
            res.fail("bound:raises", "Bound(%s): evaluation raises %s: %s" % (tag, type(e).__name__, str(e)[:100]), {"lo": lo, "hi": hi, "func": func})
    return n


def _bound_points(b, lo, hi, func, tag, rnd, res):
    n = 0
    if True:
        a = lo if lo is not None else (hi - 4.0 if hi is not None else -3.0)
        c = hi if hi is not None else (lo + 4.0 if lo is not None else 3.0)
        open_ends = func is not None  # logistic/exp forms reach the end points only asymptotically
        ys = [(a + c) / 2] + [rnd.uniform(a, c) for _ in range(10)]
        if not open_ends:
            ys += [y for y in (lo, hi) if y is not None]
        for y in ys:
            n += 1
            back = b.get_x2y(b.get_y2x(y))
            if not abs(back - y) <= 1e-9 * max(1.0, abs(y)):
                res.fail("bound:inverse", "Bound(%s): x2y(y2x(%r)) = %r" % (tag, y, back), {"lo": lo, "hi": hi, "func": func, "y": y})
                break
        if not open_ends:
            for y, edge in ((a - 0.7, lo), (c + 1.3, hi)):
                if edge is None:
                    continue
                n += 1
                if b.get_y2x(y) != b.get_y2x(edge):
                    res.fail("bound:clip", "Bound(%s): y2x(%r) != y2x(end point %r)" % (tag, y, edge), {"lo": lo, "hi": hi, "func": func, "y": y})
        for x in [0.0, 0.3, -1.2, 2.5, -4.0] + [rnd.uniform(-5, 5) for _ in range(8)]:
            n += 1
            y = b.get_x2y(x)
            if (lo is not None and y < lo - 1e-12) or (hi is not None and y > hi + 1e-12):
                res.fail("bound:range", "Bound(%s): x2y(%r) = %r outside the range" % (tag, x, y), {"lo": lo, "hi": hi, "func": func, "x": x})
                break
            h = 1e-5
            num = (b.get_x2y(x + h) - b.get_x2y(x - h)) / (2 * h)
            if not abs(num - b.get_dydx(x)) <= 1e-7 * max(1.0, abs(num)):
                res.fail("bound:dydx", "Bound(%s): dydx(%r) = %r, central difference %r" % (tag, x, b.get_dydx(x), num), {"lo": lo, "hi": hi, "func": func, "x": x})
                break
            num2 = (b.get_dydx(x + h) - b.get_dydx(x - h)) / (2 * h)
            if not abs(num2 - b.get_d2ydx2(x)) <= 1e-7 * max(1.0, abs(num2)):
                res.fail("bound:d2ydx2", "Bound(%s): d2ydx2(%r) = %r, central difference %r" % (tag, x, b.get_d2ydx2(x), num2), {"lo": lo, "hi": hi, "func": func, "x": x})
                break
    return n


def utils_std_polar_search(ctx, res):
    from tf_pwa.utils import std_polar
    rnd = random.Random(ctx.seed + 99)
    lines, impl = [], []
    for i in range(200 if ctx.quick else 2000):
        rho = rnd.choice([1.0, -1.0, 0.0, 2.5]) if i % 3 == 0 else rnd.uniform(-3, 3)
        phi = rnd.choice([0.0, math.pi, -math.pi, 7.0, -9.0]) if i % 4 == 0 else rnd.uniform(-20, 20)
        r1, p1 = std_polar(rho, phi)
        z0 = complex(rho * math.cos(phi), rho * math.sin(phi))
        z1 = complex(r1 * math.cos(p1), r1 * math.sin(p1))
        if r1 < 0 or not (-math.pi <= p1 <= math.pi) or abs(z1 - z0) > 1e-12 * (1 + abs(z0)):
            res.fail("utils.std_polar", "utils.std_polar(%r, %r) = (%r, %r)" % (rho, phi, r1, p1), {"rho": rho, "phi": phi})
            break
        lines.append("C16 polar utils 16 %s %s" % (C.f2h(rho), C.f2h(phi)))
        impl.append((r1, p1))
    out = ctx.model.query(lines)
    for line, (r1, p1), l in zip(out, impl, lines):
        if line == "bad-op":
            res.broke("model driver bad-op", l)
            break
        mr, mp = [C.h2f(x) for x in line.split()]
        if C.f2h(mr) != C.f2h(r1) or abs(mp - p1) > 1e-14 * max(1, abs(p1)):
            res.broke("correspondence PolarF.utilsStd vs tf_pwa.utils.std_polar", {"line": l, "impl": (r1, p1), "model": (mr, mp)})
            break
    return len(lines)


def search(ctx, res):
    hook = Hook()
    n = 110 if (ctx.quick and not ctx.suspect) else (500 if ctx.quick else 2000)
    counts = {}
    nops = 0
    with patched_random(hook):
        # replay of the listed findings' minimal inputs first
        for key, (polar0, ops) in KNOWN_INPUTS.items():
            hook.rnd = random.Random(1)
            search_history(polar0, ops, hook, res, -1, "known-input")
        # inputs of past seeded / hand-made mutants: must stay quiet on the registered tree
        for key, (polar0, ops) in REGRESSION_INPUTS.items():
            hook.rnd = random.Random(2)
            nops += len(ops)
            for k2, _ in search_history(polar0, ops, hook, res, -2, "regression:" + key):
                counts[k2] = counts.get(k2, 0) + 1
        for i in range(n):
            mode = "mixed" if i % 5 == 4 else ("safe" if i % 2 == 0 else "wild")
            seed = ctx.seed * 1000003 + 500000 + i
            hook.rnd = random.Random(seed ^ 0xABCD)
            polar0, ops = gen_history(seed, mode, False)
            nops += len(ops)
            for key, _ in search_history(polar0, ops, hook, res, seed, mode):
                counts[key] = counts.get(key, 0) + 1
        hint = getattr(ctx, "hint", None)
        if hint and "ops" in hint:
            hook.rnd = random.Random(hint["seed"] ^ 0x5EED)
            polar0, ops = gen_history(hint["seed"], hint.get("mode", "wild"), hint.get("pure", False))
            search_history(hint.get("polar0", polar0), ops, hook, res, hint["seed"], "hint")
    nb = bound_search(ctx, res)
    nu = utils_std_polar_search(ctx, res)
    res.coverage.update({"search_histories": n, "search_calls": nops, "search_findings_by_key": counts,
                         "search_bound_points": nb, "search_utils_std_polar": nu})


KNOWN_INPUTS = {
    "set_same:merge:follower-not-rebound": (True, [
        {"k": "ar", "name": "a", "value": 1.0, "range": None, "tr": True},
        {"k": "ar", "name": "b", "value": 2.0, "range": None, "tr": True},
        {"k": "ar", "name": "c", "value": 3.0, "range": None, "tr": True},
        {"k": "ar", "name": "d", "value": 4.0, "range": None, "tr": True},
        {"k": "same", "names": ["a", "b"], "cplx": False},
        {"k": "same", "names": ["c", "d"], "cplx": False},
        {"k": "same", "names": ["b", "d"], "cplx": False}]),
    "set_same:cplx:existing-group-ignored": (True, [
        {"k": "ac", "name": "a", "polar": True, "tr": True, "fix_vals": [1.0, 0.0]},
        {"k": "ac", "name": "b", "polar": True, "tr": True, "fix_vals": [1.0, 0.0]},
        {"k": "ac", "name": "c", "polar": True, "tr": True, "fix_vals": [1.0, 0.0]},
        {"k": "same", "names": ["a", "b"], "cplx": True},
        {"k": "same", "names": ["c", "b"], "cplx": True}]),
    "set_same:cplx:coordinate-flag-not-spread": (True, [
        {"k": "ac", "name": "a", "polar": True, "tr": True, "fix_vals": [1.0, 0.0]},
        {"k": "ac", "name": "b", "polar": True, "tr": True, "fix_vals": [1.0, 0.0]},
        {"k": "ac", "name": "c", "polar": True, "tr": True, "fix_vals": [1.0, 0.0]},
        {"k": "same", "names": ["a", "b"], "cplx": True},
        {"k": "same", "names": ["a", "c"], "cplx": True},
        {"k": "rp2xy", "name": "b"}]),
    "std_polar:phase-range": (True, [
        {"k": "ac", "name": "c", "polar": True, "tr": False, "fix_vals": [-2.0, 5.0]},
        {"k": "std", "name": "c"}]),
    "tied-part:coordinate-op-changes-value": (True, [
        {"k": "ac", "name": "p", "polar": True, "tr": False, "fix_vals": [2.0, 0.5]},
        {"k": "ac", "name": "q", "polar": True, "tr": False, "fix_vals": [3.0, 1.0]},
        {"k": "share", "names": ["p", "q"]},
        {"k": "rp2xyall"}]),
    "mask:get_all_dic-set_all": (True, [
        {"k": "ar", "name": "a", "value": 1.0, "range": None, "tr": True},
        {"k": "maskin", "d": {"a": 5.0}},
        {"k": "gad", "tonly": False}]),
    # Props/C16c.lean: tied_stays_tied_refuted_outside (mixedHistory)
    "set_same:whole-and-part:tie-broken": (True, [
        {"k": "ar", "name": "x", "value": 1.0, "range": None, "tr": False},
        {"k": "ac", "name": "p", "polar": None, "tr": True, "fix_vals": [1.0, 0.0]},
        {"k": "ac", "name": "q", "polar": None, "tr": True, "fix_vals": [1.0, 0.0]},
        {"k": "same", "names": ["x", "qi"], "cplx": False},
        {"k": "same", "names": ["p", "q"], "cplx": True}]),
}


# Regression notes — library edits this check has been run against (all pass tf_pwa/tests/test_variable.py, all exit 1):
#  C16-01 (seeded, independent agent): refresh_vars tests self.variables[name].trainable instead of membership in
#          trainable_vars -> a fixed tie group whose first-listed member was free is re-randomised.
#          Caught by search frame:refresh (+ correspondence); deterministic input below.
#  M1 refresh_vars xy branch guards the imaginary part with name_r           -> search frame:refresh + correspondence
#  M2 xy2rp spreads False to the tie group                                     -> search coordinate:*:value-changed + correspondence
#  M3 _add_real_var no longer removes the old free entry on re-add            -> search trainable:duplicate-or-unknown
#  M4 refresh_vars bound loop drops the `not in trainable_vars` skip          -> search frame:refresh
#  M5 Bound.get_y2x lower clip assigns upper                                  -> search bound:clip + BoundF correspondence
#  M6 mask_params does not restore the old mask                               -> search mask:not-restored
#  MA Bound.get_func: `a: self.lower if self.lower else -1e9` (a = 0.0 read as "no bound")   -> BExprF + BoundF correspondence, search
#  MB Bound.get_func: inv[0] instead of inv[-1]                                -> BoundF correspondence, search bound:inverse
#  MC set_same(cplx): the i-part call of same_real gets no followers           -> correspondence (mixed history) + search on MC:cplx-merge-two-groups
#  MD set_same: `for i in tmp_list[:-1]` (last member of the last merged group dropped) -> correspondence + search set_same:merge:follower-not-rebound
REGRESSION_INPUTS = {
    # seeded change C16-04: standard_complex must leave EVERY member of a part-wise tie alone, the group's head included
    # (standardising the head alone flips the sign of the partners that share its radius / phase)
    "C16-04:share-r-negative-radius-stdc": (True, [
        {"k": "ac", "name": "a", "polar": True, "tr": True, "fix_vals": [1.0, 0.0]},
        {"k": "ac", "name": "b", "polar": True, "tr": True, "fix_vals": [1.0, 0.0]},
        {"k": "ac", "name": "c", "polar": True, "tr": True, "fix_vals": [1.0, 0.0]},
        {"k": "share", "names": ["a", "b", "c"]},
        {"k": "sad", "d": {"ar": -1.3, "ai": 0.4, "bi": 2.0, "ci": -2.5}, "vif": False},
        {"k": "stdc"},
        {"k": "gad", "tonly": False}]),
    "C16-04:same-phase-negative-radius-stdc": (True, [
        {"k": "ac", "name": "a", "polar": True, "tr": True, "fix_vals": [1.0, 0.0]},
        {"k": "ac", "name": "b", "polar": True, "tr": True, "fix_vals": [1.0, 0.0]},
        {"k": "same", "names": ["ai", "bi"], "cplx": False},
        {"k": "sad", "d": {"ar": -0.7, "ai": 1.1, "br": 2.0}, "vif": False},
        {"k": "stdc"},
        {"k": "gad", "tonly": False}]),
    "C16-01:free-first-fixed-second-refresh": (True, [
        {"k": "ac", "name": "F", "polar": None, "tr": True, "fix_vals": [1.0, 0.0]},
        {"k": "ac", "name": "X", "polar": None, "tr": False, "fix_vals": [1.5, 0.5]},
        {"k": "same", "names": ["F", "X"], "cplx": True},
        {"k": "refresh", "u": 0.3, "z": 0.1, "chi": 1.0, "init": None, "bound": None},
        {"k": "rp2xy", "name": "F"},
        {"k": "refresh", "u": 0.7, "z": -0.2, "chi": 0.5, "init": None, "bound": None}]),
    "M3:re-add-free": (True, [
        {"k": "ar", "name": "a", "value": 1.0, "range": None, "tr": True},
        {"k": "ar", "name": "a", "value": 2.0, "range": None, "tr": True},
        {"k": "gav", "vif": False}]),
    # merging two complex groups through their followers: the r AND the i parts of every member must follow the new head
    "MC:cplx-merge-two-groups": (True, [
        {"k": "ac", "name": "a", "polar": True, "tr": True, "fix_vals": [1.0, 0.0]},
        {"k": "ac", "name": "b", "polar": True, "tr": True, "fix_vals": [1.0, 0.0]},
        {"k": "ac", "name": "c", "polar": True, "tr": True, "fix_vals": [1.0, 0.0]},
        {"k": "ac", "name": "d", "polar": True, "tr": False, "fix_vals": [2.0, 0.5]},
        {"k": "same", "names": ["a", "b"], "cplx": True},
        {"k": "same", "names": ["c", "d"], "cplx": True},
        {"k": "same", "names": ["b", "d"], "cplx": True},
        {"k": "set", "name": "ai", "v": 0.25, "vif": False},
        {"k": "gad", "tonly": False}]),
    # three real groups merged by one call that lists followers only
    "MD:real-merge-three-groups": (True, [
        {"k": "ar", "name": "a", "value": 1.0, "range": None, "tr": True},
        {"k": "ar", "name": "b", "value": 2.0, "range": None, "tr": True},
        {"k": "ar", "name": "c", "value": 3.0, "range": None, "tr": False},
        {"k": "ar", "name": "d", "value": 4.0, "range": None, "tr": True},
        {"k": "ar", "name": "e", "value": 5.0, "range": None, "tr": True},
        {"k": "ar", "name": "f", "value": 6.0, "range": None, "tr": True},
        {"k": "same", "names": ["a", "b"], "cplx": False},
        {"k": "same", "names": ["c", "d"], "cplx": False},
        {"k": "same", "names": ["e", "f"], "cplx": False},
        {"k": "same", "names": ["b", "d", "f"], "cplx": False},
        {"k": "sal", "l": [7.0], "vif": False},
        {"k": "gad", "tonly": False}]),
    "M4:fixed-bounded-refresh": (True, [
        {"k": "ar", "name": "a", "value": 1.0, "range": None, "tr": False},
        {"k": "ar", "name": "b", "value": 1.0, "range": None, "tr": True},
        {"k": "refresh", "u": 0.3, "z": 0.1, "chi": 1.0, "init": {}, "bound": {"a": [0.0, 2.0], "b": [0.0, 2.0]}}]),
}


def replay(ctx, payload):
    r = payload.get("replay", {})
    if "ops" in r:
        hook = Hook()
        hook.rnd = random.Random(r.get("seed", 0))
        res = C.Result()
        with patched_random(hook):
            found = search_history(r.get("polar0", True), r["ops"], hook, res, r.get("seed", 0), r.get("mode", "replay"))
        for key, what in found:
            print("FAIL", key, what)
        return 1 if found else 0
    if "lo" in r or "hi" in r:
        from tf_pwa.variable import Bound
        b = Bound(r.get("lo"), r.get("hi"), func=r.get("func"))
        print("f =", b.f, " inv =", b.inv, " df =", b.df)
        if "y" in r:
            print("y2x:", b.get_y2x(r["y"]), "x2y(y2x):", b.get_x2y(b.get_y2x(r["y"])))
        if "x" in r:
            print("x2y:", b.get_x2y(r["x"]), "dydx:", b.get_dydx(r["x"]), "d2ydx2:", b.get_d2ydx2(r["x"]))
        return 1
    print(payload)
    return 0


MANIFEST = {
    "text": "Lean theorems about TfPwaV.Vars.step, a statement-by-statement state-machine model of VarsManager (25 public calls), generic over the value arithmetic (so they hold for IEEE doubles). For EVERY well-phased history (create; fix/free; tie; bound; arbitrary interleavings), with repeated / overlapping set_same / sameas / set_share_r calls on real and complex names: the free list has no duplicates, only bound names, no two free names share a variable object and every same_list group has at most one free member (inv_reachable for the pre-fix set_same; inv_reachable_patched / counted_once_every_named_history for the set_same of the current tree (commit 647ec00) under the naming hypothesis WellNamed, shown necessary by the kernel-decided counterexample well_named_needed; no separation hypothesis, i.e. also when a complex parameter is tied as a whole AND through its parts). tied_stays_tied_partial / tie_groups_read_equal: if in addition every complex parameter is tied as a whole or through its parts, not both (WellSeparated, a decidable predicate evaluated by the Lean definition on every generated history), all members of every same_list group are bound to one object and read the same value, groups are pairwise disjoint and only grow (ties_only_grow); tied_stays_tied_refuted_outside: kernel-decided witness that outside WellSeparated a later call breaks an earlier tie (reproduced on the real VarsManager: listed finding set_same:whole-and-part:tie-broken). In every state satisfying the invariant the patched set_same binds all listed names and all members of merged groups to one object (set_same_ties_patched, _cplx); in EVERY state set_all(list)/set_trans_var/refresh_vars never move a parameter whose object has no free name, set/set_all(dict)/rp2xy/xy2rp move only objects of names they assign (fixed_frame_bulk, frame_targeted, coordinate_op_frame_partial with the shared-radius witness shared_radius_coordinate_op_moves_partner); names bound to one object stay bound and read equal through every history of value-level calls (bindings_stable, tied_read_equal); set_all(get_all_dic()) = identity on the whole state when no masked name is bound (getall_setall_id, getall_setall_id_partial) and writes the mask otherwise (witness). Over the reals: xy->polar and the sign step of std_polar preserve the complex value with r>=0, _std_polar_angle lands in [-pi,pi) preserving e^{i phi}; for the three built-in Bound forms x2y(y2x y)=y on the range, clipping outside, x2y maps R into the range, dydx and d2ydx2 are the derivatives (HasDerivAt). Custom Bound expressions (Props/C16b): an expression AST (x, constants, + - * /, neg, exp, log, sin, cos, tanh, sqrt, natural powers) with eval and symbolic diff; diff_is_deriv: for EVERY expression and every real x satisfying the side conditions (denominators != 0, log/sqrt arguments > 0; Dom, decided by the executable domB: domB_decides_dom) HasDerivAt (eval e) (eval (diff e) x) x; Dom is closed under diff, so the second slope and every higher one are derivatives too (second_slope_is_deriv, every_order_is_deriv); expressions without / log sqrt have no side condition (smooth_everywhere); for a+(b-a)/(1+exp(-x)), a+exp(x), b-exp(-x), (a+b)/2+(b-a)/2*tanh(x): closed forms of value / slope / second slope at every real x, range strictly inside the bounds and strict monotonicity; the three built-in forms written in the AST agree with the Bound model (builtin_forms_agree).",
    "note": "Variant flags of the shared model: besides fixSame / fixStd the two C08 repairs inside VarsManager (Cfg.stdFree: standard_complex skips a complex variable unless both parts are free names; Cfg.boundHead: set_bound registers under bound_name(name), the first entry of the tie group) are probed on the real object in every run and passed to the model (`C16 histv`), default false = the tree as it is; the C16 theorems hold for every Cfg. The model is tied to tf_pwa.variable by a differential run: seeded well-phased histories (5-60 calls, real/complex names, Variable shapes; modes safe / wild / mixed = overlapping ties of complex parameters as a whole and through parts) on a real VarsManager and on the model, comparing the canonical state (free list in order, partition of names by object identity, values, flags, complex_vars, same_list, bnd_dic keys, init_val keys, polar) and the call result after EVERY call; bit-exact until the first transcendental op of a history, 1e-12 afterwards; the hypotheses tieOK / sepOK of the history theorems are computed by the Lean definitions (C16S) and compared with their renderings on the real object, and on every history satisfying them the conclusion (each same_list group on one object) is checked on the real object; Bound functions and utils.std_polar on grids incl. end points. Custom expressions: the harness parses the string with its own parser, sends the AST to the Float instance of the same template the theorems are about and compares eval / diff / diff-of-diff with get_x2y / get_dydx / get_d2ydx2 of the real Bound (sympy) on grids to 1e-12 (7 strings quick, 14 thorough, incl. the built-in forms through the generic path); the search checks x2y(y2x(y)) = y, range and finite-difference slopes. The harness observes whether the tree has the unpatched or patched set_same / std_polar and selects the model variant. Not proved, only validated: that sympy's diff / solve compute the derivative / inverse of the parsed expression (grids); TensorFlow/sympy numerics; histories outside WellNamed. Five findings of this check were repaired in /repo (c575cdd, e978164, 647ec00; kind 'fixed' in known_findings.jsonl); three remain listed (shared-radius coordinate ops, set_all(get_all_dic()) under a mask, a tie lost when a complex parameter is tied as a whole and through a part).",
    "technique": "Lean 4 proof (induction over operation histories of an executable state-machine model; structural induction over an expression AST with Mathlib HasDerivAt; real analysis for Bound / polar forms) + differential correspondence after every call + model-independent invariant search on the real object",
}
