"""C01 (boost clause) — correspondence of the model-level statements of Props/C01g.lean with the real `cal_angle`.

For seeded events (parent moving or at rest) and seeded common Lorentz transformations given as SL(2,C) elements
A = U1 * diag(exp(-eta/2), exp(eta/2)) * U2 (U in SU(2): every element of SL(2,C) has this form), the real
`tf_pwa.cal_angle.infer_momentum / cal_chain_boost / cal_helicity_angle` are run on the event and on its image, and

 (a) `lor A p` of the Lean Float model (templates/LorentzSL.lean.in) is compared with a numpy oracle (A herm(p) A^dagger);
 (b) `lor (restM P) q` of the model with the real `LorentzVector.rest_vector(P, q)`          (rest_vector_is_restM);
 (c) the model's Wigner element W = restM(LP) A restM(P)^-1 with the numpy oracle (algebraic boosts) and its SU(2)
     residuals                                                                                       (wigner_rotation);
 (d) EVERY rest-frame momentum the real `cal_chain_boost` stores for the image event with `lor W` (Lean) of the one it
     stores for the event — all chains, all decays, all particles                       (wigner_rotation, rest_frames_rotate);
 (e) below the top vertex: polar angles of every vertex and azimuths two or more levels below the top, computed by the real
     `cal_helicity_angle` with the code's default axes (base_z = parent direction, base_x = (1,0,0)), are equal, and the
     rapidities `LorentzVector.omega(rest_p)` are equal                  (below_top_invariant_boost, rapidities_boost_invariant);
 (f) with base axes (z', x') for the image event and (R^-1 z', R^-1 x') for the event, ALL angles (top vertex included) of
     the real `cal_helicity_angle` are equal                                                          (boost_is_axes_change).
Tolerance 1e-9 (relative to the energy scale for momenta, absolute for angles; azimuths of directions within 1e-4 of the
polar axis are counted as ill-conditioned and skipped).
"""
import math

import numpy as np

import common as C

TOL = 1e-9


def _su2(rng, n):
    q = rng.normal(size=(n, 4))
    q /= np.linalg.norm(q, axis=1, keepdims=True)
    a = q[:, 0] + 1j * q[:, 1]
    c = q[:, 2] + 1j * q[:, 3]
    U = np.empty((n, 2, 2), dtype=complex)
    U[:, 0, 0] = a; U[:, 0, 1] = -np.conj(c); U[:, 1, 0] = c; U[:, 1, 1] = np.conj(a)
    return U


def rand_sl2c(rng, n, eta_max):
    eta = rng.uniform(0.05, eta_max, n)
    D = np.zeros((n, 2, 2), dtype=complex)
    D[:, 0, 0] = np.exp(-eta / 2); D[:, 1, 1] = np.exp(eta / 2)
    A = _su2(rng, n) @ D @ _su2(rng, n)
    k = n // 6  # a few pure rotations (eta = 0) and pure boosts along the axes
    A[:k] = _su2(rng, k)
    return A


def herm_np(p):
    """(n,4) -> (n,2,2), the parametrisation of templates/SL2C.lean.in"""
    H = np.empty(p.shape[:-1] + (2, 2), dtype=complex)
    H[..., 0, 0] = p[..., 0] + p[..., 3]
    H[..., 0, 1] = -p[..., 1] - 1j * p[..., 2]
    H[..., 1, 0] = -p[..., 1] + 1j * p[..., 2]
    H[..., 1, 1] = p[..., 0] - p[..., 3]
    return H


def unherm_np(H):
    t = (H[..., 0, 0].real + H[..., 1, 1].real) / 2
    z = (H[..., 0, 0].real - H[..., 1, 1].real) / 2
    x = -(H[..., 0, 1].real + H[..., 1, 0].real) / 2
    y = (H[..., 1, 0].imag - H[..., 0, 1].imag) / 2
    return np.stack([t, x, y, z], -1)


def lor_np(A, p):
    return unherm_np(A @ herm_np(p) @ np.conj(np.swapaxes(A, -1, -2)))


def boost_to_rest_np(P):
    """the Hermitian positive element of SL(2,C) that maps herm(P) to m*1: (m + herm(E, -P)) / sqrt(2m(E+m))"""
    m = np.sqrt(P[..., 0] ** 2 - np.sum(P[..., 1:] ** 2, -1))
    Pt = np.concatenate([P[..., :1], -P[..., 1:]], -1)
    X = herm_np(Pt)
    I = np.eye(2)
    return (m[..., None, None] * I + X) / np.sqrt(2 * m * (P[..., 0] + m))[..., None, None]


def m8(M):
    return [M[0, 0].real, M[0, 0].imag, M[0, 1].real, M[0, 1].imag, M[1, 0].real, M[1, 0].imag, M[1, 1].real, M[1, 1].imag]


def fl(xs):
    return " ".join(C.f2h(float(x)) for x in xs)


def real_chain_data(ca, LV, dg, names, plist, base_z, base_x):
    """run the real infer_momentum / cal_chain_boost / cal_helicity_angle for every chain of the decay group.
    returns list over chains of (chain, {(decay_str, particle_str): rest_p (n,4)}, {(decay_str, particle_str): (alpha, beta, depth)},
    {(decay_str, particle_str): omega})"""
    byname = {str(p): p for p in dg.outs}
    out = []
    for chain in dg.chains:
        data = {byname[nm]: {"p": np.array(p)} for nm, p in zip(names, plist)}
        data = ca.infer_momentum(data, chain)
        part = ca.cal_chain_boost(data, chain)
        hel = ca.cal_helicity_angle(data, chain, base_z=base_z, base_x=base_x)
        # depth of every decay below the top
        depth = {}
        core_of = {}
        for dec in chain:
            for j in dec.outs:
                core_of[j] = dec
        for dec in chain:
            d, c = 0, dec.core
            while c in core_of:
                d += 1
                c = core_of[c].core
            depth[dec] = d
        rest, ang, om = {}, {}, {}
        for dec in chain:
            for j, p in part[dec]["rest_p"].items():
                rest[(str(dec), str(j))] = np.asarray(p, dtype=float)
            for j in dec.outs:
                a = hel[dec][j]["ang"]
                ang[(str(dec), str(j))] = (np.asarray(a["alpha"], dtype=float), np.asarray(a["beta"], dtype=float), depth[dec])
                om[(str(dec), str(j))] = np.asarray(LV.omega(part[dec]["rest_p"][j]), dtype=float)
        out.append((str(chain), rest, ang, om))
    return out


def correspond_wigner(ctx, res, builds):
    """builds: list of Built structures (harness/c01.py) to run on"""
    import tensorflow as tf
    from tf_pwa import cal_angle as ca
    from tf_pwa.angle import LorentzVector as LV
    import c01

    rng = np.random.Generator(np.random.Philox(ctx.seed + 4004))
    n_ev = 12 if ctx.quick else 60
    eta_max = 2 * math.atanh(0.97)
    lines, plan = [], []
    stat = {"lor": 0.0, "restm": 0.0, "W": 0.0, "su2": 0.0, "rest_p": 0.0, "below": 0.0, "omega": 0.0, "axes": 0.0,
            "n_rest_p": 0, "n_angles": 0, "skipped_ill": 0, "structures": [], "nontrivial": 0, "events": 0, "max_rot": 0.0, "max_beta_image": 0.0}
    first_bad = {}

    def bad(kind, what, detail):
        if kind not in first_bad:
            first_bad[kind] = (what, detail)

    for b in builds:
        dg = b.amp.decay_group
        p0 = c01.phsp(b, n_ev, ctx.seed * 31 + 17 + len(stat["structures"]))
        n = len(p0[0])
        # half of the events: parent moving (pre-boost with the harness' own numpy boost), the rest: parent at rest (phase-space output)
        v = c01.rand_dir(rng, n) * rng.uniform(0.2, 0.9, (n, 1))
        k_slow = max(1, n // 6)  # slow parents (beta 1e-3 .. 0.1): the neighbourhood of the guard of LorentzVector.boost
        v[:k_slow] = c01.rand_dir(rng, k_slow) * (10.0 ** rng.uniform(-3, -1, (k_slow, 1)))
        v[n // 2:] = 0.0
        p = [c01.apply_boost(x, v) for x in p0]
        A = rand_sl2c(rng, n, eta_max)
        P = np.sum(p, 0)
        q = [lor_np(A, x) for x in p]  # the image event (numpy oracle)
        LP = np.sum(q, 0)
        scale = float(np.max(LP[:, 0]))
        W_np = boost_to_rest_np(LP) @ A @ np.linalg.inv(boost_to_rest_np(P))
        Winv = np.linalg.inv(W_np)
        # rotation angle of the Wigner rotation: cos(angle/2) = |Re tr W| / 2
        rot_angle = 2 * np.arccos(np.clip(np.abs(np.trace(W_np, axis1=1, axis2=2).real) / 2, 0, 1))
        stat["events"] += n
        stat["nontrivial"] += int(np.sum(rot_angle > 1e-2))
        stat["max_rot"] = max(stat["max_rot"], float(rot_angle.max()))
        stat["max_beta_image"] = max(stat["max_beta_image"], float(np.max(np.linalg.norm(LP[:, 1:], axis=1) / LP[:, 0])))

        def rot_np(M, vec):
            return lor_np(M, np.concatenate([np.zeros((len(vec), 1)), vec], -1))[:, 1:]

        # the code's default axes (ConfigLoader: random_z True, center_mass False)
        def default_axes(Ptot):
            bz = np.tile(np.array([0.0, 0.0, 1.0]), (len(Ptot), 1))
            m = np.linalg.norm(Ptot[:, 1:], axis=1) < 1e-5
            bz = np.where(m[:, None], bz, Ptot[:, 1:])
            bx = np.tile(np.array([1.0, 0.0, 0.0]), (len(Ptot), 1))
            return bz, bx

        bz0, bx0 = default_axes(P)
        bz1, bx1 = default_axes(LP)
        try:
            d0 = real_chain_data(ca, LV, dg, b.order, p, bz0, bx0)
            d1 = real_chain_data(ca, LV, dg, b.order, q, bz1, bx1)
            # the event itself with the pulled-back axes of the image event
            d2 = real_chain_data(ca, LV, dg, b.order, p, rot_np(Winv, bz1), rot_np(Winv, bx1))
        except Exception as e:
            res.broke("correspondence wigner: the real infer_momentum / cal_chain_boost / cal_helicity_angle raised on structure %s" % b.st["name"],
                      "%s: %s" % (type(e).__name__, str(e)[:300]))
            continue
        stat["structures"].append(b.st["name"])
        # --- python-side comparisons that need no model: (e), (f)
        for (cn, r0, a0, o0), (_, r1, a1, o1), (_, r2, a2, o2) in zip(d0, d1, d2):
            for key in a0:
                al0, be0, dep = a0[key]
                al1, be1, _ = a1[key]
                al2, be2, _ = a2[key]
                ill = np.abs(np.sin(be0)) < 1e-4
                stat["skipped_ill"] += int(ill.sum())
                # (f): all angles, image event with (z', x') vs event with pulled-back axes
                e_b = np.abs(be1 - be2)
                e_a = np.where(ill, 0.0, np.abs(np.angle(np.exp(1j * (al1 - al2)))))
                stat["axes"] = max(stat["axes"], float(e_b.max()), float(e_a.max()))
                stat["n_angles"] += 2 * len(be0)
                k = np.where((e_b > TOL) | (e_a > TOL))[0]
                if len(k):
                    i = int(k[0])
                    bad("axes", "boost_is_axes_change fails on the implementation: angles of the transformed event with axes (z', x') differ from the angles of the event with axes (R^-1 z', R^-1 x')",
                        {"structure": b.st["name"], "chain": cn, "decay/particle": key, "alpha,beta (image)": [float(al1[i]), float(be1[i])],
                         "alpha,beta (event, pulled-back axes)": [float(al2[i]), float(be2[i])], "event": [x[i].tolist() for x in p], "A": m8(A[i])})
                # (e): below the top vertex with the default axes on both sides
                if dep >= 1:
                    e_b = np.abs(be1 - be0)
                    e_a = np.where(ill, 0.0, np.abs(np.angle(np.exp(1j * (al1 - al0))))) if dep >= 2 else np.zeros_like(e_b)
                    stat["below"] = max(stat["below"], float(e_b.max()), float(e_a.max()))
                    k = np.where((e_b > TOL) | (e_a > TOL))[0]
                    if len(k):
                        i = int(k[0])
                        bad("below", "below_top_invariant_boost fails on the implementation: an angle below the top vertex changes under a common Lorentz transformation",
                            {"structure": b.st["name"], "chain": cn, "decay/particle": key, "depth": dep, "before": [float(al0[i]), float(be0[i])],
                             "after": [float(al1[i]), float(be1[i])], "event": [x[i].tolist() for x in p], "A": m8(A[i])})
            for key in o0:
                e = np.abs(o1[key] - o0[key]) / np.maximum(1.0, np.abs(o0[key]))
                # omega = acosh(gamma) loses digits as gamma -> 1: forward error eps/(gamma-1)
                g = np.cosh(o0[key])
                tol = np.maximum(TOL, 1e-15 / np.maximum(g - 1, 1e-300) / np.maximum(o0[key], 1e-300))
                stat["omega"] = max(stat["omega"], float(np.max(e / tol)) * TOL)
                k = np.where(e > tol)[0]
                if len(k):
                    i = int(k[0])
                    bad("omega", "rapidities_boost_invariant fails on the implementation: LorentzVector.omega(rest_p) changes under a common Lorentz transformation",
                        {"structure": b.st["name"], "chain": cn, "decay/particle": key, "before": float(o0[key][i]), "after": float(o1[key][i])})
        # --- model queries
        for i in range(n):
            a8 = fl(m8(A[i]))
            for x, y in zip(p, q):
                lines.append("C01g lor %s %s" % (a8, fl(x[i])))
                plan.append(("lor", y[i], scale, b, i, None))
            lines.append("C01g wig %s %s" % (a8, fl(P[i])))
            plan.append(("wig", W_np[i], 1.0, b, i, None))
            sinth = np.linalg.norm(P[i, 1:3]) / max(np.linalg.norm(P[i, 1:]), 1e-300)
            moving = np.linalg.norm(P[i, 1:]) / P[i, 0] > 1e-3
            for x in p:
                if moving and sinth < 1e-3:
                    stat["skipped_ill"] += 1
                    continue
                rv = np.asarray(LV.rest_vector(tf.constant(P[i:i + 1]), tf.constant(x[i:i + 1])), dtype=float)[0]
                lines.append("C01g restm %s %s" % (fl(P[i]), fl(x[i])))
                plan.append(("restm", rv, float(P[i, 0]), b, i, None))
            w8 = fl(m8(W_np[i]))
            for (cn, r0, _, _), (_, r1, _, _) in zip(d0, d1):
                for key in r0:
                    lines.append("C01g lor %s %s" % (w8, fl(r0[key][i])))
                    plan.append(("rest_p", r1[key][i], max(float(np.max(np.abs(r1[key][i]))), float(np.max(np.abs(r0[key][i])))), b, i, (cn, key, r0[key][i], A[i], [x[i] for x in p])))
    if not lines:
        return 0
    out = ctx.model.query(lines)
    for line, (kind, want, sc, b, i, extra) in zip(out, plan):
        try:
            got = np.array([C.h2f(s) for s in line.split()])
        except Exception:
            res.broke("correspondence wigner: the Lean model LorentzSLF answered %r" % line[:80], {"kind": kind})
            return len(lines)
        if kind == "wig":
            Wl = np.array([[got[0] + 1j * got[1], got[2] + 1j * got[3]], [got[4] + 1j * got[5], got[6] + 1j * got[7]]])
            e = float(np.max(np.abs(Wl - want)))
            stat["W"] = max(stat["W"], e)
            stat["su2"] = max(stat["su2"], float(np.max(np.abs(got[8:]))))
            if e > 1e-8 or np.max(np.abs(got[8:])) > 1e-8:
                bad("W", "the model's Wigner element restM(LP) A restM(P)^-1 is not the SU(2) element of the numpy oracle",
                    {"structure": b.st["name"], "model": got[:8].tolist(), "oracle": m8(want), "su2_residuals": got[8:].tolist()})
            continue
        e = float(np.max(np.abs(got - want))) / max(sc, 1e-300)
        stat[kind] = max(stat[kind], e)
        if kind == "rest_p":
            stat["n_rest_p"] += 1
        if e > TOL:
            if kind == "lor":
                bad("lor", "the model's `lor A p` differs from the numpy oracle A herm(p) A^dagger", {"model": got.tolist(), "oracle": want.tolist()})
            elif kind == "restm":
                bad("restm", "rest_vector_is_restM fails on the implementation: LorentzVector.rest_vector(P, q) != lor (restM P) q",
                    {"structure": b.st["name"], "rest_vector (real)": want.tolist(), "model": got.tolist()})
            else:
                cn, key, r0, Ai, ev = extra
                bad("rest_p", "wigner_rotation / rest_frames_rotate fails on the implementation: a rest-frame momentum of cal_chain_boost on the transformed event is not R times the one on the event",
                    {"structure": b.st["name"], "chain": cn, "decay/particle": key, "rest_p(event)": r0.tolist(), "R rest_p(event) (model)": got.tolist(),
                     "rest_p(transformed event) (real)": want.tolist(), "A": m8(Ai), "event": [x.tolist() for x in ev]})
    res.coverage["wigner"] = {
        "structures": stat["structures"], "events_per_structure": n_ev, "rest_frame_momenta_compared": stat["n_rest_p"], "angles_compared": stat["n_angles"],
        "ill_conditioned_skipped": stat["skipped_ill"], "tolerance": TOL, "events": stat["events"],
        "events_with_wigner_rotation_angle_above_0.01": stat["nontrivial"], "largest_wigner_rotation_angle": stat["max_rot"],
        "largest_parent_velocity_after": stat["max_beta_image"], "worst_rapidity_rel_scaled": stat["omega"],
        "worst_lor_vs_numpy": stat["lor"], "worst_restM_vs_rest_vector": stat["restm"], "worst_W_vs_numpy": stat["W"], "worst_su2_residual": stat["su2"],
        "worst_rest_p_rel": stat["rest_p"], "worst_below_top_angle_abs": stat["below"], "worst_axes_change_angle_abs": stat["axes"],
    }
    for kind, (what, detail) in first_bad.items():
        res.broke("correspondence wigner (%s): %s" % (kind, what), detail)
        if getattr(ctx, "hint", None) is None:
            ctx.hint = detail
    return len(lines) + stat["n_angles"]
