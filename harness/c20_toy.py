"""C20 (part h) — the toy-generation drivers: config_loader/sample.py wrappers, generate_toy_o, gen_random_charge,
applications.gen_data / gen_mc.  Recording harness + correspondence with templates/Toy.lean.in + oracle checks."""
import contextlib
import io
import os
import shutil
import tempfile
import types

import numpy as np

import common as C

TWO20 = float(2 ** 20)


def bits(xs):
    return " ".join(C.f2h(float(x)) for x in xs)


def unbits(s):
    return [C.h2f(t) for t in s.split()] if s.strip() else []


def evs(s):
    return [tuple(int(x) for x in t.split(":")) for t in s.split(",")] if s else []


@contextlib.contextmanager
def quiet():
    with contextlib.redirect_stdout(io.StringIO()):
        yield


class Stop(Exception):
    pass


# =====================================================================================================
# 1. generate_toy / generate_toy2 / generate_toy_p on a stub configuration, every keyword path
# =====================================================================================================

CFG_VALUES = ["absent", None, 8.0, 0.125, 16.0]
WKINDS = ["flat", "grow", "spike", "zeros", "tie"]


def toy_scenarios(seed, n):
    rng = np.random.Generator(np.random.Philox(seed))
    out = []
    for i in range(n):
        via = ["toy", "toy_p", "toy2"][i % 3]
        scn = {"via": via, "path": "gen" if (via != "toy_p" and i % 2 == 0) else "gen_p",
               "kind": WKINDS[(i // 3) % len(WKINDS)],
               "N": int(rng.choice([1, 2, 3, 7, 20, 50, 133])), "maxN": int(rng.choice([1, 2, 5, 16, 40, 100, 1000])),
               "force": bool(i % 4 != 1), "imp": bool(i % 5 in (1, 3)), "cfg": CFG_VALUES[(i // 2) % len(CFG_VALUES)],
               "include_charge": bool(i % 7 in (0, 2, 3)), "seed": int(rng.integers(0, 2 ** 31))}
        if scn["N"] > 60 and scn["maxN"] < 16:
            scn["maxN"] = 40
        if scn["kind"] == "tie" and scn["cfg"] in (0.125, 16.0):
            scn["cfg"] = 8.0
        out.append(scn)
    return out


def _weights(kind, rng, k, n):
    if kind == "flat":
        return rng.integers(1, 33, size=n) / 8.0
    if kind == "grow":
        return rng.integers(0, 65, size=n) / 64.0 * float(2 ** min(k // 2, 6)) * (1 + (k % 2) * 0.25)
    if kind == "spike":
        w = rng.integers(0, 17, size=n) / 16.0
        return np.where(rng.random(n) < 0.03, w * float(3 + min(k, 8)), w)
    if kind == "zeros":
        w = rng.integers(0, 9, size=n) / 8.0
        return np.where(rng.random(n) < 0.6, 0.0, w)
    if kind == "tie":
        return rng.integers(0, 65, size=n) / 8.0
    raise ValueError(kind)


def run_toy(scn, max_iter=400):
    """Run the real wrapper on recorded streams; the stub configuration's amplitude is a fixed function of the event
    (its recorded weight column)."""
    import tensorflow as tf
    from unittest import mock
    from tf_pwa.generator import generator as G
    import tf_pwa.config_loader.sample as S

    rng = np.random.Generator(np.random.Philox(scn["seed"]))
    rec = {"batches": [], "bounds": [], "given": [], "error": None}

    def raw(n):
        k = len(rec["batches"])
        if k >= max_iter:
            raise Stop()
        n = int(n)
        w = np.asarray(_weights(scn["kind"], rng, k, n), dtype=np.float64)
        rec["batches"].append({"n": n, "w0": w, "imp": None, "rnd": None, "thin": np.zeros(0), "cu": None, "charge": None,
                               "key": None, "amp_called": False})
        return {"b": tf.constant(np.full(n, k, dtype=np.int64)), "i": tf.constant(np.arange(n, dtype=np.int64)),
                "w": tf.constant(w, dtype=tf.float64)}

    def inner(data):
        return data["p4"] if "p4" in data else data

    def amp(data):
        rec["batches"][-1]["amp_called"] = True
        return inner(data)["w"]

    def eval_amplitude(*p, extra=None):
        extra = {} if extra is None else extra
        data = p[0] if len(p) == 1 else extra
        cur = rec["batches"][-1]
        if "charge" in extra:
            cur["charge"] = extra["charge"].numpy()
            cur["key"] = True
        return amp(data)

    def cal_angle(p, charge=None, **kw):
        cur = rec["batches"][-1]
        cur["charge"] = None if charge is None else np.asarray(charge)
        return {str(k): v for k, v in p.items()}

    def imp(data):
        d = 0.5 + 0.25 * tf.cast(inner(data)["i"] % 3, tf.float64)
        rec["batches"][-1]["imp"] = d.numpy()
        return d

    def fake_uniform(shape, *a, dtype=tf.float32, **kw):
        shp = tuple(int(s) for s in tf.TensorShape(shape).as_list())
        n = int(np.prod(shp)) if shp else 1
        cur = rec["batches"][-1]
        if not cur["amp_called"] and cur["rnd"] is None:
            # gen_random_charge, inside the proposal generator the wrapper built
            u = rng.integers(0, 2 ** 20, size=n) / TWO20
            u[rng.random(n) < 0.15] = 0.5
            cur["cu"] = u
            return tf.constant(u.reshape(shp), dtype=dtype)
        if scn["kind"] == "tie":
            u = rng.integers(0, 64, size=n) / 64.0
        else:
            u = rng.integers(0, 2 ** 20, size=n) / TWO20
        if cur["rnd"] is None:
            cur["rnd"] = u
        else:
            cur["thin"] = u
        return tf.constant(u.reshape(shp), dtype=dtype)

    orig = G.single_sampling2

    def wrap(phsp_, amp_, n_, max_weight=None, importance_f=None):
        rec["given"].append(None if max_weight is None else float(max_weight))
        d, m = orig(phsp_, amp_, n_, max_weight, importance_f)
        rec["bounds"].append(float(m))
        return d, m

    seen = {}
    origm = S.multi_sampling

    def wrapm(*a, **k):
        seen["max_weight"] = k.get("max_weight", "absent")
        seen["kw"] = sorted(k)
        r, st = origm(*a, **k)
        seen["status"] = st
        return r, st

    cfg = types.SimpleNamespace(get_decay=lambda *a, **k: None, get_amplitude=lambda *a, **k: amp,
                                eval_amplitude=eval_amplitude, data=types.SimpleNamespace(cal_angle=cal_angle))
    if scn["cfg"] != "absent":
        cfg.max_amplitude = None if scn["cfg"] is None else tf.constant(scn["cfg"], dtype=tf.float64)
    kw = {"force": scn["force"], "importance_f": imp if scn["imp"] else None, "max_N": scn["maxN"],
          "include_charge": scn["include_charge"]}
    try:
        with mock.patch.object(tf.random, "uniform", fake_uniform), mock.patch.object(G, "single_sampling2", wrap), \
                mock.patch.object(S, "multi_sampling", wrapm), quiet():
            if scn["via"] == "toy_p":
                ret = S.generate_toy_p(cfg, scn["N"], gen_p=raw, **kw)
            else:
                fn = S.generate_toy if scn["via"] == "toy" else S.generate_toy2
                if scn["path"] == "gen":
                    ret = fn(cfg, scn["N"], gen=raw, **kw)
                else:
                    ret = fn(cfg, scn["N"], gen_p=raw, **kw)
    except Stop:
        rec["error"] = "no-exit"
        return rec
    a, mw = seen["status"]
    rec["passed"] = None if seen["max_weight"] is None else float(seen["max_weight"])
    ma = getattr(cfg, "max_amplitude", "absent")
    rec["cfg_after"] = "absent" if isinstance(ma, str) else None if ma is None else float(ma)
    r = inner(ret)
    rec["ret"] = list(zip(r["b"].numpy().tolist(), r["i"].numpy().tolist()))
    rec["ret_w"] = [float(x) for x in r["w"].numpy()]
    rec["ret_charge"] = None
    for key in ("charge_conjugation", "charge"):
        if key in ret:
            rec["ret_charge"] = [float(x) for x in np.asarray(ret[key])]
    rec["N_gen"], rec["N_total"], rec["eff"] = int(a.N_gen), int(a.N_total), float(a.eff)
    rec["maxw"] = None if mw is None else float(mw)
    for b in rec["batches"]:
        b["w"] = b["w0"] if b["imp"] is None else b["w0"] / b["imp"]
    return rec


def charge_path(scn):
    if scn["via"] == "toy_p":
        return "pcharge" if scn["include_charge"] else "pplain"
    return "genp" if scn["path"] == "gen_p" else None


def toy_line(scn, rec):
    which = {"toy": "1", "toy2": "2", "toy_p": "p"}[scn["via"]]
    cfg = scn["cfg"]
    toks = ["C20t", "toy", which, "0" if cfg == "absent" else "1", "N" if cfg in ("absent", None) else C.f2h(cfg),
            "1" if scn["imp"] else "0", str(scn["N"]), str(scn["maxN"]), "1" if scn["force"] else "0", str(len(rec["batches"]))]
    for b in rec["batches"]:
        toks.append(C.f2h(float(b["n"])))
        toks.append(bits(b["w0"]))
        if scn["imp"]:
            toks.append(bits(b["imp"]))
        toks.append(bits(b["rnd"]))
        toks.append(C.f2h(float(len(b["thin"]))))
        if len(b["thin"]):
            toks.append(bits(b["thin"]))
    return " ".join(t for t in toks if t != "")


def opt(s):
    return None if s == "N" else C.h2f(s)


def compare_toy(scn, rec, line):
    """returns list of differing field names (model vs implementation)"""
    f = line.split("|")
    if len(f) != 12:
        return ["bad-answer:" + line[:120]]
    model = {"passed": opt(f[0]), "cfg_after": opt(f[1]), "reqs": [int(x) for x in f[2].split()], "bounds": unbits(f[3]),
             "maxw": opt(f[5]), "N_gen": int(f[6]), "N_total": int(f[7]), "eff": C.h2f(f[8]), "done": f[9] == "1",
             "ret": evs(f[10]), "wrapper_text_consistent": f[11] == "1"}
    ca = rec["cfg_after"]
    impl = {"passed": rec["passed"], "cfg_after": None if ca == "absent" else ca, "reqs": [b["n"] for b in rec["batches"]],
            "bounds": rec["bounds"], "maxw": rec["maxw"], "N_gen": rec["N_gen"], "N_total": rec["N_total"], "eff": rec["eff"],
            "done": True, "ret": rec["ret"], "wrapper_text_consistent": True}
    diff = [k for k in impl if impl[k] != model[k]]
    if ca == "absent":
        diff.append("config.max_amplitude attribute not created")
    return diff


def check_toy(scn):
    """Property statement on the implementation (independent of the model): exact count, weight <= the bound in force,
    accept rule, restart handling, charge assignment."""
    rec = run_toy(scn)
    bad = []
    if rec["error"]:
        return bad
    name = {"toy": "generate_toy", "toy2": "generate_toy2", "toy_p": "generate_toy_p"}[scn["via"]]
    N, ret = scn["N"], rec["ret"]
    if scn["force"] and len(ret) != N:
        bad.append((name + ":count", "%s(N=%d, max_N=%d, force=True, importance_f=%s, config.max_amplitude=%s) returned %d events" % (
            name, N, scn["maxN"], scn["imp"], scn["cfg"], len(ret))))
    if not scn["force"] and len(ret) < N:
        bad.append((name + ":count", "%s(N=%d, force=False) returned only %d events" % (name, N, len(ret))))
    if len(set(ret)) != len(ret):
        bad.append((name + ":duplicate", "an event was returned twice"))
    for (k, i) in ret:
        b = rec["batches"][k]
        wi, bound = float(b["w"][i]), rec["bounds"][k]
        if not (wi <= bound):
            bad.append((name + ":weight-above-bound", "event %d of batch %d has weight %r above the bound %r it was accepted with" % (i, k, wi, bound)))
            break
        if not (b["rnd"][i] * bound < wi):
            bad.append((name + ":accept-rule", "event %d of batch %d was returned although rnd*bound=%r >= w=%r" % (i, k, b["rnd"][i] * bound, wi)))
            break
    # restart handling: earlier events are re-judged exactly when a later batch needs a bound above the one handed to it
    if not scn["force"]:
        kept = []
        for k, b in enumerate(rec["batches"]):
            M, old = rec["bounds"][k], rec["given"][k]
            grow = k > 0 and old is not None and M > old and len(kept) > 0
            if grow != (len(b["thin"]) > 0):
                bad.append((name + ":thinning-trigger", "batch %d: earlier events were %sre-judged although the bound %s" % (
                    k, "" if len(b["thin"]) else "not ", "did not grow" if not grow else "grew from %r to %r" % (old, M))))
                kept = None
                break
            if grow:
                kept = [e for e, u in zip(kept, b["thin"]) if u * M / old < 1.0]
            kept += [(k, i) for i in range(b["n"]) if b["rnd"][i] * M < b["w"][i]]
        if kept is not None and kept != ret:
            bad.append((name + ":retained-set", "retained events differ from acceptance-rejection with re-judging on the same streams: got %d, expected %d" % (len(ret), len(kept))))
    # which bound the wrapper starts with / leaves behind
    want = None if (scn["imp"] or scn["cfg"] in ("absent", None)) else scn["cfg"]
    if rec["passed"] != want:
        bad.append((name + ":start-bound", "multi_sampling was started with max_weight=%r, expected %r (importance_f=%s, config.max_amplitude=%s)" % (rec["passed"], want, scn["imp"], scn["cfg"])))
    if want is None and rec["maxw"] is not None and ret:
        mx = max(float(rec["batches"][k]["w"][i]) for (k, i) in ret)
        if not (mx <= rec["maxw"]):
            bad.append((name + ":final-bound", "final max_weight %r is below a returned weight %r" % (rec["maxw"], mx)))
    # charge assignment
    path = charge_path(scn)
    inc = scn["include_charge"]
    if path in ("genp", "pcharge"):
        if rec["ret_charge"] is None or len(rec["ret_charge"]) != len(ret):
            bad.append((name + ":charge-missing", "the returned sample has no charge entry per event (include_charge=%s)" % inc))
        else:
            for (k, i), c in zip(ret, rec["ret_charge"]):
                b = rec["batches"][k]
                rnd = inc or path == "pcharge"
                exp = (1.0 if b["cu"][i] > 0.5 else -1.0) if rnd else 1.0
                if c != exp or (rnd and b["cu"] is None):
                    bad.append((name + ":charge", "event %d of batch %d carries charge %r, expected %r (include_charge=%s, u=%r)" % (
                        i, k, c, exp, inc, None if b["cu"] is None else float(b["cu"][i]))))
                    break
        if not (inc or path == "pcharge") and any(b["cu"] is not None for b in rec["batches"]):
            bad.append((name + ":charge-drawn", "random charges were drawn although include_charge=False"))
    if path == "pplain" and (rec["ret_charge"] is not None or any(b["cu"] is not None for b in rec["batches"])):
        bad.append((name + ":charge-drawn", "generate_toy_p(include_charge=False) drew or returned charges"))
    return bad


# =====================================================================================================
# 2. generate_toy_o / single_sampling
# =====================================================================================================

def toyo_scenarios(seed, n):
    rng = np.random.Generator(np.random.Philox(seed))
    out = [{"kind": "ones", "N": 2, "maxN": 1, "force": True, "seed": 1}]      # the zero-request history
    for i in range(n - 1):
        N = int(rng.choice([1, 2, 3, 7, 20, 50]))
        out.append({"kind": ["flat", "grow", "spike", "zeros", "ones"][i % 5], "N": N,
                    "maxN": int(rng.choice([1, 2, 5, 16, 40, 1000])), "force": bool(i % 3 != 1), "seed": int(rng.integers(0, 2 ** 31))})
    return out


def run_toy_o(scn, max_iter=60):
    import tensorflow as tf
    from unittest import mock
    import tf_pwa.config_loader.sample as S
    rng = np.random.Generator(np.random.Philox(scn["seed"]))
    rec = {"batches": [], "error": None}

    def phsp(config, n):
        k = len(rec["batches"])
        if k >= max_iter:
            rec["next_req"] = int(n)
            raise Stop()
        n = int(n)
        w = np.ones(n) if scn["kind"] == "ones" else np.asarray(_weights(scn["kind"], rng, k, n), dtype=np.float64)
        rec["batches"].append({"n": n, "w": w, "rnd": np.zeros(0)})
        return {"b": tf.constant(np.full(n, k, dtype=np.int64)), "i": tf.constant(np.arange(n, dtype=np.int64)),
                "w": tf.constant(w, dtype=tf.float64)}

    def fake_uniform(shape, *a, dtype=tf.float32, **kw):
        shp = tuple(int(s) for s in tf.TensorShape(shape).as_list())
        n = int(np.prod(shp)) if shp else 1
        u = np.zeros(n) if scn["kind"] == "ones" else rng.integers(0, 2 ** 20, size=n) / TWO20
        rec["batches"][-1]["rnd"] = u
        return tf.constant(u.reshape(shp), dtype=dtype)

    amp = lambda d: d["w"]
    cfg = types.SimpleNamespace(get_decay=lambda *a, **k: None, get_amplitude=lambda *a, **k: amp)
    try:
        with mock.patch.object(tf.random, "uniform", fake_uniform), mock.patch.object(S, "generate_phsp", phsp), quiet():
            ret = S.generate_toy_o(cfg, scn["N"], force=scn["force"], max_N=scn["maxN"])
    except Stop:
        rec["error"] = "no-exit"
        return rec
    rec["ret"] = list(zip(ret["b"].numpy().tolist(), ret["i"].numpy().tolist()))
    return rec


def toyo_line(scn, rec, fixed):
    toks = ["C20t", "toyo", "1" if fixed else "0", str(scn["N"]), str(scn["maxN"]), "1" if scn["force"] else "0", str(len(rec["batches"]))]
    for b in rec["batches"]:
        toks += [C.f2h(float(b["n"])), bits(b["w"]), bits(b["rnd"]), C.f2h(0.0)]
    return " ".join(t for t in toks if t != "")


def toy_o_is_fixed():
    """which request formula the tree has: the zero-request history either stalls (code as released) or not (patched)"""
    rec = run_toy_o({"kind": "ones", "N": 2, "maxN": 1, "force": True, "seed": 1}, max_iter=8)
    return not any(b["n"] == 0 for b in rec["batches"])


def check_toy_o(scn):
    rec = run_toy_o(scn)
    bad = []
    reqs = [b["n"] for b in rec["batches"]]
    if any(r < 1 for r in reqs):
        j = [r < 1 for r in reqs].index(True)
        acc = sum(int(np.sum(b["rnd"] * (np.max(b["w"]) if b["n"] else 0.0) * 1.1 < b["w"])) for b in rec["batches"][:j])
        bad.append(("generate_toy_o:zero-request", "generate_toy_o(N=%d, max_N=%d): after %d proposals, all %d accepted, the next request is %d events; the empty batch changes nothing and the loop never returns (requests %s)" % (
            scn["N"], scn["maxN"], sum(reqs[:j]), acc, reqs[j], reqs[:j + 3])))
        return bad
    if rec["error"]:
        if all(np.max(b["w"]) > 0 for b in rec["batches"] if b["n"]):
            bad.append(("generate_toy_o:no-exit", "generate_toy_o(N=%d, max_N=%d) has not returned after %d batches with positive weights" % (scn["N"], scn["maxN"], len(reqs))))
        return bad
    ret = rec["ret"]
    if scn["force"] and len(ret) != scn["N"]:
        bad.append(("generate_toy_o:count", "generate_toy_o(N=%d, max_N=%d, force=True) returned %d events" % (scn["N"], scn["maxN"], len(ret))))
    if not scn["force"] and len(ret) < scn["N"]:
        bad.append(("generate_toy_o:count", "generate_toy_o(N=%d, force=False) returned only %d events" % (scn["N"], len(ret))))
    want = [(k, i) for k, b in enumerate(rec["batches"]) for i in range(b["n"]) if b["rnd"][i] * np.max(b["w"]) * 1.1 < b["w"][i]]
    if scn["force"]:
        want = want[:scn["N"]]
    if want != ret:
        bad.append(("generate_toy_o:retained-set", "returned events differ from per-batch acceptance against 1.1*max: got %d, expected %d" % (len(ret), len(want))))
    for (k, i) in ret:
        b = rec["batches"][k]
        if not b["w"][i] <= 1.1 * np.max(b["w"]):
            bad.append(("generate_toy_o:weight-above-bound", "event above its batch bound"))
    return bad


# =====================================================================================================
# 3. gen_random_charge
# =====================================================================================================

def charge_cases(seed, n):
    rng = np.random.Generator(np.random.Philox(seed))
    out = []
    for i in range(n):
        N = int(rng.choice([0, 1, 2, 9, 40]))
        u = rng.integers(0, 2 ** 20, size=N) / TWO20
        u[rng.random(N) < 0.3] = 0.5
        if N > 2:
            u[0], u[1] = float(np.float32(0.5) + np.float32(2.0 ** -24)), float(np.float32(0.5) - np.float32(2.0 ** -25))
        out.append({"N": N, "random": bool(i % 3 != 2), "u": [float(x) for x in u]})
    return out


def run_charge(c):
    import tensorflow as tf
    from unittest import mock
    import tf_pwa.config_loader.sample as S
    calls = []

    def fake_uniform(shape, *a, dtype=tf.float32, **kw):
        calls.append(dtype)
        return tf.constant(np.asarray(c["u"], dtype=np.float64), dtype=dtype)

    with mock.patch.object(tf.random, "uniform", fake_uniform):
        ch = S.gen_random_charge(c["N"], c["random"])
    return [float(x) for x in ch.numpy()], len(calls), str(ch.dtype.name)


def check_charge(c):
    ch, ncalls, dtype = run_charge(c)
    bad = []
    exp = [(1.0 if u > 0.5 else -1.0) for u in c["u"]] if c["random"] else [1.0] * c["N"]
    if ch != exp:
        bad.append(("gen_random_charge:values", "gen_random_charge(%d, random=%s) = %s, expected %s" % (c["N"], c["random"], ch[:8], exp[:8])))
    if ncalls != (1 if c["random"] else 0):
        bad.append(("gen_random_charge:draws", "%d uniform draws for random=%s" % (ncalls, c["random"])))
    return bad


# =====================================================================================================
# 4. applications.gen_data / gen_mc on a real decay group (stub amplitude = fixed weight column, or the real amplitude)
# =====================================================================================================

MASSES = {"B": 2.00698, "C": 2.01028, "D": 0.13957}
M0 = 4.6
_CACHE = {}


def real_config():
    if "config" not in _CACHE:
        from tf_pwa.config_loader import ConfigLoader
        import c20
        with quiet():
            config = ConfigLoader(c20.real_model_config())
            rng = np.random.Generator(np.random.Philox(4242))
            config.set_params({k: v for k, v in zip(config.get_params().keys(), rng.normal(size=200)) if not k.endswith(("_mass", "_width"))})
            _CACHE["amp"] = config.get_amplitude()
        _CACHE["config"] = config
    return _CACHE["config"], _CACHE["amp"]


def gd_scenarios(seed, n):
    rng = np.random.Generator(np.random.Philox(seed))
    out = []
    for i in range(n):
        ns = int(rng.choice([3, 8, 25]))
        ndata = int(rng.choice([1, 2, 5, 12]))
        nbg_in, wbg = [(0, 0), (3, 0.5), (4, 0.75), (2, 1.0), (5, 0.1)][i % 5]
        out.append({"ns": ns, "nb": int(rng.choice([2, 5])), "Ndata": ndata, "Nbg": nbg_in, "wbg": wbg, "real": i % 6 == 5,
                    "kind": ["flat", "zeros", "tie", "spike"][i % 4], "seed": int(rng.integers(0, 2 ** 31))})
    out.append({"ns": 4, "nb": 3, "Ndata": 2, "Nbg": 4, "wbg": 0.5, "real": False, "kind": "flat", "seed": 5})   # Nmc = 0
    return out


def run_gen_data(scn):
    import tensorflow as tf
    from unittest import mock
    from tf_pwa import applications as A
    config, amp_real = real_config()
    rng = np.random.Generator(np.random.Philox(scn["seed"]))
    particles = sorted(amp_real.decay_group.outs, key=str)
    names = [str(p) for p in particles]
    tmp = tempfile.mkdtemp(prefix="c20toy_")
    rec = {"passes": [], "bg_idx": [], "error": None, "perm": None, "maxval": None}
    try:
        tf.random.set_seed(scn["seed"] % 10007)
        mcfile, bgfile, genfile = (os.path.join(tmp, f) for f in ("mc.dat", "bg.dat", "gen.dat"))
        daughters = [MASSES[nm] for nm in names]
        mc = A.gen_mc(M0, daughters, scn["ns"], mcfile)
        bg = A.gen_mc(M0, daughters, scn["nb"], bgfile)
        rec["mc_rows"], rec["npar"] = np.loadtxt(mcfile).reshape(-1, 4), len(names)
        rec["bg_rows"] = np.loadtxt(bgfile).reshape(-1, 4)
        rec["gen_mc_return_equals_file"] = bool(np.array_equal(np.asarray(mc), rec["mc_rows"]))
        ns = scn["ns"]
        if scn["real"]:
            wcol = None
        else:
            kind = scn["kind"]
            wcol = rng.integers(0, 9, size=ns) / 8.0 if kind == "tie" else _weights(kind, rng, 1, ns)
            if not np.any(wcol > 0) or kind == "tie":
                wcol[0] = 1.0     # tie: max = 1, so that u (multiples of 1/8) can equal an amplitude exactly

        class Amp:
            decay_group = amp_real.decay_group

            def __call__(self, data):
                w = amp_real(data) if wcol is None else tf.constant(wcol, dtype=tf.float64)
                rec["ampsq"] = np.asarray(w.numpy(), dtype=np.float64)
                return w

        state = {"float_pending": False, "npass": 0}

        def fake_uniform(shape, minval=0, maxval=None, dtype=tf.float32, **kw):
            n = int(np.prod([int(s) for s in shape]))
            if dtype in (tf.int64, "int64"):
                idx = rng.integers(0, int(maxval), size=n)
                if state["float_pending"]:
                    state["float_pending"] = False
                    rec["passes"][-1]["idx"] = idx
                else:
                    rec["bg_idx"] = idx
                return tf.constant(idx, dtype=tf.int64)
            state["npass"] += 1
            if state["npass"] > 200:
                raise Stop()
            g = 8 if scn["kind"] == "tie" else 2 ** 20
            u = rng.integers(0, g, size=n) / float(g) * float(maxval)
            u[rng.random(n) < 0.08] = 0.0      # the lower end of the stream: a zero amplitude must not be selected
            rec["maxval"] = float(maxval)
            rec["passes"].append({"u": u, "idx": None})
            state["float_pending"] = True
            return tf.constant(u, dtype=tf.float64)

        def fake_shuffle(arr):
            perm = rng.permutation(len(arr))
            rec["perm"] = perm
            rec["shuffle_shape"] = tuple(arr.shape)
            arr[:] = arr[perm]

        try:
            with mock.patch.object(tf.random, "uniform", fake_uniform), mock.patch.object(np.random, "shuffle", fake_shuffle), quiet():
                data = A.gen_data(Amp(), scn["Ndata"], mcfile, Nbg=scn["Nbg"], wbg=scn["wbg"], bgfile=bgfile, genfile=genfile, particles=names)
        except Stop:
            rec["error"] = "no-exit"
            return rec
        except Exception as e:  # noqa: BLE001 - gen_data without a signal event raises
            rec["error"] = "raise:" + type(e).__name__
            return rec
        rec["file_rows"] = np.loadtxt(genfile).reshape(-1, 4)
        rec["ret_p"] = {str(k): np.asarray(v["p"]) for k, v in data["particle"].items() if str(k) in names}
        rec["names"] = names
        return rec
    finally:
        shutil.rmtree(tmp, ignore_errors=True)


def gd_nbg(scn):
    return int(round(scn["wbg"] * scn["Nbg"]))


def gd_events_impl(rec):
    """identify every output event (before the shuffle) with its MC / background row block"""
    npar = rec["npar"]
    ev = rec["file_rows"].reshape(-1, npar, 4)
    inv = np.argsort(rec["perm"])
    ev = ev[inv]
    look = {}
    for tag, rows in (("s", rec["mc_rows"]), ("b", rec["bg_rows"])):
        for j, blk in enumerate(rows.reshape(-1, npar, 4)):
            look.setdefault(blk.tobytes(), []).append("%s%d" % (tag, j))
    return [look.get(e.tobytes(), ["?"])[0] for e in ev]


def gd_line(scn, rec):
    nbg = gd_nbg(scn)
    toks = ["C20t", "gdata", str(scn["Ndata"]), str(nbg), str(scn["ns"]), str(len(rec["passes"]))]
    toks += [C.f2h(float(x)) for x in rec.get("ampsq", np.zeros(scn["ns"]))]
    bg = list(rec["bg_idx"]) if len(rec["bg_idx"]) else [0] * nbg
    toks += [str(int(x)) for x in bg]
    for p in rec["passes"]:
        toks += [str(int(x)) for x in p["idx"]] + [C.f2h(float(x)) for x in p["u"]]
    return " ".join(toks)


def check_gen_data(scn):
    rec = run_gen_data(scn)
    bad = []
    nbg = gd_nbg(scn)
    nmc = scn["Ndata"] - nbg
    if not rec.get("gen_mc_return_equals_file", True):
        bad.append(("gen_mc:file", "gen_mc returns other rows than it writes"))
    if "mc_rows" in rec and rec["mc_rows"].shape[0] != scn["ns"] * rec["npar"]:
        bad.append(("gen_mc:count", "gen_mc(number=%d) wrote %d rows for %d daughters" % (scn["ns"], rec["mc_rows"].shape[0], rec["npar"])))
    if rec["error"]:
        if rec["error"].startswith("raise") and nmc > 0:
            bad.append(("gen_data:raises", "gen_data(Ndata=%d, Nbg=%d, wbg=%r) raises %s" % (scn["Ndata"], scn["Nbg"], scn["wbg"], rec["error"])))
        return bad
    if nmc <= 0:
        bad.append(("gen_data:no-signal", "gen_data returned a sample although Ndata - Nbg = %d" % nmc))
        return bad
    npar = rec["npar"]
    if rec["file_rows"].shape[0] != scn["Ndata"] * npar:
        bad.append(("gen_data:count", "gen_data(Ndata=%d, Nbg=%d, wbg=%r) wrote %d rows = %r events" % (scn["Ndata"], scn["Nbg"], scn["wbg"], rec["file_rows"].shape[0], rec["file_rows"].shape[0] / npar)))
        return bad
    if rec["perm"] is None or tuple(rec.get("shuffle_shape", ())) != (scn["Ndata"], npar, 4):
        bad.append(("gen_data:layout", "np.random.shuffle is applied to an array of shape %s, expected (events, particles, 4) = %s: rows of different events / particles get mixed" % (rec.get("shuffle_shape"), (scn["Ndata"], npar, 4))))
        return bad
    ev = gd_events_impl(rec)
    if "?" in ev:
        bad.append(("gen_data:layout", "an output event is not a row block of the MC / background file (shuffle or reshape mixes particles)"))
        return bad
    if sum(e[0] == "s" for e in ev) != nmc or sum(e[0] == "b" for e in ev) != nbg:
        bad.append(("gen_data:count", "%d signal and %d background events, expected %d and %d" % (sum(e[0] == "s" for e in ev), sum(e[0] == "b" for e in ev), nmc, nbg)))
    amx = float(np.max(rec["ampsq"]))
    if rec["maxval"] != amx:
        bad.append(("gen_data:bound", "the uniform stream is drawn up to %r, max amplitude %r" % (rec["maxval"], amx)))
    # accept rule: the signal indices are, in order, the first Nmc proposals with ampsq[idx] > u
    want = [int(i) for p in rec["passes"] for i, u in zip(p["idx"], p["u"]) if rec["ampsq"][i] > u]
    got = [int(e[1:]) for e in ev if e[0] == "s"]
    if got != want[:nmc]:
        bad.append(("gen_data:accept-rule", "signal rows %s, expected the first %d proposals with ampsq > u: %s" % (got[:10], nmc, want[:10])))
    if any(not (0 < rec["ampsq"][i] <= amx) for i in got):
        bad.append(("gen_data:weight-above-bound", "a selected MC event has amplitude outside (0, max]"))
    n_before = 0
    for p in rec["passes"][:-1]:
        n_before += int(np.sum(rec["ampsq"][p["idx"]] > p["u"]))
    if n_before >= nmc:
        bad.append(("gen_data:extra-pass", "the accept loop ran another pass although %d >= Nmc = %d events were selected" % (n_before, nmc)))
    # returned momenta = rows[p::Npar] of the file = particle p of every event
    for j, nm in enumerate(rec["names"]):
        if not np.array_equal(rec["ret_p"][nm], rec["file_rows"][j::npar]):
            bad.append(("gen_data:layout", "returned momenta of %s differ from rows %d::%d of the generated file" % (nm, j, npar)))
        m2 = rec["file_rows"][j::npar][:, 0] ** 2 - np.sum(rec["file_rows"][j::npar][:, 1:] ** 2, axis=1)
        if np.any(np.abs(m2 - MASSES[nm] ** 2) > 1e-6):
            bad.append(("gen_data:layout", "rows %d::%d do not have the mass of %s" % (j, npar, nm)))
    return bad


# =====================================================================================================
# 5. the wrappers on a small REAL ConfigLoader model, recorded (pass-through) streams
# =====================================================================================================

def run_toy_real(p):
    import tensorflow as tf
    from unittest import mock
    from tf_pwa.generator import generator as G
    import tf_pwa.config_loader.sample as S
    config, amp_real = real_config()
    tf.random.set_seed(p["seed"])
    np.random.seed(p["seed"])
    rec = {"batches": [], "bounds": [], "error": None, "calmax": 0}
    state = {"in_phsp": False, "in_multi": False}
    real_uniform = tf.random.uniform
    first = [str(k) for k in amp_real.decay_group.outs][0]

    def key_of(data):
        if "particle" in data:
            for k, v in data["particle"].items():
                if str(k) == first:
                    return np.asarray(v["p"])
        d = data["p4"] if "p4" in data else data
        for k, v in d.items():
            if str(k) == first:
                return np.asarray(v)
        raise KeyError(first)

    def charge_of(data):
        for k in ("charge_conjugation", "charge"):
            if k in data:
                return np.asarray(data[k], dtype=np.float64)
        return None

    def rec_uniform(shape, *a, **kw):
        u = real_uniform(shape, *a, **kw)
        if state["in_multi"] and not state["in_phsp"]:
            cur = rec["batches"][-1]
            if cur["rnd"] is None:
                cur["rnd"] = np.asarray(u.numpy(), dtype=np.float64)
            else:
                cur["thin"] = np.asarray(u.numpy(), dtype=np.float64)
        return u

    origm = S.multi_sampling
    seen = {}

    def wrapm(phsp, amp, N, **kw):
        def phsp2(n):
            if len(rec["batches"]) > 300:
                raise Stop()
            state["in_phsp"] = True
            try:
                d = phsp(n)
            finally:
                state["in_phsp"] = False
            rec["batches"].append({"n": int(n), "w0": None, "imp": None, "rnd": None, "thin": np.zeros(0), "p": key_of(d), "charge": charge_of(d)})
            return d

        def amp2(d):
            w = amp(d)
            if rec["batches"][-1]["w0"] is None:
                rec["batches"][-1]["w0"] = np.asarray(w.numpy(), dtype=np.float64)
            return w

        imp = kw.get("importance_f")
        if imp is not None:
            def imp2(d):
                v = imp(d)
                rec["batches"][-1]["imp"] = np.asarray(v.numpy(), dtype=np.float64)
                return v
            kw = dict(kw, importance_f=imp2)
        seen["max_weight"] = kw.get("max_weight")
        state["in_multi"] = True
        try:
            r, st = origm(phsp2, amp2, N, **kw)
        finally:
            state["in_multi"] = False
        seen["status"] = st
        return r, st

    orig1 = G.single_sampling2

    def wrap1(phsp_, amp_, n_, max_weight=None, importance_f=None):
        d, m = orig1(phsp_, amp_, n_, max_weight, importance_f)
        rec["bounds"].append(float(m))
        return d, m

    from tf_pwa.phasespace import PhaseSpaceGenerator
    origc = PhaseSpaceGenerator.cal_max_weight

    def calmax(self, *a, **k):
        if rec["batches"]:
            rec["calmax_late"] = True
        rec["calmax"] += 1
        return origc(self, *a, **k)

    kw = {"max_N": p["maxN"], "include_charge": p["include_charge"], "force": p.get("force", True)}
    if p.get("imp"):
        kw["importance_f"] = lambda d: 0.5 + tf.cast(tf.range(int(key_of(d).shape[0])) % 3, tf.float64) * 0.25
    if p.get("cal_phsp_max"):
        kw["cal_phsp_max"] = True
    if hasattr(config, "max_amplitude"):
        del config.max_amplitude
    try:
        with mock.patch.object(tf.random, "uniform", rec_uniform), mock.patch.object(S, "multi_sampling", wrapm), \
                mock.patch.object(G, "single_sampling2", wrap1), mock.patch.object(PhaseSpaceGenerator, "cal_max_weight", calmax), quiet():
            ret = getattr(config, p["fn"])(p["N"], **kw)
    except Stop:
        rec["error"] = "no-exit"
        return rec
    finally:
        # cal_max_weight mutates the generator objects built inside the call only; config.max_amplitude is reset
        if hasattr(config, "max_amplitude"):
            rec["cfg_after"] = config.max_amplitude
            del config.max_amplitude
    a, mw = seen["status"]
    look = {}
    for k, b in enumerate(rec["batches"]):
        for i, row in enumerate(b["p"]):
            look.setdefault(row.tobytes(), []).append((k, i))
    rec["ret"] = [look.get(row.tobytes(), [(-1, -1)])[0] for row in key_of(ret)]
    rec["ret_charge"] = charge_of(ret)
    rec["passed"] = None if seen["max_weight"] is None else float(seen["max_weight"])
    rec["N_gen"], rec["N_total"], rec["eff"] = int(a.N_gen), int(a.N_total), float(a.eff)
    rec["maxw"] = None if mw is None else float(mw)
    for b in rec["batches"]:
        b["w"] = b["w0"] if b["imp"] is None else b["w0"] / b["imp"]
    return rec


def real_cases(seed, quick):
    base = [
        {"fn": "generate_toy", "N": 57, "maxN": 40, "include_charge": True, "imp": False, "seed": seed + 1},
        {"fn": "generate_toy_p", "N": 41, "maxN": 64, "include_charge": True, "imp": True, "seed": seed + 2},
        {"fn": "generate_toy2", "N": 23, "maxN": 17, "include_charge": False, "imp": False, "force": False, "cal_phsp_max": True, "seed": seed + 3},
    ]
    if not quick:
        base += [dict(c, N=c["N"] * 5, maxN=c["maxN"] * 3, seed=c["seed"] + 100) for c in base]
        base.append({"fn": "generate_toy_p", "N": 30, "maxN": 20, "include_charge": False, "imp": False, "seed": seed + 9})
    return base


def real_line(p, rec):
    scn = {"via": {"generate_toy": "toy", "generate_toy2": "toy2", "generate_toy_p": "toy_p"}[p["fn"]], "cfg": "absent",
           "imp": bool(p.get("imp")), "N": p["N"], "maxN": p["maxN"], "force": p.get("force", True)}
    return scn, toy_line(scn, rec)


def check_real_charge(p, rec):
    """on the real model: charges are +-1, stay with their event, and are random exactly when requested"""
    bad = []
    inc, fn = p["include_charge"], p["fn"]
    ch = rec["ret_charge"]
    if inc and ch is None:
        bad.append((fn + ":charge-missing", "%s(include_charge=True) returns no charge entry" % fn))
    if ch is not None:
        if not np.all(np.abs(ch) == 1.0) or len(ch) != len(rec["ret"]):
            bad.append((fn + ":charge", "charges are not one of +-1 per event"))
        for (k, i), c in zip(rec["ret"], ch):
            bc = rec["batches"][k]["charge"] if k >= 0 else None
            if bc is None or bc[i] != c:
                bad.append((fn + ":charge", "the charge of a returned event differs from the charge of its proposal"))
                break
        if not inc and not np.all(ch == 1.0):
            bad.append((fn + ":charge", "include_charge=False but a charge is not +1"))
    return bad


# =====================================================================================================
# 6. correspondence with templates/Toy.lean.in (Float instance) and the search entry points
# =====================================================================================================

def correspond(ctx, res):
    quick = ctx.quick
    lines, post = ["C20t consts"], [("consts", None, None)]
    # (a) wrappers on the stub configuration
    nrun = 0
    for scn in toy_scenarios(ctx.seed * 7919 + 31, 45 if quick else 300):
        rec = run_toy(scn)
        if rec["error"]:
            continue
        nrun += 1
        lines.append(toy_line(scn, rec))
        post.append(("toy", scn, rec))
        path = charge_path(scn)
        if path is not None:
            for k, b in enumerate(rec["batches"][:3]):
                us = b["cu"] if b["cu"] is not None else []
                lines.append("C20t path %s %d %d %s" % (path, 1 if scn["include_charge"] else 0, b["n"], bits(us)))
                post.append(("path", scn, (rec, k)))
    # (b) wrappers on the real model
    nreal = 0
    for p in real_cases(ctx.seed, quick):
        rec = run_toy_real(p)
        if rec["error"]:
            res.broke("correspondence generate_toy on the real model: no exit after 300 batches", p)
            continue
        nreal += 1
        scn, line = real_line(p, rec)
        lines.append(line)
        post.append(("toy-real", scn, (p, rec)))
    # (c) generate_toy_o
    fixed = toy_o_is_fixed()
    ntoyo = 0
    for scn in toyo_scenarios(ctx.seed * 7919 + 32, 24 if quick else 200):
        rec = run_toy_o(scn, max_iter=12 if not fixed else 60)
        ntoyo += 1
        lines.append(toyo_line(scn, rec, fixed))
        post.append(("toyo", scn, rec))
    # (d) gen_random_charge
    for c in charge_cases(ctx.seed + 33, 20 if quick else 300):
        ch, _, _ = run_charge(c)
        lines.append("C20t charge %d %d %s" % (1 if c["random"] else 0, c["N"], bits(c["u"])))
        post.append(("charge", c, ch))
    # (e) gen_data / gen_mc
    ngd = 0
    for scn in gd_scenarios(ctx.seed * 13 + 34, 10 if quick else 40):
        rec = run_gen_data(scn)
        if rec["error"] == "no-exit":
            continue
        ngd += 1
        lines.append(gd_line(scn, rec))
        post.append(("gdata", scn, rec))
        if not rec["error"]:
            npar = rec["npar"]
            nrow = rec["file_rows"].shape[0]
            for p in range(npar):
                lines.append("C20t rows %d %d %s" % (npar, p, " ".join(str(j) for j in range(nrow))))
                post.append(("rows", (npar, p, nrow), None))
    out = ctx.model.query(lines)
    nbad, first = {}, None

    def bad(what, info):
        nonlocal first
        nbad[what] = nbad.get(what, 0) + 1
        if first is None:
            first = {"what": what, "info": info}

    for (kind, scn, rec), o, ln in zip(post, out, lines):
        if o == "bad-op":
            res.broke("model driver bad-op (toy)", ln[:200])
            return
        if kind == "consts":
            if o != bits([0.5, 10.0, 1.1, 1.01]):
                bad("constants", o)
        elif kind == "toy":
            diff = compare_toy(scn, rec, o)
            if diff:
                bad("generate_toy wrappers (stub configuration)", {"scenario": scn, "fields": diff})
        elif kind == "toy-real":
            p, r = rec
            diff = compare_toy(scn, r, o)
            if diff:
                bad("generate_toy wrappers (real ConfigLoader model)", {"case": p, "fields": diff})
        elif kind == "path":
            r, k = rec
            b = r["batches"][k]
            if o == "none":
                if b["cu"] is not None or r["ret_charge"] is not None:
                    bad("charge path", {"scenario": scn, "model": o})
                continue
            key, ch = o.split("|")
            ch = unbits(ch)
            got = None if b["charge"] is None else [float(x) for x in b["charge"]]
            if got != ch or (key == "1") != (r["ret_charge"] is not None):
                bad("charge path", {"scenario": scn, "batch": k, "impl": str(got)[:120], "model": str(ch)[:120], "key": key})
        elif kind == "toyo":
            f = o.split("|")
            reqs = [int(x) for x in f[0].split()]
            impl_reqs = [b["n"] for b in rec["batches"]]
            if rec["error"]:
                # stalled (or non-terminating) history: the model must issue the same requests and not be done
                if reqs != impl_reqs[:len(reqs)] or f[5] == "1" or int(f[7]) != rec["next_req"]:
                    bad("generate_toy_o (stalled history)", {"scenario": scn, "impl": impl_reqs[:8], "model": reqs[:8]})
            else:
                if reqs != impl_reqs or f[5] != "1" or evs(f[6]) != rec["ret"]:
                    bad("generate_toy_o", {"scenario": scn, "impl_reqs": impl_reqs[:8], "model_reqs": reqs[:8], "n_impl": len(rec["ret"]), "n_model": len(evs(f[6]))})
        elif kind == "charge":
            if unbits(o) != rec:
                bad("gen_random_charge", {"case": scn, "model": unbits(o)[:8], "impl": rec[:8]})
        elif kind == "gdata":
            f = o.split("|")
            if rec["error"]:
                if f[4] != "raise":
                    bad("gen_data raises", {"scenario": scn, "model": f[4][:80], "impl": rec["error"]})
                continue
            if rec["perm"] is None or len(rec["perm"]) * rec["npar"] != rec["file_rows"].shape[0]:
                bad("gen_data (shuffle is not over events)", {"scenario": scn, "shape": rec.get("shuffle_shape")})
                continue
            impl_ev = " ".join(gd_events_impl(rec))
            if f[4] != impl_ev or int(f[2]) != len(rec["passes"]) or C.h2f(f[3]) != rec["maxval"]:
                bad("gen_data", {"scenario": scn, "impl": impl_ev[:160], "model": f[4][:160], "passes": (len(rec["passes"]), f[2]), "max": (rec["maxval"], C.h2f(f[3]))})
        elif kind == "rows":
            npar, p, nrow = scn
            if [int(x) for x in o.split()] != list(range(nrow))[p::npar]:
                bad("row layout", {"case": scn})
    res.coverage["toy_wrapper_runs_stub"] = nrun
    res.coverage["toy_wrapper_runs_real_model"] = nreal
    res.coverage["generate_toy_o_runs"] = ntoyo
    res.coverage["generate_toy_o_tree_is_patched"] = fixed
    res.coverage["gen_data_runs"] = ngd
    res.coverage["toy_lines"] = len(lines)
    res.samples.append({"op": lines[1][:160] + " ...", "model": out[1][:200]})
    for what, n in nbad.items():
        res.broke("correspondence ToyF vs " + what, {"n": n, "first": first})
    return len(lines), sum(nbad.values())


def check_real(p):
    rec = run_toy_real(p)
    if rec["error"]:
        return [(p["fn"] + ":no-exit", "%s(N=%d, max_N=%d) on the real model has not collected N events after 300 batches" % (p["fn"], p["N"], p["maxN"]))]
    bad = check_real_charge(p, rec)
    fn = p["fn"]
    if p.get("force", True) and len(rec["ret"]) != p["N"]:
        bad.append((fn + ":count", "%s(N=%d) on the real model returned %d events" % (fn, p["N"], len(rec["ret"]))))
    if any(k < 0 for k, _ in rec["ret"]):
        bad.append((fn + ":foreign-event", "a returned event is not one of the proposals"))
    for (k, i) in rec["ret"]:
        if k >= 0 and not rec["batches"][k]["w"][i] <= rec["bounds"][k]:
            bad.append((fn + ":weight-above-bound", "a returned event has weight %r above the bound %r it was accepted with" % (float(rec["batches"][k]["w"][i]), rec["bounds"][k])))
            break
    if p.get("cal_phsp_max") and (rec["calmax"] < 1 or rec.get("calmax_late")):
        bad.append((fn + ":cal_max_weight", "cal_phsp_max=True: cal_max_weight was called %d times%s" % (rec["calmax"], ", after the first proposal batch" if rec.get("calmax_late") else "")))
    if not p.get("cal_phsp_max") and rec["calmax"]:
        bad.append((fn + ":cal_max_weight", "cal_max_weight called without cal_phsp_max"))
    return bad


CHECKS = {"toy": check_toy, "toy_o": check_toy_o, "charge": check_charge, "gen_data": check_gen_data, "toy_real": check_real}


def search(ctx, res, run, f):
    cnt = {}
    f = min(f, 8)      # each case runs the real drivers (0.1-0.5 s)
    for scn in toy_scenarios(ctx.seed * 7919 + 41, 36 * f):
        run(res, "toy", scn, cnt)
    for scn in toyo_scenarios(ctx.seed * 7919 + 42, 20 * f):
        run(res, "toy_o", scn, cnt)
    for c in charge_cases(ctx.seed + 43, 20 * f):
        run(res, "charge", c, cnt)
    for scn in gd_scenarios(ctx.seed * 13 + 44, 8 * f):
        run(res, "gen_data", scn, cnt)
    for p in real_cases(ctx.seed + 50, ctx.quick)[:(2 if ctx.quick else 7)]:
        run(res, "toy_real", p, cnt)
    return cnt
