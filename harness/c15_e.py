"""C15, round 5: the line shapes that rounds 1-3 left "validated only".

* KMatrixSplitLS: Lean model of what the CODE evaluates (templates/LineShapeE.lean.in: KMatrixSplitLS1 / KMatrixSplitLS2,
  one and two partial waves, 1-3 poles), docstring oracle (listed finding KEY_SPLITLS), and the matrix-vector product
  (second finding KEY_SPLIT_MV with a one-token repair, fixes/C15-fix_kmatrix_split_ls_matvec.diff)
* KmatrixSimple with three channels (Cramer's rule)  -- the cases are generated in c15_x.cases_lineshape
* get_sympy_dom of FlatteGen / Flatte2 (all option sets; cut_phsp is ignored by the symbolic denominator: finding KEY_FG_CUT)
* KMatrixSingleChannel: the sympy expression itself (numpy lambdify, no cse / tensorflow) against the implementation
* GS below the two-pion threshold (k(m) clamped to 0), interp_l3 at the bin mid points

Imported lazily by harness/c15.py; same case format as c15.cases_for / c15_x (plus `checks`: extra statements on the
implementation judged in c15.search).
"""
import math

import numpy as np

import common as C
import c15 as B
import c15_x as X

KEY_SPLITLS = X.KEY_SPLITLS
KEY_SPLIT_MV = "KMatrixSplitLS:inverse-times-P-not-matvec"
KEY_FG_CUT = "FlatteGen:sympy-dom:cut_phsp-ignored"
KMS_EPS = 1e-4


# --------------------------------------------------------------------------------------------
# numpy oracles
# --------------------------------------------------------------------------------------------

def s_kms_doc(m, q, m1, m2, ls, ms, gs, fracs, betas, d=3.0):
    """docstring of KmatrixSplitLSParticle: K_ab = sum_i m_i sqrt(G_ai(m) G_bi(m))/(m_i^2-m^2), P_b = sum_i beta_i m_i G_bi0/(m_i^2-m^2),
    R = (1 - iK)^-1 P, G_ai(m) = G_i0 f_ia^2 (q/q_i)^(2 l_a + 1) (m_i/m) B'_la^2"""
    n = len(ls)
    out = np.zeros((len(m), n), dtype=np.complex128)
    for t, mm in enumerate(m):
        Kmat = np.zeros((n, n), dtype=np.complex128)
        P = np.zeros(n, dtype=np.complex128)
        for i, (mi, gi) in enumerate(zip(ms, gs)):
            qi = B.s_q(np.array([mi]), m1, m2)[0]
            G = [B.s_Gamma(l, mm, gi * fracs[i][a] ** 2, q[t], qi, mi, d) for a, l in enumerate(ls)]
            for a in range(n):
                P[a] += betas[i] * mi * gi * fracs[i][a] ** 2 / (mi ** 2 - mm ** 2)
                for b in range(n):
                    Kmat[a, b] += mi * np.sign(fracs[i][a] * fracs[i][b]) * math.sqrt(abs(G[a] * G[b])) / (mi ** 2 - mm ** 2)
        out[t] = np.linalg.solve(np.eye(n) - 1j * Kmat, P)
    return out


def s_kms_code(m, p, p0, ls, ms, gs, fracs, br, d=3.0, matvec=True):
    """the matrix M and the vector P that get_ls_amp builds (numpy, written from the code), combined as
    matvec=True: R = M^-1 P (a matrix-vector product, np.linalg.solve); matvec=False: R_j = P_j sum_i (M^-1)_ij"""
    n, npole = len(ls), len(ms)
    out = np.zeros((len(m), n), dtype=np.complex128)
    for t, mm in enumerate(m):
        dm = [mi * mi - mm * mm - 1j * KMS_EPS for mi in ms]
        den = np.prod(dm)
        M = np.zeros((n, n), dtype=np.complex128)
        P = np.zeros(n, dtype=np.complex128)
        for k in range(npole):
            dpi = np.prod([dm[l] for l in range(npole) if l != k] + [1.0 + 0j])
            rho = np.sqrt(complex(p[t] / mm * ms[k] / p0[k]))
            bf = []
            for l in ls:
                bp = B.T(l, p0[k] * d * d)[0] / B.T(l, p[t] * d * d)[0]
                bf.append((p[t] / p0[k]) ** (l / 2) * math.sqrt(bp if bp > 0 else 1.0))
            for i in range(n):
                P[i] += dpi * ms[k] * gs[k] * fracs[k][i] * br[k]
                for j in range(n):
                    M[i, j] -= 1j * rho * dpi * gs[k] * fracs[k][i] * fracs[k][j] * bf[i] * bf[j]
        M += den * np.eye(n)
        if matvec:
            out[t] = np.linalg.solve(M, P)
        else:
            Mi = np.linalg.inv(M)
            out[t] = P * Mi.sum(axis=0)
    return out


def s_GS_below(L, m, m0, g0, q, q0, d, c2, c3, pi=math.pi):
    """docstring of GS with the code's branch choice below the two-pion threshold: k(m) = 0, h(m) = 0"""
    sm = c2 + c3
    k0 = B.s_q(m0, c2, c3)
    h0 = 2 / pi * k0 / m0 * np.log((m0 + 2 * k0) / sm)
    dh = h0 * (1 / (8 * k0 ** 2) - 1 / (2 * m0 ** 2)) + 1 / (2 * pi * m0 ** 2)
    f = g0 * m0 ** 2 / k0 ** 3 * ((m0 ** 2 - m ** 2) * k0 ** 2 * dh)
    mpi_sq = sm * sm / 4
    D = 3 / pi * mpi_sq / k0 ** 2 * np.log((m0 + 2 * k0) / sm) + m0 / (2 * pi * k0) - mpi_sq * m0 / (pi * k0 ** 3)
    gam = B.s_Gamma(L, m, g0, q, q0, m0, d)
    return (1 + D * g0 / m0) / (m0 ** 2 - m ** 2 + f - 1j * m0 * gam)


def sympy_eval_c(expr, names, vals, m):
    """numeric value of a sympy expression with EVERY parameter complex (sqrt of a negative radicand in a parameter,
    e.g. q_i0 of a channel that is closed at m0, must give +i sqrt|.| as sympy's principal root does)"""
    import sympy
    fn = sympy.lambdify(names, expr, "numpy")
    return np.asarray(fn(np.asarray(m, dtype=np.complex128), *[complex(v) for v in vals]), dtype=np.complex128) * np.ones(len(m))


def sympy_dom_eval_c(p, m, **kw):
    var = p.get_sympy_var()
    f = p.get_sympy_dom(*var, **kw)
    return sympy_eval_c(f, B._flatten(var), [float(v) for v in B._flatten(p.get_num_var())], m)


# --------------------------------------------------------------------------------------------
# observation of the tree
# --------------------------------------------------------------------------------------------

def _kms_build(cfg, J, P, dau, pm, pw, rng=None, thetas=None, betas=None):
    """returns (particle wrapper, ls, fracs, beta_re, beta)"""
    b = B.build("KMatrixSplitLS", cfg, J=J, P=P, dau=dau, mass=pm[0], width=None, mass_list=pm, width_list=pw)
    return b


def observe_e():
    from tf_pwa.amp.core import get_relative_p, variable_scope
    cfg = {"L": 1, "m1": 0.3, "m2": 0.4, "m0": 1.2, "g0": 0.1}
    m = np.array([0.9, 1.3])
    with variable_scope() as vm:
        b = _kms_build(cfg, 1, 1, ((1, -1), (0, -1)), [1.2, 1.5], [0.1, 0.2])
        vm.set("R_theta0_0", 0.7)
        vm.set("R_theta1_0", 1.1)
        vm.set("R_beta2r", 0.6)
        out = B.cnum(b.p.get_ls_amp(m))
        fr = [[float(x) for x in r] for r in b.p.get_gi_frac()]
        br = [float(x) for x in b.p.get_beta()[0]]
        ls = [int(l) for l in b.p.ls_list]
    p = B.s_q(m, 0.3, 0.4)
    p0 = [float(B.s_q(np.array([x]), 0.3, 0.4)[0]) for x in (1.2, 1.5)]
    a = s_kms_code(m, p, p0, ls, [1.2, 1.5], [0.1, 0.2], fr, br, matvec=True)
    c = s_kms_code(m, p, p0, ls, [1.2, 1.5], [0.1, 0.2], fr, br, matvec=False)
    matvec = bool(np.max(np.abs(a - out)) < np.max(np.abs(c - out)))
    # FlatteGen.get_sympy_dom: is cut_phsp applied?
    with variable_scope() as vm:
        b = B.build("FlatteGen", {"L": 0, "m1": 0.2, "m2": 0.3, "m0": 0.9, "g0": 0.1}, width=None, mass_list=[[0.2, 0.3], [0.45, 0.5]],
                    l_list=[0, 0], cut_phsp=True)
        vm.set("R_g_0", 0.5)
        vm.set("R_g_1", 0.4)
        mm = np.array([0.7])
        impl = B.cnum(b.p(mm))
        try:
            dom = sympy_dom_eval_c(b.p, mm, sheet=3)
            dom_cut = bool(abs(dom[0] * impl[0] - 1) < 1e-9)
        except Exception:  # a repaired tree whose Heaviside cannot be evaluated by numpy on complex input
            dom_cut = True
    return {"kms_matvec": matvec, "fg_dom_cut": dom_cut}


# --------------------------------------------------------------------------------------------
# cases
# --------------------------------------------------------------------------------------------

def cases_kms(rng, quick, obe):
    from tf_pwa.amp.core import get_relative_p, variable_scope
    nrep = 1 if quick else 3
    npt = 10 if quick else 30
    mv = "1" if obe["kms_matvec"] else "0"
    shapes = [(None, None, ((0, -1), (0, -1))),  # one partial wave l = L
              (1, 1, ((1, -1), (0, -1))),          # l = 0, 2
              (2, -1, ((1, -1), (0, -1)))]         # l = 1, 3
    for rep in range(nrep):
        for ish, (J, P, dau) in enumerate(shapes):
            for npole in (1, 2, 3):
                if quick and npole == 3 and ish != 0:
                    continue
                L = int(rng.integers(0, 4))
                cfg = B.gen_cfg(rng, L)
                m1, m2 = cfg["m1"], cfg["m2"]
                S = m1 + m2
                pm = sorted(S + float(rng.uniform(0.3, 1.8)) for _ in range(npole))
                pw = [float(rng.uniform(0.05, 0.4)) for _ in range(npole)]
                m = X._away(S + rng.uniform(0.05, 2.5, size=npt), pm, rel=2e-2)
                with variable_scope() as vm:
                    b = _kms_build(cfg, J, P, dau, pm, pw)
                    for n in list(vm.trainable_vars):
                        if n.startswith("R_theta"):
                            vm.set(n, float(rng.uniform(0.2, 1.3)))
                        elif n.startswith("R_beta") and n.endswith("r"):
                            vm.set(n, float(rng.uniform(0.3, 1.5)))
                        elif n.startswith("R_beta") and n.endswith("i"):
                            vm.set(n, float(rng.uniform(-1.0, 1.0)))
                    ls = [int(l) for l in b.p.ls_list]
                    out = B.cnum(b.p.get_ls_amp(m))
                    fr = [[float(x) for x in r] for r in b.p.get_gi_frac()]
                    bre, bim = b.p.get_beta()
                    br = [float(x) for x in bre]
                    betas = [complex(float(x), float(y)) for x, y in zip(bre, bim)]
                    p = B.cnum(get_relative_p(m, m1, m2)).real
                    p0 = [float(B.cnum(get_relative_p(np.array([x]), m1, m2)).real[0]) for x in pm]
                nls = len(ls)
                if nls > 2:
                    continue
                doc = s_kms_doc(m, B.s_q(m, m1, m2), m1, m2, ls, pm, pw, fr, betas)
                case = {"model": "KMatrixSplitLS", "cfg": dict(cfg, mass_list=pm, width_list=pw, ls=ls, gi_frac=fr, beta=betas), "m": m,
                        "impl": [out[:, k] for k in range(nls)], "conj_key": None, "spec": [doc[:, k] for k in range(nls)],
                        "any_key": (KEY_SPLITLS, "the implementation evaluates P_j sum_i [(prod_k D_k - i sum_k sqrt((q/q_k)(m_k/m)) prod_{l!=k} D_l g_k f_k f_k^T bf bf^T)^-1]_ij with D_k = m_k^2 - m^2 - 1e-4 i, bf_a = (q/q_k)^(l_a/2) Bprime_q2(l_a, q, q_k) (q, q_k passed where q^2 is expected), P_j = sum_k prod_{l!=k} D_l m_k g_k f_kj Re(beta_k); the docstring has R = (1 - iK)^-1 P with K_ab = sum_i m_i sqrt(G_ai(m) G_bi(m))/(m_i^2 - m^2)")}
                flat = []
                for k in range(npole):
                    flat += [pm[k], pw[k], p0[k]] + fr[k] + [br[k]]
                if nls == 1:
                    case["lean"] = ["C15e kms1 %d %d %s" % (ls[0], npole, B.fl([3.0, mm, pp] + flat)) for mm, pp in zip(m, p)]
                else:
                    case["lean"] = ["C15e kms2 %s %d %d %d %s" % (mv, ls[0], ls[1], npole, B.fl([3.0, mm, pp] + flat)) for mm, pp in zip(m, p)]
                    case["lean_multi"] = 2
                    want = s_kms_code(m, p, p0, ls, pm, pw, fr, br, matvec=True)
                    alt = s_kms_code(m, p, p0, ls, pm, pw, fr, br, matvec=False)
                    case["checks"] = [{"key": "KMatrixSplitLS:solve", "what": "get_ls_amp, component %d, is not the solution x of M x = P for the matrix M and the vector P it builds (R = (1 - iK)^-1 P is a matrix-vector product)" % k,
                                       "got": out[:, k], "want": want[:, k],
                                       "variants": [(KEY_SPLIT_MV, "combines the inverse with P as `reduce_sum(K_inv * P[:, None], axis=1)`, i.e. R_j = P_j sum_i (M^-1)_ij (column sums of the inverse times P_j) instead of R_i = sum_j (M^-1)_ij P_j: a partial wave with P_j = 0 gets exactly zero amplitude although it couples through M", alt[:, k])]}
                                      for k in range(nls)]
                yield case


def cases_flattegen_dom(rng, quick, obe):
    from tf_pwa.amp.core import variable_scope
    nrep = 1 if quick else 3
    npt = 10 if quick else 30
    dc = "1" if obe["fg_dom_cut"] else "0"
    optsets = [dict(), dict(has_bprime=False), dict(no_m0=True), dict(no_q0=True), dict(cut_phsp=True),
               dict(no_m0=True, no_q0=True, has_bprime=False), dict(cut_phsp=True, no_q0=True)]
    for rep in range(nrep):
        for io, opt in enumerate(optsets):
            for model, sq in (("FlatteGen", False), ("Flatte2", True)):
                if quick and (io + (1 if sq else 0)) % 2 == 1 and io != 4:
                    continue
                cfg = B.gen_cfg(rng, 0)
                m0 = cfg["m0"]
                nch = 1 + int(rng.integers(0, 3))
                chans = [(cfg["m1"], cfg["m2"], float(rng.uniform(0.05, 0.8)))]
                for k in range(1, nch):
                    chans.append((float(rng.uniform(0.1, 0.9)), float(rng.uniform(0.1, 0.9)), float(rng.uniform(-0.4, 0.8))))
                ls = [int(rng.integers(0, 5)) for _ in chans]
                sgn = -1.0 if rng.random() < 0.7 else 1.0
                lo = min(a + b_ for a, b_, g in chans)
                hi = max(a + b_ for a, b_, g in chans)
                mind = max(abs(a - b_) for a, b_, g in chans)
                m = np.concatenate([[m0], rng.uniform(max(0.3 * lo, mind * 1.01), hi + 2.0, size=npt)])
                m = X._away(m, [a + b_ for a, b_, g in chans] + [abs(a - b_) for a, b_, g in chans])
                kw = dict(opt)
                if sgn != -1.0:
                    kw["im_sign"] = 1
                with variable_scope() as vm:
                    b = B.build(model, cfg, width=None, mass_list=[[a, b_] for a, b_, g in chans], l_list=ls, **kw)
                    for i, (a, b_, g) in enumerate(chans):
                        vm.set("R_g_%d" % i, g)
                    impl = B.cnum(b.p(m))
                    dom = sympy_dom_eval_c(b.p, m, sheet=(1 << len(chans)) - 1)
                flat = []
                for a, b_, g in chans:
                    flat += [a, b_, g]
                o = "".join("1" if x else "0" for x in (opt.get("has_bprime", True), opt.get("no_m0", False), opt.get("no_q0", False), opt.get("cut_phsp", False)))
                args = "%d %s %s" % (len(chans), " ".join(map(str, ls)), "%s")
                case = {"model": model, "cfg": dict(cfg, chans=chans, l_list=ls, im_sign=sgn, sympy_dom=True, **opt), "m": m, "impl": [impl], "conj_key": None,
                        "lean": ["C15x flattegen %s %s %s" % (o, "1" if sq else "0", args % B.fl([sgn, 3.0, mm, m0] + flat)) for mm in m],
                        "lean_dom": ["C15e flattegendom %s %s %s %s" % (o, "1" if sq else "0", dc, args % B.fl([sgn, 3.0, mm, m0] + flat)) for mm in m],
                        "spec": [X.s_FlatteGen(m, m0, chans, ls, sq=sq, sgn=sgn, **opt)], "dom": dom}
                if opt.get("cut_phsp"):
                    # generic statement (c15.search: sympy dom = 1/lineShape) above every channel threshold; below one, the
                    # symbolic denominator of the current tree does not apply the cut (own key)
                    case["dom_above"] = hi
                    closed = m < hi
                    case["checks"] = [{"key": "%s:sympy-dom" % model, "what": "get_sympy_dom (cut_phsp=True) is not 1/lineShape below a channel threshold",
                                       "got": dom, "want": 1 / impl, "sel": closed,
                                       "variants": [(KEY_FG_CUT, "get_sympy_dom ignores cut_phsp: the statement `m_rho_i * sym.Heaviside(m - ma - mb)` discards its value, so below a channel threshold the symbolic denominator keeps the channel term that get_amp sets to zero (pole positions are computed for a different line shape than the one that is fitted)",
                                                     1 / X.s_FlatteGen(m, m0, chans, ls, sq=sq, sgn=sgn, **dict(opt, cut_phsp=False)))]}]
                yield case


def cases_kmsingle_symbol(rng, quick):
    """KMatrixSingleChannel: the sympy expression `symbol` (what a pole search would use) evaluated by numpy, against get_amp"""
    from tf_pwa.amp.core import get_relative_p, variable_scope
    for rep in range(1 if quick else 3):
        L = int(rng.integers(0, 4))
        cfg = B.gen_cfg(rng, L)
        m1, m2 = cfg["m1"], cfg["m2"]
        S = m1 + m2
        npole = 1 + int(rng.integers(0, 3))
        pm = sorted(S + float(rng.uniform(0.2, 1.8)) for _ in range(npole))
        pw = [float(rng.uniform(0.02, 0.3)) for _ in range(npole)]
        m = X._away(S + rng.uniform(0.02, 2.5, size=10 if quick else 30), pm + [S])
        with variable_scope() as vm:
            b = B.build("KMatrixSingleChannel", cfg, mass=pm[0], width=None, mass_list=pm, width_list=pw)
            for n in list(vm.trainable_vars):
                if "beta" in n and n.startswith("R_"):
                    vm.set(n, float(rng.uniform(-1.5, 1.5)))
            br, bi = b.p.get_beta()
            betas = [complex(float(x), float(y)) for x, y in zip(br, bi)]
            impl = B.cnum(b.p(m))
            Lc = int(b.p.bw_l)
            sym = b.p.symbol
            p = B.cnum(get_relative_p(m, m1, m2)).real
            par = {"m": m.astype(np.complex128), "p": p.astype(np.complex128)}
            for i in range(npole):
                par.update({"m%d" % i: pm[i], "g%d" % i: pw[i], "alpha%d" % i: betas[i].real, "beta%d" % i: betas[i].imag,
                            "p0%d" % i: float(B.cnum(get_relative_p(np.array([pm[i]]), m1, m2)).real[0])})
        import sympy
        names = sorted(sym.free_symbols, key=str)
        val = np.asarray(sympy.lambdify(names, sym, "numpy")(*[par[str(s)] for s in names]), dtype=np.complex128) * np.ones(len(m))
        num, den = sympy.fraction(sym)
        denv = np.asarray(sympy.lambdify(names, den, "numpy")(*[par[str(s)] for s in names]), dtype=np.complex128) * np.ones(len(m))
        numv = np.asarray(sympy.lambdify(names, num, "numpy")(*[par[str(s)] for s in names]), dtype=np.complex128) * np.ones(len(m))
        flat = []
        for a, w in zip(pm, pw):
            flat += [a, w]
        for z in betas:
            flat += X._cl(z)
        yield {"model": "KMatrixSingleChannel", "cfg": dict(cfg, mass_list=pm, width_list=pw, beta=betas, L=Lc, sympy_symbol=True), "m": m,
               "impl": [impl], "conj_key": None,
               "lean": ["C15x callkmsingle %d %d %s" % (Lc, npole, B.fl([3.0, mm, m1, m2] + flat)) for mm in m],
               "spec": [X.s_KMatrixSingle(Lc, m, m1, m2, pm, pw, betas)],
               "checks": [{"key": "KMatrixSingleChannel:sympy-symbol", "what": "the sympy expression KMatrix_single (numpy evaluation, no cse / tensorflow) is not the value of get_amp",
                           "got": val, "want": impl},
                          {"key": "KMatrixSingleChannel:sympy-denominator", "what": "numerator / denominator of sympy.fraction(symbol) is not the value of get_amp (the pole equation is `denominator = 0`)",
                           "got": numv / denv, "want": impl}]}


def cases_gs_below(rng, quick, obs):
    """function-level: breit_wigner.GS for m below the two-pion threshold (m0 above): k(m) is clamped to 0"""
    from tf_pwa import breit_wigner as bw
    n = 40 if quick else 1000
    g32 = "1" if obs["gs32"] else "0"
    out = []
    c2m, c3m = 0.13957039, 0.1349768
    sm, df = c2m + c3m, abs(c2m - c3m)
    for L in (0, 1, 2):
        mg = rng.uniform(df * 1.5, sm * (1 - 1e-6), n)
        mg[0] = sm  # exactly at threshold: p = 0 is the `else` branch as well
        m0g = sm + rng.uniform(0.2, 1.0, n)
        g0 = rng.uniform(0.005, 0.5, n)
        d = np.where(rng.random(n) < 0.5, 3.0, rng.uniform(0.5, 5.0, n))
        qg = rng.uniform(0.05, 1.0, n)  # GS takes q, q0 as arguments (momenta of the decay the particle is used in)
        q0g = rng.uniform(0.05, 1.0, n)
        out.append({"name": "GS", "L": L, "lines": ["C15 gs %s %d %s" % (g32, L, B.fl(list(x) + [c2m, c3m])) for x in zip(mg, m0g, g0, qg, q0g, d)],
                    "impl": B.cnum(bw.GS(mg, m0g, g0, qg, q0g, L, d)), "spec": s_GS_below(L, mg, m0g, g0, qg, q0g, d, c2m, c3m),
                    "cond": None, "key": "breit_wigner.GS(below 2 m_pi)", "conj_key": None,
                    "variants": [(B.KEY_GS32, "uses pi and the pion masses rounded to float32 (tf.cast of Python floats), relative error ~3e-8",
                                  s_GS_below(L, mg, m0g, g0, qg, q0g, d, B.f32(c2m), B.f32(c3m), pi=B.PI32))]})
    return out


def cases_l3_mid(rng, quick, obx):
    """interp_l3 at the bin mid points: parameter t sits at (x_t + x_{t+1})/2; the last bin has no parameter (value 0)"""
    from tf_pwa.amp.core import variable_scope
    leg = "0" if obx["i1d3_fixed"] else "1"
    cfg = {"L": 0, "m1": 0.1, "m2": 0.1, "m0": None, "g0": None}
    for N in ((6,) if quick else (5, 6, 9)):
        for uniform in (True, False):
            lo = float(rng.uniform(0.2, 0.5))
            hi = lo + float(rng.uniform(0.5, 1.5))
            if uniform:
                kw = dict(min_m=lo, max_m=hi, interp_N=N)
            else:
                inner = np.sort(rng.uniform(lo, hi, size=N - 2))
                while np.min(np.diff(np.concatenate([[lo], inner, [hi]]))) < 0.05 * (hi - lo):
                    inner = np.sort(rng.uniform(lo, hi, size=N - 2))
                kw = dict(points=[lo] + [float(x) for x in inner] + [hi])
            with variable_scope() as vm:
                b = B.build("interp_l3", cfg, mass=None, width=None, **kw)
                xs = [float(x) for x in b.p.points]
                m = np.array([(xs[i] + xs[i + 1]) / 2 for i in range(N - 1)])
                ps = X._set_points(vm, b, rng)
                impl = B.cnum(b.p(m))
            want = np.array(list(ps[: N - 2]) + [0j])
            yield {"model": "interp_l3", "cfg": dict(kw, N=N, values=ps, at="bin mid points"), "m": m, "impl": [impl], "conj_key": None,
                   "lean": ["C15i i1d3 %s 1 %d %s %s %s" % (leg, N, B.fl([mm]), B.fl(xs), B.fl(X._pflat(ps))) for mm in m],
                   "spec": [want], "tol_scale": np.full(len(m), max(abs(z) for z in ps))}


def cases_e(seed, quick, obs):
    obe = obs
    rng = np.random.Generator(np.random.Philox(seed + 9000))
    out = list(cases_kms(rng, quick, obe))
    rng = np.random.Generator(np.random.Philox(seed + 9001))
    out += list(cases_flattegen_dom(rng, quick, obe))
    rng = np.random.Generator(np.random.Philox(seed + 9002))
    out += list(cases_kmsingle_symbol(rng, quick))
    rng = np.random.Generator(np.random.Philox(seed + 9003))
    out += list(cases_l3_mid(rng, quick, obs))
    return out


def fcases_e(seed, quick, obs):
    rng = np.random.Generator(np.random.Philox(seed + 9004))
    return cases_gs_below(rng, quick, obs)
