"""Shared machinery for the tf-pwa verification checks.

Every property module (harness/cXX.py) exposes a `Prop` object (see class Prop)
and `run_check` below drives: translate -> lake build -> axiom audit ->
known-finding replay -> correspondence -> direct search -> evidence.
"""
import json
import os
import re
import subprocess
import sys
import time

HERE = os.path.dirname(os.path.abspath(__file__))
ROOT = os.path.dirname(HERE)
LEAN = os.path.join(ROOT, "lean")
GEN = os.path.join(LEAN, "TfPwaV", "Gen")
EVID = os.path.join(ROOT, "evidence") if not os.environ.get("VERIF_REPO") else "/tmp/verif_dev_evidence"  # development runs against a scratch tree never touch the committed evidence
REPLAY = os.path.join(ROOT, "replay")
REPO = os.environ.get("VERIF_REPO", "/repo")
STD_AXIOMS = {"propext", "Classical.choice", "Quot.sound"}

TRUSTED_BASE = [
    "Lean 4.33.0 kernel (lake build; leanchecker re-check in thorough tier)",
    "Mathlib v4.33.0 compiled under /opt/veriftools/mathlib4 (single-module imports, proof files only)",
    "axioms: at most propext, Classical.choice, Quot.sound (audited by #print axioms on every property theorem each run; no native_decide / bv_decide / sorry / own axioms)",
    "table translator harness/*: trusted to print what the Python function returned",
    "correspondence harness (harness/cXX.py) and its canonicalisation / tolerance policy",
    "Python semantics assumed by hand-written models (dict order, generator context managers, int/float arithmetic)",
    "numpy.Inf = numpy.inf shim inside the harness process (tf_pwa.fit_improve uses np.Inf, removed in numpy 2)",
    "IEEE-754 double arithmetic approximates real arithmetic; TensorFlow / numpy / scipy / sympy / iminuit kernels are parameters of the model, not verified",
]


def seed():
    try:
        return int(os.environ.get("VERIF_SEED", "0"))
    except ValueError:
        return 0


def log(*a):
    print(*a, file=sys.stderr, flush=True)


# --------------------------------------------------------------------------
# Lean side
# --------------------------------------------------------------------------

def write_if_changed(path, text):
    os.makedirs(os.path.dirname(path), exist_ok=True)
    try:
        with open(path) as f:
            if f.read() == text:
                return False
    except FileNotFoundError:
        pass
    with open(path, "w") as f:
        f.write(text)
    return True


def lake_build(targets, timeout=3000):
    """Returns (ok, output)."""
    t0 = time.time()
    try:
        r = subprocess.run(
            ["lake", "build"] + list(targets),
            cwd=LEAN,
            stdout=subprocess.PIPE,
            stderr=subprocess.STDOUT,
            text=True,
            timeout=timeout,
        )
    except subprocess.TimeoutExpired:
        raise InfraError("lake build timed out")
    except FileNotFoundError:
        raise InfraError("lake not found")
    log("[lean] lake build %s: rc=%d (%.1fs)" % (" ".join(targets), r.returncode, time.time() - t0))
    return r.returncode == 0, r.stdout


def main_imports():
    """Modules imported by the line-protocol driver Main.lean (must be built before `lean --run Main.lean`)."""
    src = open(os.path.join(LEAN, "Main.lean")).read()
    return re.findall(r"^import\s+(\S+)", src, flags=re.M)


class InfraError(Exception):
    pass


_THM_RE = re.compile(r"^\s*(?:private\s+|protected\s+)?theorem\s+([^\s:({\[]+)", re.M)
_NS_RE = re.compile(r"^\s*namespace\s+(\S+)", re.M)
_BAD_RE = re.compile(r"\b(sorry|admit|native_decide|bv_decide|implemented_by|unsafe)\b|^\s*axiom\s|maxHeartbeats\s+0\b", re.M)


def strip_comments(src):
    # remove block comments (nested not expected) and line comments
    src = re.sub(r"/-.*?-/", "", src, flags=re.S)
    src = re.sub(r"--.*", "", src)
    return src


def lean_sources_of(modules):
    out = []
    for m in modules:
        p = os.path.join(LEAN, *m.split(".")) + ".lean"
        out.append(p)
    return out


def theorems_in(module):
    """List fully-qualified theorem names declared in a module (single namespace per file convention)."""
    p = os.path.join(LEAN, *module.split(".")) + ".lean"
    src = strip_comments(open(p).read())
    # track namespaces linearly
    names = []
    ns = []
    for line in src.splitlines():
        m = re.match(r"\s*namespace\s+(\S+)", line)
        if m:
            ns.append(m.group(1))
            continue
        m = re.match(r"\s*end\s+(\S+)", line)
        if m and ns and ns[-1] == m.group(1):
            ns.pop()
            continue
        m = _THM_RE.match(line)
        if m:
            names.append(".".join(ns + [m.group(1)]))
    return names


def grep_forbidden(modules):
    hits = []
    for p in lean_sources_of(modules):
        if not os.path.exists(p):
            continue
        src = strip_comments(open(p).read())
        for m in _BAD_RE.finditer(src):
            hits.append("%s: %s" % (os.path.relpath(p, LEAN), m.group(0).strip()))
    return hits


def axiom_audit(pid, prop_modules, extra_imports=()):
    """#print axioms for every theorem of the property modules. Returns (ok, report dict)."""
    thms = []
    for m in prop_modules:
        thms += theorems_in(m)
    lines = ["import %s" % m for m in list(prop_modules) + list(extra_imports)]
    for t in thms:
        lines.append("#print axioms %s" % t)
    path = os.path.join(LEAN, "Audit_%s.lean" % pid)
    with open(path, "w") as f:
        f.write("\n".join(lines) + "\n")
    r = subprocess.run(
        ["lake", "env", "lean", os.path.basename(path)],
        cwd=LEAN, stdout=subprocess.PIPE, stderr=subprocess.STDOUT, text=True, timeout=1800,
    )
    out = r.stdout
    os.remove(path)
    report = {}
    bad = []
    # messages: "'name' depends on axioms: [a, b]" or "'name' does not depend on any axioms"
    for m in re.finditer(r"'([^']+)' depends on axioms: \[([^\]]*)\]", out, flags=re.S):
        axs = [a.strip() for a in m.group(2).replace("\n", " ").split(",") if a.strip()]
        report[m.group(1)] = axs
        if not set(axs) <= STD_AXIOMS:
            bad.append((m.group(1), axs))
    for m in re.finditer(r"'([^']+)' does not depend on any axioms", out):
        report[m.group(1)] = []
    missing = [t for t in thms if t not in report]
    ok = r.returncode == 0 and not bad and not missing
    return ok, {"theorems": thms, "axioms": report, "bad": bad, "missing": missing, "raw": out if not ok else ""}


def leanchecker(modules, timeout=3000):
    """Lean's independent re-checker of compiled .olean files (replays every declaration through the kernel)."""
    try:
        r = subprocess.run(["lake", "env", "leanchecker"] + list(modules), cwd=LEAN, stdout=subprocess.PIPE,
                           stderr=subprocess.STDOUT, text=True, timeout=timeout)
    except subprocess.TimeoutExpired:
        raise InfraError("leanchecker timed out")
    except FileNotFoundError:
        raise InfraError("leanchecker not found")
    log("[lean] leanchecker %s: rc=%d" % (" ".join(modules), r.returncode))
    return r.returncode == 0, r.stdout


class Model:
    """Line-protocol connection to the Lean driver (lake env lean --run Main.lean)."""

    def __init__(self):
        self.proc = None

    def query(self, lines, timeout=1800):
        """Send all lines, get list of output lines (batch mode: one process per call)."""
        if not lines:
            return []
        data = "\n".join(lines) + "\n"
        try:
            r = subprocess.run(
                ["lake", "env", "lean", "--run", "Main.lean"],
                cwd=LEAN, input=data, stdout=subprocess.PIPE, stderr=subprocess.PIPE, text=True, timeout=timeout,
            )
        except subprocess.TimeoutExpired:
            raise InfraError("lean driver timed out")
        if r.returncode != 0:
            raise ModelBroken("lean driver failed: " + (r.stderr or r.stdout)[-2000:])
        out = r.stdout.split("\n")
        if out and out[-1] == "":
            out.pop()
        if len(out) != len(lines):
            raise ModelBroken("lean driver returned %d lines for %d ops: %s" % (len(out), len(lines), r.stderr[-500:]))
        return out


class ModelBroken(Exception):
    pass


def f2h(x):
    """float -> hex of IEEE bits (decimal u64 string, parsed by Float.ofBits on the Lean side)."""
    import struct
    return str(struct.unpack("<Q", struct.pack("<d", float(x)))[0])


def h2f(s):
    import struct
    return struct.unpack("<d", struct.pack("<Q", int(s)))[0]


# --------------------------------------------------------------------------
# Findings / violations / evidence
# --------------------------------------------------------------------------

def load_known(pid):
    path = os.path.join(ROOT, "known_findings.jsonl")
    out = []
    if os.path.exists(path):
        for line in open(path):
            line = line.strip()
            if not line or line.startswith("#"):
                continue
            try:
                d = json.loads(line)
            except ValueError:
                continue
            if d.get("property") == pid:
                out.append(d)
    return out


class Failure:
    """A concrete failing input on the real implementation."""

    def __init__(self, key, what, replay):
        self.key = key  # stable identifier (call site / input class) matched against known findings
        self.what = what
        self.replay = replay  # JSON-serialisable description allowing exact re-execution


class Result:
    def __init__(self):
        self.failures = []  # list[Failure]: property fails on the implementation
        self.broken = []  # list[str]: theorem / correspondence that no longer checks (with detail)
        self.coverage = {}
        self.samples = []
        self.assumptions = []
        self.notes = []

    def fail(self, key, what, replay):
        self.failures.append(Failure(key, what, replay))

    def broke(self, what, detail=None):
        self.broken.append({"what": what, "detail": detail})


def rerun_search_replay(mod, ctx, payload):
    """Generic replay: re-run the property's model-independent search with the seed recorded in the replay file
    and report whether a failure with the same key is found again on the current /repo."""
    key = payload.get("key")
    if key is None:
        print("replay file names a broken obligation, not a failing input: %s" % json.dumps(payload.get("broken"), default=str)[:3000])
        return 1
    ctx.seed = int(payload.get("seed", ctx.seed))
    ctx.suspect = True
    res = Result()
    mod.search(ctx, res)
    same = [f for f in res.failures if f.key == key]
    for f in same[:3]:
        print("still failing:", f.what)
    print("REPLAY: property %s key %s %s" % (ctx.pid, key, "still violated" if same else "not reproduced on this tree"))
    return 1 if same else 0


def write_replay(pid, payload, tag=None):
    payload.setdefault("seed", seed())
    os.makedirs(REPLAY, exist_ok=True)
    name = "%s-%s-%d.json" % (pid, tag or "v", seed())
    path = os.path.join(REPLAY, name)
    with open(path, "w") as f:
        json.dump(payload, f, indent=1, default=str)
    return os.path.relpath(path, ROOT)


def write_evidence(pid, tier, level, coverage, assumptions, wall, violations):
    os.makedirs(EVID, exist_ok=True)
    # schema hygiene: typed keys must have their types whatever a property module put there
    if "exhaustive" in coverage and not isinstance(coverage["exhaustive"], bool):
        coverage["exhaustive_scope"] = coverage["exhaustive"]
        coverage["exhaustive"] = False
    for k in ("evaluations", "distinct_nontrivial", "traces_validated_against_impl", "states", "transitions", "obligations", "discharged", "programs", "disagreements_checked"):
        if k in coverage and not isinstance(coverage[k], int):
            try:
                coverage[k] = int(coverage[k])
            except (TypeError, ValueError):
                coverage[k + "_raw"] = coverage.pop(k)
    if "samples" in coverage and not isinstance(coverage["samples"], list):
        coverage["samples"] = [coverage["samples"]]
    ev = {
        "property_id": pid,
        "tier": tier,
        "seed": seed(),
        "level": level,
        "coverage": coverage,
        "assumptions": assumptions,
        "wall_s": round(wall, 2),
        "violations": violations,
    }
    with open(os.path.join(EVID, pid + ".json"), "w") as f:
        json.dump(ev, f, indent=1, default=str)


def setup_tf():
    """Import-time shim for the pinned environment; call before importing tf_pwa."""
    os.environ.setdefault("TF_CPP_MIN_LOG_LEVEL", "3")
    os.environ.setdefault("CUDA_VISIBLE_DEVICES", "")
    if os.environ.get("VERIF_REPO"):
        # development aid: run the machinery against a scratch worktree of the repository
        # (registered checks never set it: they use /repo through the editable install)
        sys.path.insert(0, os.environ["VERIF_REPO"])
    import numpy
    if not hasattr(numpy, "Inf"):
        numpy.Inf = numpy.inf
    import logging
    logging.getLogger("tensorflow").setLevel(logging.ERROR)
    import warnings
    warnings.filterwarnings("ignore")
