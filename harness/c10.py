"""C10 — phase-space events are physical, exactly counted and Lorentz-invariant flat."""
import itertools
import math

import numpy as np

import common as C

PID = "C10"
DRIVER = [("C10", "TfPwaV.Gen.PhspF", "PhspF.handle")]
LEAN_TARGETS = ["TfPwaV.Props.C10", "TfPwaV.Props.C10b", "TfPwaV.Props.C10c", "TfPwaV.Props.C10d", "TfPwaV.Props.C10e", "TfPwaV.Gen.PhspF", "TfPwaV.Gen.KinF"]
PROP_MODULES = ["TfPwaV.Props.C10", "TfPwaV.Props.C10b", "TfPwaV.Props.C10c", "TfPwaV.Props.C10d", "TfPwaV.Props.C10e"]
ALL_MODULES = ["TfPwaV.Proofs.Phsp", "TfPwaV.Proofs.PhspMom", "TfPwaV.Proofs.PhspTree", "TfPwaV.Proofs.PhspShell", "TfPwaV.Proofs.PhspOpt", "TfPwaV.Proofs.PhspChain", "TfPwaV.Props.C10", "TfPwaV.Props.C10b", "TfPwaV.Props.C10c", "TfPwaV.Props.C10d", "TfPwaV.Props.C10e", "TfPwaV.Proofs.Kin", "TfPwaV.Proofs.ScalarR", "TfPwaV.Props.C20f", "TfPwaV.Proofs.Sampler"]
ASSUMPTIONS = [
    "uniform random numbers are an INPUT of the model (lists of draws, one per tf.random.uniform call); the harness replaces tf.random.uniform in its own process by a seeded stream and feeds the same numbers to the Float instance of templates/Phsp.lean.in",
    "theorems are over the reals for the model with r32 = id, i.e. get_p evaluated in double precision for Python-float arguments (the tree after fix_getp_float32.diff); on a tree where get_p rounds p2 through float32 the Float model reproduces that rounding (observed by the harness) and the deviation is reported by the search under the key get_p:float32-python-scalars",
    "acceptance weight in [0,1] is proved on the domain the generator itself produces (every uniform number in [0,1]); on the bare box get_mass_range() the bound is false (counter-example theorem weight_exceeds_one_off_domain) - only cal_max_weight() evaluates weights there",
    "on-shell / momentum-sum theorems: exact over the reals; the mass-shell clause for boosted particles needs the regular branch of LorentzVector.boost (1e-14 < |v|^2 < 1), the momentum sum does not",
    "nested chains: momentum sum (chain_momentum_sum), mass shells of all final particles (chain_on_shell), every intermediate state on its fixed mass shell and equal to the sum of the momenta below it (chain_structure, chain_intermediate_mass) are proved for EVERY nesting by structural induction, and (chain_on_shell_full, Props/C10d.lean) for the COMPOSITION _restruct_pi o generate_momentum: the per-node hypothesis GoodNode is discharged for what generate_momentum returns (momentum_sum, on_shell, generated_energy_positive). Hypotheses left = the code's regime per node (NodeInput): non-negative daughter masses, positive ordered intermediate masses (what generate_mass produces, domain_is_chain), cos-theta uniforms in [0,1], regular boost branch 1e-14 < |v|^2 < 1 at every recoil boost and at the boost by every nested daughter's momentum, first two-body step with q > 0 or massive daughters (no zero four-vector)",
    "keyword paths of PhaseSpaceGenerator.generate(N, force, flatten, importances) are modelled by generateOpt (generate = its force=True, flatten=True instance, theorem generateOpt_default) and compared on the recorded uniform stream; the model mirrors the code as it is, including that refill batches call flatten_mass(mass2) with the DEFAULT importances=True even when generate was called with importances=False (first batch without, refills with the importance factor: the accepted sample of that opt-in path is a mixture of two densities; no default caller passes importances=False, reported as an observation, not alarmed)",
    "accepted density: accept_count_grid / accepted_density are measure-free counting statements on the uniform grid j/K (reusing grid_count / accept_fraction of Props/C20f.lean); that tf.random.uniform is uniform and independent is NOT proved (chi^2 tests)",
    "NOT proved, validated only: termination of the refill loop with probability 1; statistical flatness of the accepted sample (chi^2 tests of the Dalitz plot and of mass spectra against independently integrated phase-space spectra, false-alarm probability <= 1e-9 per test in the chi^2 approximation); IEEE rounding (double-precision clauses are checked on the implementation with stated tolerances)",
    "mass_generator[i] (user-supplied proposal for the i-th intermediate mass, used by config_loader/sample.py to importance-sample resonances) is outside the model: the code draws M_{i+1} from an arbitrary user distribution g_i and mass_importances applies NO 1/g_i correction (the `else: pass` branch), so by design the accepted events follow prod q_i * prod g_i, not flat phase space; the consumer reweights. What still applies: weight_le_one holds for ANY mass point of the domain M_i + r_{i+1} <= M_{i+1} <= b_i however it was drawn (a user generator that leaves [a,b] is not covered); momentum_sum / on_shell do not depend on how masses were drawn",
    "cal_max_weight() (reached through generate_phsp(cal_max=True), generate_phsp_p(cal_max=True), generate_toy(cal_phsp_max=True), generate_toy_p(cal_phsp_max=True), ChainGenerator.cal_max_weight()): on the pinned tree it maximised the weight with L-BFGS-B from ONE random start in unscaled mass coordinates and m_wtMax could shrink below weights that occur (PhaseSpaceGenerator(3.0, [0.1,0.2,0.3,0.4,0.5,0.1]), harness stream Philox(2): wtMax 1.496 -> 3.9e-8, 75% of the weights of generate(20000, flatten=False) above 1) - a violation of the weight clause on a public option, repaired by a fix commit in /repo (best point of a random sample as start, coordinates scaled to the mass ranges, gradient + simplex search, never below the best sampled weight; key cal_max_weight:weight-range, kind fixed). Model: m_wtMax *= 1.001 * get_weight(xopt) with xopt a PARAMETER (calWtMax, getWeightCal); the harness observes which variant the tree has (relative objective f(x0) = -1 or not) and passes as xopt the point that attains the maximum (unrepaired: the single optimiser answer; repaired: best of the sample's best point and the two optimisers' answers, mapped back from the scaled coordinates). Proved: calmax_rescales, calmax_weight_le_one_iff (weight <= 1 afterwards IFF xopt is within 0.1% of the global maximum - the optimisers stay parameters), calmax_weight_exceeds_one_example, and for the repaired routine calmax_best_of_candidates (Props/C10e.lean: no candidate - no point of the routine's own sample, no optimiser answer - ends above 1/1.001), calmax_single_start_not_best. The scan of the weights after cal_max_weight() (deterministic many-body / near-threshold / heavy-before-light mass sets + seeded sets, corners, edges, random points, generate(flatten=False)) runs on every run",
]

MASS_CHOICES = [0.0, 0.000511, 0.139, 0.493, 0.938, 1.5]
# deterministic mass sets for the scan after cal_max_weight(): many bodies (tiny weights relative to the analytic bound),
# a heavy daughter listed before much lighter ones, equal masses
CALMAX_SETS = [(3.0, [0.1, 0.2, 0.3, 0.4, 0.5, 0.1]), (1.86484, [0.49368, 0.49368, 0.13957, 0.13957]), (3.2, [0.5, 2.0, 0.2, 0.2]),
               (4.0, [0.938, 0.938, 0.493, 0.139, 0.139]), (1.0, [0.0, 0.0, 0.0])]
Q_CHOICES = [1e-6, 1e-3, 0.05, 0.4, 1.0, 3.0]


# ---------------------------------------------------------------------------------------------
# harness-fed uniform stream
# ---------------------------------------------------------------------------------------------

class Stream:
    """Replacement for tf.random.uniform inside the harness process: numbers come from a seeded numpy generator
    (or from a script of arrays), every call is recorded."""

    def __init__(self, rng, script=None):
        self.rng = rng
        self.script = list(script) if script is not None else None
        self.calls = []

    def __call__(self, shape, minval=0, maxval=None, dtype="float32", seed=None, name=None):
        import tensorflow as tf
        shp = tuple(int(s) for s in shape)
        if self.script:
            arr = np.asarray(self.script.pop(0), dtype=np.float64)
            if arr.shape != shp:
                arr = np.resize(arr, shp)
        else:
            arr = self.rng.random(shp)
        self.calls.append(arr)
        return tf.constant(arr, dtype=dtype)

    def __enter__(self):
        import tensorflow as tf
        self._old = tf.random.uniform
        tf.random.uniform = self
        return self

    def __exit__(self, *a):
        import tensorflow as tf
        tf.random.uniform = self._old
        return False


class ImplTimeout(Exception):
    pass


class time_limit:
    """SIGALRM watchdog around calls into the implementation (a broken refill loop never returns)."""

    def __init__(self, seconds):
        self.seconds = int(seconds)

    def _handler(self, signum, frame):
        raise ImplTimeout("no result within %d s" % self.seconds)

    def __enter__(self):
        import signal
        self._old = signal.signal(signal.SIGALRM, self._handler)
        signal.alarm(self.seconds)
        return self

    def __exit__(self, *a):
        import signal
        signal.alarm(0)
        signal.signal(signal.SIGALRM, self._old)
        return False


GEN_LIMIT = 60  # seconds for one generate()/generate_phsp() call (normal: well below 5 s; 300 in the thorough tier)


def set_limits(ctx):
    global GEN_LIMIT
    GEN_LIMIT = 60 if ctx.quick else 300


def enc(arr):
    a = np.ascontiguousarray(np.asarray(arr, dtype=np.float64)).reshape(-1)
    return " ".join(map(str, a.view(np.uint64).tolist()))


def dec(tokens):
    return np.array([int(t) for t in tokens], dtype=np.uint64).view(np.float64)


def enc_draws(calls):
    return " ".join(enc([float(c.size)]) + (" " + enc(c) if c.size else "") for c in calls)


def mass_sets(rng, count, ns=(2, 3, 4, 5, 6)):
    """Seeded decays: n = 2..6, massless / light / heavy daughters, Q values from near threshold to large."""
    out = []
    k = 0
    while len(out) < count:
        n = ns[k % len(ns)]
        kind = (k // len(ns)) % 5
        mi = [float(rng.choice(MASS_CHOICES)) for _ in range(n)]
        if kind == 1:
            mi = [0.0] * n
        if kind == 2:
            mi = [float(rng.choice([0.0, 0.139]))] + mi[1:]
        q = float(rng.choice(Q_CHOICES))
        if kind == 3:  # near threshold
            q = float(rng.choice([1e-7, 1e-5])) * (sum(mi) + 1.0)
        if kind == 4:
            q = float(rng.uniform(0.01, 2.0))
        m0 = sum(mi) + q
        k += 1
        if m0 - sum(mi) <= 0:
            continue
        out.append((m0, mi))
    return out


def f32_variant():
    """Does get_p on this tree round p2 through float32 when all arguments are Python floats?"""
    from tf_pwa.phasespace import get_p
    v = float(get_p(1.0, 0.3, 0.2))
    exact = math.sqrt((1.0 - 0.25) * (1.0 - 0.1 * 0.1)) / 2.0
    p2 = (1.0 - (0.3 + 0.2) ** 2) * (1.0 - (0.3 - 0.2) ** 2)
    v32 = math.sqrt(float(np.float32(p2))) / 2.0
    if abs(v - exact) <= 4e-16:
        return False
    if abs(v - v32) <= 4e-16:
        return True
    return None


def tree_enc(m0, mi):
    """prefix encoding of a struct for the Lean driver: k m [children]"""
    out = [float(len(mi)), float(m0)]
    for m in mi:
        if isinstance(m, (tuple, list)):
            out += tree_enc(m[0], m[1])
        else:
            out += [0.0, float(m)]
    return out


def leaves(x):
    if isinstance(x, (list, tuple)):
        r = []
        for i in x:
            r += leaves(i)
        return r
    return [x]


def leaf_masses(mi):
    r = []
    for m in mi:
        if isinstance(m, (tuple, list)):
            r += leaf_masses(m[1])
        else:
            r.append(float(m))
    return r


NESTED = [
    (1.0, ((0.3, (0.1, 0.1)), 0.2)),
    (5.28, ((3.1, (0.105, 0.105)), (0.892, (0.493, 0.139)))),
    (4.6, ((2.5, (0.938, (1.2, (0.493, 0.139, 0.139)))), 1.9)),
    (6.0, ((4.0, ((2.5, ((1.2, (0.3, 0.4)), 0.5)), 0.6)), 0.7)),   # depth 4, every level nested in its first daughter
    (3.0, (0.0, (1.5, (0.0, 0.0, 0.5)), (0.9, (0.139, 0.139)))),
    (2.0, ((1.2, ((0.6, (0.139, 0.139)), (0.5, (0.0, 0.0)))), (0.3, (0.000511, 0.000511)), 0.139)),
]


# ---------------------------------------------------------------------------------------------
# correspondence: Float instance of templates/Phsp.lean.in vs tf_pwa.phasespace on the same uniform numbers
# ---------------------------------------------------------------------------------------------

def correspond(ctx, res):
    import tensorflow as tf
    set_limits(ctx)
    from tf_pwa import phasespace as ph
    rng = np.random.Generator(np.random.Philox(ctx.seed + 1010))
    f32 = f32_variant()
    if f32 is None:
        res.broke("correspondence get_p(python floats)", "get_p(1.0, 0.3, 0.2) = %r is neither the double nor the float32-rounded value" % float(ph.get_p(1.0, 0.3, 0.2)))
        f32 = False
    F = "1" if f32 else "0"
    res.notes.append("get_p on Python-float arguments: %s" % ("float32-rounded p2 (unfixed tree)" if f32 else "double precision"))
    lines, checks = [], []

    def add(line, fn):
        lines.append("C10 " + line)
        checks.append(fn)

    bad = []
    stats = {"worst": {}, "skipped": 0, "n": {}}

    def cmp(tag, impl, tol, scale=1.0, info=None, pre=None):
        impl = np.asarray(impl, dtype=np.float64).reshape(-1)

        def fn(out):
            toks = out.split()
            stats["n"][tag] = stats["n"].get(tag, 0) + 1
            if out == "bad-op" or len(toks) != impl.size:
                bad.append({"what": tag, "model": out[:200], "impl": impl[:8].tolist(), "info": info})
                return
            mv = dec(toks)
            if pre is not None:
                mv = pre(mv)
            both_nan = np.isnan(mv) & np.isnan(impl)   # 0/0 in both (M*M underflows): agreement
            sc = np.where(np.isfinite(np.asarray(scale, dtype=np.float64)), scale, 1.0)
            err = np.where(both_nan, 0.0, np.abs(mv - impl) / sc)
            e = float(np.max(err)) if err.size else 0.0
            if not np.isfinite(e):
                e = float("inf")
            stats["worst"][tag] = max(stats["worst"].get(tag, 0.0), e)
            if not e <= tol:
                bad.append({"what": tag, "err": e, "tol": tol, "model": mv[:12].tolist(), "impl": impl[:12].tolist(), "info": info})
        return fn

    # (a) get_p on tensors: physical, threshold, below threshold (clamp), massless
    ng = 400 if ctx.quick else 6000
    for i in range(ng):
        a, b = float(rng.choice(MASS_CHOICES)), float(rng.choice(MASS_CHOICES))
        kind = i % 6
        if kind == 0:
            M = a + b + float(rng.uniform(0, 3))
        elif kind == 1:
            M = (a + b) * (1 + float(rng.choice([1e-12, 1e-9, 1e-6]))) + 1e-300
        elif kind == 2:
            M = (a + b) * float(rng.uniform(0.2, 1.0)) + 1e-3      # below threshold: clamp or |a-b| branch
        elif kind == 3:
            M = a + b                                              # exactly at threshold
        elif kind == 4:
            M = abs(a - b) * float(rng.uniform(0.1, 1.0)) + 1e-3   # below |a-b|: p2 > 0 again (no clamp)
        else:
            M = float(rng.uniform(0.01, 6))
        if M <= 0:
            M = 0.5
        v = float(ph.get_p(tf.constant(M, dtype=tf.float64), a, b))
        # forward error of the formula text: p2 is a product of differences of squares; near threshold the
        # cancellation in M^2-(a+b)^2 amplifies one rounding of (a+b)**2 (pow vs multiply) by M^2/|M^2-(a+b)^2|
        p2s = abs(M * M - (a + b) ** 2) + 1e-300
        cond = 1.0 + (M * M + (a + b) ** 2) / p2s
        add("getp " + enc([M, a, b]), cmp("get_p", [v], 4e-16 * cond, scale=max(abs(v), 1e-300), info=[M, a, b]))
        vp = float(ph.get_p(M, a, b))
        tolp = (1e-7 if f32 else 4e-16 * cond)
        add("getppy %s " % F + enc([M, a, b]), cmp("get_p_python_floats", [vp], tolp if f32 else 4e-16 * cond, scale=max(abs(vp), 1e-300), info=[M, a, b]))

    # (b) the refill guess formula
    for i in range(200 if ctx.quick else 3000):
        N = int(rng.choice([1, 2, 7, 100, 1000, 50000, 10 ** 6]))
        ng_ = int(rng.integers(0, N))
        nt = N + int(rng.integers(0, 10 * N + 1))
        py = min(int(1.01 * (nt - ng_) / (ng_ + 1) * N), 4000000)

        def fn(out, py=py, a=(nt, ng_, N)):
            stats["n"]["guess"] = stats["n"].get("guess", 0) + 1
            if out != str(py):
                bad.append({"what": "n_iter2 guess", "args": a, "impl": py, "model": out})
        add("guess %d %d %d" % (nt, ng_, N), fn)

    # (c) per-decay data: wtMax, mass range; per-event masses / importances / weights / momenta
    sets = mass_sets(rng, 25 if ctx.quick else 300)
    nev = 40 if ctx.quick else 200
    nontrivial = 0
    for (m0, mi) in sets:
        n = len(mi)
        g = ph.PhaseSpaceGenerator(m0, mi)
        q = m0 - sum(mi)
        cq = 1.0 + m0 / q  # conditioning of every break-up momentum: cancellation in M - (a+b) ~ Q
        rg = [x for ab in g.mass_range for x in ab]
        add("range %s " % F + enc([m0] + mi), range_check(bad, stats, float(g.m_wtMax), rg, m0, mi, (3e-7 if f32 else 1e-14) * cq * n))
        if n >= 3:
            # uniform numbers incl. the corners 0 and 1-2^-53
            U = rng.random((nev, n - 2))
            U[0, :] = 0.0
            U[1, :] = 1.0 - 2.0 ** -53
            U[2, :] = rng.choice([0.0, 1.0 - 2.0 ** -53], size=n - 2)
            with Stream(rng, script=[U[:, i] for i in range(n - 2)]):
                ms = g.generate_mass(nev)
            imp = g.mass_importances(ms)
            imp = np.broadcast_to(np.asarray(imp, dtype=np.float64), (nev,))
            w1 = g.get_weight(ms).numpy()
            w0 = g.get_weight(ms, importances=False).numpy()
            msn = np.stack([x.numpy() for x in ms], -1)
            for j in range(nev):
                # rows 0..2 sit exactly on corners of the mass range: some q is the root of a rounding-level p2,
                # forward error sqrt(eps) instead of eps
                # (relative to the bound the error is sqrt(eps * m0/Q): the bound itself shrinks with Q)
                tolw = 1e-13 * cq * n if j >= 3 else 1e-7 * math.sqrt(cq) * n
                add("ev %s %d " % (F, n) + enc([m0] + mi + list(U[j])),
                    cmp("generate_mass/importances/get_weight", list(msn[j]) + [imp[j], w1[j], w0[j]], tolw, scale=np.array([m0] * (n - 2) + [1.0, 1.0, 1.0]), info=[m0, mi, list(U[j])]))
            nontrivial += nev
            # momenta for these mass points
            with Stream(rng) as st:
                pi = g.generate_momentum(ms)
            UV = np.stack(st.calls, -1)  # (nev, 2(n-1))
            P = np.stack([x.numpy() for x in pi], 1).reshape(nev, -1)
            for j in range(nev):
                add("mom %s %d " % (F, n) + enc([m0] + mi + list(msn[j]) + list(UV[j])),
                    cmp("generate_momentum", P[j], 1e-12 * cq if j >= 3 else 1e-7, scale=m0, info=[m0, mi, list(msn[j]), list(UV[j])]))
        else:
            with Stream(rng) as st:
                pi = g.generate_momentum([], nev)
            UV = np.stack(st.calls, -1)
            P = np.stack([x.numpy() for x in pi], 1).reshape(nev, -1)
            for j in range(nev):
                add("mom %s %d " % (F, n) + enc([m0] + mi + list(UV[j])),
                    cmp("generate_momentum", P[j], (3e-7 if f32 else 1e-12) * cq, scale=m0, info=[m0, mi, [], list(UV[j])]))

    # (c2) cal_max_weight(): the optimiser is a parameter (its returned point is recorded), the rescaling is the model's
    import scipy.optimize as sopt
    ncal = 0
    for (m0, mi) in [s_ for s_ in sets if len(s_[1]) >= 3][: (6 if ctx.quick else 40)]:
        n = len(mi)
        g = ph.PhaseSpaceGenerator(m0, mi)
        rec = {}
        old_min = sopt.minimize

        def wrapped(f, x0, *a, _old=old_min, _rec=rec, _g=g, **kw):
            r = _old(f, x0, *a, **kw)
            # repaired tree: the objective is the weight relative to the best point x0 of a random sample (f(x0) = -1), in
            # coordinates scaled to the mass ranges, maximised by two methods; the new maximum is 1.001 * the largest of
            # weight(x0) and the weights at the returned points: the model's parameter `xopt` is whichever point attains it.
            # Unrepaired tree: one call from a single random start, xopt = x* whatever it is.
            f0 = float(f(np.array(x0, dtype=np.float64)))
            relative = abs(f0 + 1.0) < 1e-9
            _rec["relative"] = relative
            if relative:
                lo = np.array([i[0] for i in _g.mass_range], dtype=np.float64)
                wd = np.array([i[1] - i[0] for i in _g.mass_range], dtype=np.float64)
                cands = _rec.setdefault("cands", [(-1.0, lo + np.array(x0, dtype=np.float64) * wd)])
                if np.isfinite(r.fun):
                    cands.append((float(r.fun), lo + np.array(r.x, dtype=np.float64) * wd))
                best = min(cands, key=lambda c: c[0])
                _rec["fun"], _rec["x"] = best[0], best[1]
            else:
                _rec["x"], _rec["fun"] = np.array(r.x, dtype=np.float64), float(r.fun)
            return r
        sopt.minimize = wrapped
        try:
            with Stream(rng), time_limit(GEN_LIMIT):
                g.cal_max_weight()
        except ImplTimeout as e:
            bad.append({"what": "cal_max_weight did not return", "detail": str(e), "info": [m0, mi]})
            break
        finally:
            sopt.minimize = old_min
        wt_after = float(g.m_wtMax)
        if "x" not in rec or not np.isfinite(wt_after) or not np.isfinite(rec["fun"]) or rec["fun"] >= 0:
            stats["skipped"] += 1          # optimiser ended on a NaN / zero weight: nothing to compare
            continue
        U = rng.random((4, n - 2)) * 0.9 + 0.05
        with Stream(rng, script=[U[:, i] for i in range(n - 2)]):
            ms = g.generate_mass(4)
        w_after = np.asarray(g.get_weight(ms).numpy(), dtype=np.float64)
        msn = np.stack([x.numpy() for x in ms], -1)
        cq = 1.0 + m0 / (m0 - sum(mi))
        for j in range(4):
            ncal += 1
            add("calwt %s %d " % (F, n) + enc([m0] + mi + list(rec["x"]) + list(msn[j])),
                cmp("cal_max_weight", [1.0, w_after[j]], 1e-9 * cq, scale=np.array([1.0, max(abs(w_after[j]), 1e-300)]),
                    info=[m0, mi, list(rec["x"]), list(msn[j])], pre=lambda v, w=wt_after: np.array([v[0] / w, v[1]])))
    res.coverage["cal_max_weight_points_compared"] = ncal
    res.coverage["cal_max_weight_variant"] = "best-of-sample start, relative objective (repaired)" if rec.get("relative") else "single random start (unrepaired)"

    # (d) whole generate(N): same stream of draws -> same accepted events, same number of refills, same momenta
    gens = []
    Ns = [1, 7, 1000]
    gsets = mass_sets(rng, 10 if ctx.quick else 40)
    skipped_big = 0
    budget = 1500000 if ctx.quick else 8000000   # the interpreted Lean model does ~1.4e5 numbers/s: keep the run bounded
    for k, (m0, mi) in enumerate(gsets):
        N = Ns[k % 3] if ctx.quick or k % 7 else 5000
        if len(mi) >= 5 and N > 7:
            N = 40 if (ctx.quick or len(mi) == 6) else 200
        g = ph.PhaseSpaceGenerator(m0, mi)
        try:
            with Stream(rng) as st, time_limit(GEN_LIMIT):
                pi = g.generate(N)
        except ImplTimeout as e:
            bad.append({"what": "generate did not return", "detail": str(e), "info": [m0, mi, N]})
            break
        P = np.stack([x.numpy() for x in pi], 1)  # (N, n, 4)
        q = m0 - sum(mi)
        cq = 1.0 + m0 / q
        nnum = int(sum(c.size for c in st.calls))
        if nnum > budget:
            skipped_big += 1
            continue
        budget -= nnum
        gens.append((m0, mi, N, len(st.calls), nnum))
        add("gen %s 1 %d %d " % (F, N, len(mi)) + enc([m0] + mi) + " " + enc_draws(st.calls),
            gen_check(bad, stats, "generate", P, m0, (3e-7 if (f32 and len(mi) == 2) else 1e-12) * cq, [m0, mi, N], st.calls))
    res.coverage["generate_runs_skipped_too_large_for_model"] = skipped_big

    # (d2) every keyword path of generate(N, force, flatten, importances) (model generateOpt) and applications.gen_mc
    #      (model genMc): same stream -> same weights / accepted events / number of refills / momenta
    kw_runs = 0
    KW = [(True, False, True), (True, True, False), (False, True, True), (True, False, False), (False, True, False), (False, False, True)]
    osets = mass_sets(rng, 6 if ctx.quick else 30)
    for k, (m0, mi) in enumerate(osets):
        n = len(mi)
        for kk, (imp_, force_, flat_) in enumerate(KW):
            N = [1, 7, 60][(k + kk) % 3]
            if n >= 5 and force_ and flat_:
                N = min(N, 7)
            g = ph.PhaseSpaceGenerator(m0, mi)
            try:
                with Stream(rng) as st, time_limit(GEN_LIMIT):
                    out_ = g.generate(N, force=force_, flatten=flat_, importances=imp_)
            except ImplTimeout as e:
                bad.append({"what": "generate(keywords) did not return", "detail": str(e), "info": [m0, mi, N, imp_, force_, flat_]})
                break
            if flat_:
                wts, pi = np.zeros(0), out_
            else:
                wts, pi = out_
                wts = np.broadcast_to(np.asarray(wts.numpy(), dtype=np.float64), (N,))   # two-body: a scalar
            P = np.stack([x.numpy() for x in pi], 1)
            nnum = int(sum(c.size for c in st.calls))
            if nnum > 400000:
                continue
            cq = 1.0 + m0 / (m0 - sum(mi))
            kw_runs += 1
            add("geno %s %d %d %d %d %d " % (F, int(imp_), int(force_), int(flat_), N, n) + enc([m0] + mi) + " " + enc_draws(st.calls),
                geno_check(bad, stats, P, wts, m0, N, force_, flat_, n, (3e-7 if (f32 and n == 2) else 1e-12) * cq,
                           [m0, mi, N, {"importances": imp_, "force": force_, "flatten": flat_}], st.calls))
    from tf_pwa.applications import gen_mc
    for k, (m0, mi) in enumerate(osets[:4] if ctx.quick else osets[:12]):
        N = [7, 1, 40][k % 3] if len(mi) < 5 else 3
        try:
            with Stream(rng) as st, time_limit(GEN_LIMIT):
                pf = np.asarray(gen_mc(m0, mi, N), dtype=np.float64)
        except ImplTimeout as e:
            bad.append({"what": "gen_mc did not return", "detail": str(e), "info": [m0, mi, N]})
            break
        if int(sum(c.size for c in st.calls)) > 400000:
            continue
        kw_runs += 1
        cq = 1.0 + m0 / (m0 - sum(mi))
        add("genmc %s %d %d " % (F, N, len(mi)) + enc([m0] + mi) + " " + enc_draws(st.calls),
            genmc_check(bad, stats, pf, m0, N * len(mi), (3e-7 if (f32 and len(mi) == 2) else 1e-12) * cq, [m0, mi, N]))
    res.coverage["generate_keyword_and_gen_mc_runs"] = kw_runs

    # (e) nested chains
    for k, (m0, mi) in enumerate(NESTED if not ctx.quick else NESTED[:5]):
        N = [7, 300, 1, 50, 20][k % 5] if ctx.quick else [7, 1000, 1, 2000][k % 4]
        try:
            with Stream(rng) as st, time_limit(GEN_LIMIT):
                out = ph.generate_phsp(m0, mi, N)
        except ImplTimeout as e:
            bad.append({"what": "generate_phsp did not return", "detail": str(e), "info": [m0, str(mi), N]})
            break
        lv = leaves(out)
        P = np.stack([x.numpy() for x in lv], 1)
        add("chain %s %d " % (F, N) + enc(tree_enc(m0, mi)) + " " + enc_draws(st.calls),
            gen_check(bad, stats, "generate_phsp(nested)", P, m0, (3e-6 if f32 else 1e-11), [m0, str(mi), N], st.calls, chain=True))

    import time
    t0 = time.time()
    out = ctx.model.query(lines)
    res.coverage["model_wall_s"] = round(time.time() - t0, 1)
    for o, fn in zip(out, checks):
        fn(o)
    res.coverage.update({
        "traces_validated_against_impl": len(lines),
        "evaluations": len(lines),
        "distinct_nontrivial": int(nontrivial + len(gens)),
        "rule": "get_p on tensors and on Python floats (physical, at/below threshold, below |a-b|); n_iter2 guess formula; per decay (n=2..6, masses from {0, m_e, m_pi, m_K, m_p, 1.5}, Q from 1e-7 relative to 3): wtMax and mass_range, per event generate_mass (uniforms incl. corners 0 and 1-2^-53), mass_importances, get_weight with/without importances, generate_momentum; whole generate(N) for N in {1,7,1000(,5000)} and generate_phsp on nested structs with the recorded stream of tf.random.uniform calls; non-trivial = events of decays with n >= 3 (weights, importance factors in play) + whole-generator runs",
        "exhaustive": False,
        "ops_by_kind": stats["n"],
        "worst_err_by_kind": stats["worst"],
        "generate_runs": [{"m0": a, "mi": b, "N": c, "uniform_calls": d, "uniform_numbers": e} for a, b, c, d, e in gens[:12]],
        "get_p_python_float_variant": "float32" if f32 else "float64",
        "disagreements": len(bad),
    })
    res.samples += [{"op": lines[k][:300], "model": out[k][:200]} for k in (0, 1, len(lines) // 2)]
    if bad:
        res.broke("correspondence PhspF vs tf_pwa.phasespace", {"n": len(bad), "first": bad[:3]})
        ctx.hint = bad[0]


def range_check(bad, stats, wtmax, rg, m0, mi, tol):
    def fn(out):
        stats["n"]["set_decay/mass_range"] = stats["n"].get("set_decay/mass_range", 0) + 1
        toks = out.split()
        if out == "bad-op" or toks[0] != "1" or len(toks) != 2 + len(rg):
            bad.append({"what": "set_decay/mass_range", "model": out[:200], "info": [m0, mi]})
            return
        v = dec(toks[1:])
        e = abs(v[0] - wtmax) / abs(wtmax) if wtmax != 0 else abs(v[0])
        if rg:
            e = max(e, float(np.max(np.abs(v[1:] - np.array(rg)))) / m0)
        stats["worst"]["set_decay/mass_range"] = max(stats["worst"].get("set_decay/mass_range", 0.0), e)
        if not e <= tol:
            bad.append({"what": "set_decay/mass_range", "err": e, "tol": tol, "model": v.tolist(), "impl": [wtmax] + rg, "info": [m0, mi]})
    return fn


def gen_check(bad, stats, tag, P, m0, tol, info, calls, chain=False):
    def fn(out):
        stats["n"][tag] = stats["n"].get(tag, 0) + 1
        toks = out.split()
        if not toks or toks[0] != "ok":
            bad.append({"what": tag, "model": out[:200], "info": info, "draw_shapes": [int(c.size) for c in calls][:40]})
            return
        if chain:
            nev, rest = int(toks[1]), toks[2:]
        else:
            ntot, unused, nev, rest = int(toks[1]), int(toks[2]), int(toks[3]), toks[4:]
            if unused != 0:
                bad.append({"what": tag + ": model did not consume every tf.random.uniform call of the implementation", "unused": unused, "info": info})
                return
        if nev != P.shape[0] or len(rest) != P.size:
            bad.append({"what": tag + ": number of events", "model": nev, "impl": int(P.shape[0]), "info": info})
            return
        mv = dec(rest).reshape(P.shape)
        e = float(np.max(np.abs(mv - P))) / m0 if P.size else 0.0
        if not np.isfinite(e):
            e = float("inf")
        stats["worst"][tag] = max(stats["worst"].get(tag, 0.0), e)
        if not e <= tol:
            j = int(np.argmax(np.max(np.abs(mv - P).reshape(P.shape[0], -1), -1)))
            bad.append({"what": tag, "err": e, "tol": tol, "event": j, "model": mv[j].reshape(-1)[:12].tolist(), "impl": P[j].reshape(-1)[:12].tolist(), "info": info})
    return fn


def geno_check(bad, stats, P, wts, m0, N, force, flatten, n, tol, info, calls):
    """answer of `geno`: ok nTotal nUnused nEvents nWeights weights... momenta..."""
    tag = "generate(force/flatten/importances)"

    def fn(out):
        stats["n"][tag] = stats["n"].get(tag, 0) + 1
        toks = out.split()
        if not toks or toks[0] != "ok" or len(toks) < 5:
            bad.append({"what": tag, "model": out[:200], "info": info, "draw_shapes": [int(c.size) for c in calls][:40]})
            return
        unused, nev, nw = int(toks[2]), int(toks[3]), int(toks[4])
        rest = toks[5:]
        if unused != 0:
            bad.append({"what": tag + ": model did not consume every tf.random.uniform call of the implementation", "unused": unused, "info": info})
            return
        if nev != P.shape[0] or nw != wts.size or len(rest) != nw + P.size:
            bad.append({"what": tag + ": number of events / weights", "model": [nev, nw], "impl": [int(P.shape[0]), int(wts.size)], "info": info})
            return
        # what the theorems exact_count_all_paths state, on the implementation's own output
        if ((force or not flatten or n == 2) and P.shape[0] != N) or P.shape[0] > N or (not flatten and wts.size != N):
            bad.append({"what": tag + ": count contract", "impl_events": int(P.shape[0]), "N": N, "info": info})
            return
        mv = dec(rest)
        mw, mp = mv[:nw], mv[nw:].reshape(P.shape)
        e = float(np.max(np.abs(mp - P))) / m0 if P.size else 0.0
        if nw:
            e = max(e, float(np.max(np.abs(mw - wts) / np.maximum(np.abs(wts), 1e-3))))
        if not np.isfinite(e):
            e = float("inf")
        stats["worst"][tag] = max(stats["worst"].get(tag, 0.0), e)
        if not e <= tol:
            bad.append({"what": tag, "err": e, "tol": tol, "model_w": mw[:6].tolist(), "impl_w": wts[:6].tolist(),
                        "model": mp.reshape(-1)[:8].tolist(), "impl": P.reshape(-1)[:8].tolist(), "info": info})
    return fn


def genmc_check(bad, stats, pf, m0, nrows, tol, info):
    tag = "applications.gen_mc"

    def fn(out):
        stats["n"][tag] = stats["n"].get(tag, 0) + 1
        toks = out.split()
        if not toks or toks[0] != "ok":
            bad.append({"what": tag, "model": out[:200], "info": info})
            return
        if int(toks[1]) != pf.shape[0] or pf.shape != (nrows, 4) or len(toks) - 2 != pf.size:
            bad.append({"what": tag + ": number of rows", "model": int(toks[1]), "impl": list(pf.shape), "expected_rows": nrows, "info": info})
            return
        mv = dec(toks[2:]).reshape(pf.shape)
        e = float(np.max(np.abs(mv - pf))) / m0 if pf.size else 0.0
        if not np.isfinite(e):
            e = float("inf")
        stats["worst"][tag] = max(stats["worst"].get(tag, 0.0), e)
        if not e <= tol:
            j = int(np.argmax(np.max(np.abs(mv - pf), -1)))
            bad.append({"what": tag, "err": e, "tol": tol, "row": j, "model": mv[j].tolist(), "impl": pf[j].tolist(), "info": info})
    return fn


# ---------------------------------------------------------------------------------------------
# search: the property statement itself on the implementation (oracles independent of the Lean model)
# ---------------------------------------------------------------------------------------------

F32_KEY = "get_p:float32-python-scalars"


def case_rng(sseed):
    return np.random.Generator(np.random.Philox(key=int(sseed) % (2 ** 63)))


def m2_of(p):
    return p[..., 0] ** 2 - p[..., 1] ** 2 - p[..., 2] ** 2 - p[..., 3] ** 2


def _gamma2_bound(P, m0):
    """largest gamma^2 of any sub-system boost, estimated from the final momenta themselves: the partial sums
    p_n + p_{n-1} + ... are the intermediate systems of the sequential decay"""
    g2 = 1.0
    acc = P[:, P.shape[1] - 1]
    for k in range(P.shape[1] - 2, 0, -1):
        acc = acc + P[:, k]
        mm = np.maximum(m2_of(acc), 1e-300)
        g2 = max(g2, float(np.max(acc[:, 0] ** 2 / mm)))
    return min(g2, 1e12)


def check_events(P, m0, masses, tag, f32, fails, info):
    """P: (N, n, 4). on shell + sum = parent at rest, to double precision (scaled by the boost conditioning)."""
    if P.shape[0] == 0:
        return {}
    g2 = _gamma2_bound(P, m0)
    tol = 2e-13 * (1.0 + g2)
    e_shell = 0.0
    for k, m in enumerate(masses):
        e = float(np.max(np.abs(m2_of(P[:, k]) - m * m))) / (m0 * m0)
        e_shell = max(e_shell, e)
        if not e <= tol:
            fails.append((tag + ":on-shell", "%s: particle %d has |p^2 - m^2| = %.3g m0^2 (m=%r, tolerance %.3g)" % (info, k, e, m, tol)))
            break
    tot = P.sum(1) - np.array([m0, 0.0, 0.0, 0.0])
    e_sum = float(np.max(np.abs(tot))) / m0
    if not np.isfinite(e_sum):
        e_sum = float("inf")
    if not e_sum <= tol:
        if f32 and e_sum <= 1e-6 * (1.0 + g2):
            fails.append((F32_KEY, "%s: momenta sum to the parent only to %.3g m0 (double precision would be <= %.3g): get_p rounds Python-float p2 / M through float32" % (info, e_sum, tol)))
        else:
            fails.append((tag + ":momentum-sum", "%s: sum of momenta deviates from (m0,0,0,0) by %.3g m0 (tolerance %.3g)" % (info, e_sum, tol)))
    return {"shell": e_shell, "sum": e_sum, "gamma2": g2}


def case_generate(m0, mi, N, sseed, f32):
    """exact count, shapes, on-shell, momentum sum of PhaseSpaceGenerator(m0, mi).generate(N)"""
    from tf_pwa import phasespace as ph
    fails = []
    info = "PhaseSpaceGenerator(%r, %r).generate(%d) [stream %d]" % (m0, mi, N, sseed)
    with Stream(case_rng(sseed)) as st:
        pi = ph.PhaseSpaceGenerator(m0, mi).generate(N)
    if len(pi) != len(mi):
        fails.append(("generate:count", "%s returned %d momenta arrays for %d daughters" % (info, len(pi), len(mi))))
        return fails, {}
    shapes = [tuple(int(d) for d in x.shape) for x in pi]
    if any(sh != (N, 4) for sh in shapes):
        fails.append(("generate:count", "%s returned arrays of shape %s, requested %d events" % (info, shapes, N)))
        return fails, {}
    P = np.stack([np.asarray(x.numpy(), dtype=np.float64) for x in pi], 1)
    if not np.all(np.isfinite(P)):
        fails.append(("generate:finite", "%s returned non-finite momenta" % info))
        return fails, {}
    st_ = check_events(P, m0, mi, "generate", f32, fails, info)
    st_["uniform_numbers"] = int(sum(c.size for c in st.calls))
    return fails, st_


def node_list(m0, mi, path=()):
    """[(path, mass, leaf index range)] of the nested nodes of a struct, leaves counted depth first"""
    out, k = [], [0]

    def rec(m0, mi, path):
        start = k[0]
        for i, m in enumerate(mi):
            if isinstance(m, (tuple, list)):
                rec(m[0], m[1], path + (i,))
            else:
                k[0] += 1
        out.append((path, float(m0), (start, k[0])))
    rec(m0, mi, path)
    return out


def same_shape(struct_mi, out):
    if not isinstance(out, (list, tuple)) or len(out) != len(struct_mi):
        return False
    for m, o in zip(struct_mi, out):
        if isinstance(m, (tuple, list)):
            if not same_shape(m[1], o):
                return False
        elif isinstance(o, (list, tuple)):
            return False
    return True


def case_nested(m0, mi, N, sseed, f32):
    from tf_pwa import phasespace as ph
    fails = []
    info = "generate_phsp(%r, %r, N=%d) [stream %d]" % (m0, mi, N, sseed)
    with Stream(case_rng(sseed)):
        out = ph.generate_phsp(m0, mi, N)
    if not same_shape(mi, out):
        fails.append(("generate_phsp:structure", "%s: the returned nesting does not mirror the requested structure" % info))
        return fails, {}
    lv = leaves(out)
    if any(tuple(int(d) for d in x.shape) != (N, 4) for x in lv):
        fails.append(("generate_phsp:count", "%s returned arrays of shape %s" % (info, [tuple(x.shape) for x in lv])))
        return fails, {}
    P = np.stack([np.asarray(x.numpy(), dtype=np.float64) for x in lv], 1)
    lm = leaf_masses(mi)
    g2 = 1.0
    nodes = node_list(m0, mi)
    for path, mass, (a, b) in nodes:
        tot = P[:, a:b].sum(1)
        g2 = max(g2, float(np.max(tot[:, 0] ** 2 / np.maximum(m2_of(tot), 1e-300))))
    g2 = min(g2, 1e12)
    tol = 4e-13 * (1.0 + g2) * len(nodes)
    worst = 0.0
    for k, m in enumerate(lm):
        e = float(np.max(np.abs(m2_of(P[:, k]) - m * m))) / (m0 * m0)
        worst = max(worst, e)
        if not e <= tol:
            fails.append(("generate_phsp:on-shell", "%s: final particle %d has |p^2 - m^2| = %.3g m0^2 (m=%r, tolerance %.3g)" % (info, k, e, m, tol)))
            break
    for path, mass, (a, b) in nodes:
        tot = P[:, a:b].sum(1)
        if path == ():
            e = float(np.max(np.abs(tot - np.array([m0, 0, 0, 0])))) / m0
            what = "sum of all momenta deviates from (m0,0,0,0) by %.3g m0" % e
            key = "generate_phsp:momentum-sum"
        else:
            e = float(np.max(np.abs(m2_of(tot) - mass * mass))) / (m0 * m0)
            what = "daughters of the intermediate state %s (fixed mass %r) have |(sum p)^2 - m^2| = %.3g m0^2" % (list(path), mass, e)
            key = "generate_phsp:intermediate-mass"
        if not np.isfinite(e):
            e = float("inf")
        worst = max(worst, e)
        if not e <= tol:
            if f32 and e <= 3e-6 * (1.0 + g2) * len(nodes):
                fails.append((F32_KEY, "%s: %s (double precision would be <= %.3g): get_p rounds Python-float p2 / M through float32" % (info, what, tol)))
            else:
                fails.append((key, "%s: %s (tolerance %.3g)" % (info, what, tol)))
    return fails, {"worst": worst, "gamma2": g2}


def corner_uniforms(rng, k, deep):
    vals = [0.0, 2.0 ** -30, 1e-3, 0.5, 1 - 1e-3, 1 - 2.0 ** -30, 1 - 2.0 ** -53]
    if k <= (5 if deep else 3):
        rows = list(itertools.product(vals, repeat=k))
    else:
        rows = [tuple(rng.choice(vals, size=k)) for _ in range(3000)]
    return np.array(rows, dtype=np.float64).reshape(-1, k)


def case_weight(m0, mi, sseed, nrand, deep=False, cal_max=False):
    """0 <= acceptance weight <= 1 on everything generate_mass can produce: random events + corners/edges"""
    from tf_pwa import phasespace as ph
    fails = []
    n = len(mi)
    rng = case_rng(sseed)
    g = ph.PhaseSpaceGenerator(m0, mi)
    info = "PhaseSpaceGenerator(%r, %r)%s" % (m0, mi, ".cal_max_weight()" if cal_max else "")
    if cal_max:
        with Stream(rng):
            g.cal_max_weight()
    U = np.concatenate([corner_uniforms(rng, n - 2, deep), rng.random((nrand, n - 2))], 0)
    # edges: one coordinate random, the others at corners
    E = rng.choice([0.0, 1 - 2.0 ** -53], size=(min(nrand, 4000), n - 2))
    E[np.arange(E.shape[0]), rng.integers(0, n - 2, E.shape[0])] = rng.random(E.shape[0])
    U = np.concatenate([U, E], 0)
    with Stream(rng, script=[U[:, i] for i in range(n - 2)]):
        ms = g.generate_mass(U.shape[0])
    w = np.asarray(g.get_weight(ms).numpy(), dtype=np.float64)
    key = "cal_max_weight:weight-range" if cal_max else "get_weight:range"
    # an intermediate mass of exactly 0 (massless daughters and a uniform number of exactly 0) is the excluded
    # 0/0 branch of get_p: the weight is NaN there, `weight > rnd` is False, the point is rejected
    msn = np.stack([np.asarray(x.numpy(), dtype=np.float64) for x in ms], -1)
    zero_mass = np.any(msn == 0.0, axis=-1)
    nan_ok = np.isnan(w) & zero_mass
    w = np.where(nan_ok, 0.0, w)
    wmax, wmin = float(np.nanmax(w)), float(np.nanmin(w))
    if np.any(~np.isfinite(w)):
        j = int(np.where(~np.isfinite(w))[0][0])
        fails.append((key, "%s: weight %r at uniforms %r" % (info, w[j], U[j].tolist())))
    if wmax > 1.0 + 1e-12:
        j = int(np.nanargmax(w))
        fails.append((key, "%s: acceptance weight %.17g > 1 at uniforms %r (masses %r)" % (info, wmax, U[j].tolist(), [float(x[j]) for x in ms])))
    if wmin < -1e-12:   # rounding of (b - a) at the upper corner can give -1e-24; such a point is rejected anyway
        j = int(np.nanargmin(w))
        fails.append((key, "%s: acceptance weight %.17g < 0 at uniforms %r" % (info, wmin, U[j].tolist())))
    # the weights of generate(flatten=False) are the same function
    with Stream(rng):
        w2, _ = g.generate(min(nrand, 2000), flatten=False)
    w2 = np.asarray(w2.numpy(), dtype=np.float64)
    if w2.size and (float(np.max(w2)) > 1.0 + 1e-12 or float(np.min(w2)) < -1e-12):
        fails.append((key, "%s.generate(flatten=False): weights in [%.17g, %.17g]" % (info, float(np.min(w2)), float(np.max(w2)))))
    return fails, {"max_weight": wmax, "points": int(U.shape[0]), "zero_mass_nan_points": int(np.sum(nan_ok))}


# ---- analytic phase-space spectra (numpy only) ------------------------------------------------

def _q(M, a, b):
    p2 = (M * M - (a + b) ** 2) * (M * M - (a - b) ** 2)
    return np.sqrt(np.maximum(p2, 0.0)) / (2.0 * np.maximum(M, 1e-300))


_GL = {}


def _gl(k):
    if k not in _GL:
        x, w = np.polynomial.legendre.leggauss(k)
        _GL[k] = (0.5 * (x + 1.0), 0.5 * w)
    return _GL[k]


def R_phsp(M, masses, G=40):
    """R_k(M; m_1..m_k) = M * Phi_k up to a constant: R_2 = q(M; m1, m2),
    R_k(M; m1, rest) = int_{sum(rest)}^{M - m1} dmu q(M; m1, mu) R_{k-1}(mu; rest)   (vectorised over M)"""
    M = np.asarray(M, dtype=np.float64)
    if len(masses) == 2:
        return _q(M, masses[0], masses[1])
    m1, rest = masses[0], list(masses[1:])
    lo = sum(rest)
    hi = np.maximum(M - m1, lo)
    t, w = _gl(G)
    th = 0.5 * np.pi * t                       # mu = lo + (hi-lo) sin^2(theta): smooth at both root-type end points
    s2 = np.sin(th) ** 2
    jac = 0.5 * np.pi * 2.0 * np.sin(th) * np.cos(th) * w
    mu = lo + (hi - lo)[..., None] * s2
    val = _q(M[..., None], m1, mu) * R_phsp(mu, rest, G)
    return (hi - lo) * np.sum(val * jac, -1)


def chi2_pvalue(obs, exp):
    from scipy.stats import chi2
    obs, exp = np.asarray(obs, float), np.asarray(exp, float)
    # merge bins with small expectation into one
    small = exp < 25
    if np.any(small) and np.sum(~small) > 2:
        obs = np.concatenate([obs[~small], [obs[small].sum()]])
        exp = np.concatenate([exp[~small], [exp[small].sum()]])
    x2 = float(np.sum((obs - exp) ** 2 / np.maximum(exp, 1e-300)))
    dof = len(obs) - 1
    return x2, dof, float(chi2.sf(x2, dof))


P_ALARM = 1e-9


def case_dalitz(m0, mi, N, sseed, K=16):
    """3-body: accepted events are uniform in (s12, s23).  Map s12 through the analytic marginal CDF and s23 to its
    relative position between the kinematic limits at that s12: the image must be uniform on the unit square."""
    from tf_pwa import phasespace as ph
    fails = []
    info = "PhaseSpaceGenerator(%r, %r).generate(%d) [stream %d]" % (m0, mi, N, sseed)
    with Stream(case_rng(sseed)):
        p1, p2, p3 = [np.asarray(x.numpy(), dtype=np.float64) for x in ph.PhaseSpaceGenerator(m0, mi).generate(N)]
    m1, m2, m3 = mi
    res_ = {}
    for name, (pa, pb, pc, ma, mb, mc) in {"s12,s23": (p1, p2, p3, m1, m2, m3), "s23,s13": (p2, p3, p1, m2, m3, m1)}.items():
        sab = m2_of(pa + pb)
        sbc = m2_of(pb + pc)
        lo, hi = (ma + mb) ** 2, (m0 - mc) ** 2

        def limits(s):
            rs = np.sqrt(s)
            eb = (s - ma * ma + mb * mb) / (2 * rs)
            ec = (m0 * m0 - s - mc * mc) / (2 * rs)
            pb_ = np.sqrt(np.maximum(eb * eb - mb * mb, 0))
            pc_ = np.sqrt(np.maximum(ec * ec - mc * mc, 0))
            return (eb + ec) ** 2 - (pb_ + pc_) ** 2, (eb + ec) ** 2 - (pb_ - pc_) ** 2
        # marginal CDF on a fine grid in theta (s = lo + (hi-lo) sin^2 theta), Simpson-accurate via cumulative trapezoid
        th = np.linspace(0, 0.5 * np.pi, 40001)
        sg = lo + (hi - lo) * np.sin(th) ** 2
        a_, b_ = limits(np.maximum(sg, 1e-300))
        dens = np.maximum(b_ - a_, 0) * 2 * np.sin(th) * np.cos(th)
        cdf = np.concatenate([[0.0], np.cumsum(0.5 * (dens[1:] + dens[:-1]) * np.diff(th))])
        cdf /= cdf[-1]
        thev = np.arcsin(np.sqrt(np.clip((sab - lo) / (hi - lo), 0, 1)))
        u = np.interp(thev, th, cdf)
        a_, b_ = limits(sab)
        v = np.clip((sbc - a_) / np.maximum(b_ - a_, 1e-300), 0, 1)
        H, _, _ = np.histogram2d(u, v, bins=K, range=[[0, 1], [0, 1]])
        x2, dof, pv = chi2_pvalue(H.reshape(-1), np.full(K * K, N / (K * K)))
        res_[name] = {"chi2": x2, "dof": dof, "p": pv}
        if pv < P_ALARM:
            fails.append(("flatness:dalitz", "%s: Dalitz plot (%s) not flat: chi2 = %.1f for %d dof, p = %.3g" % (info, name, x2, dof, pv)))
    return fails, res_


def case_m12(m0, mi, N, sseed, bins=40):
    """n >= 4 bodies: spectrum of m(1,2) (first two daughters) against the recursive phase-space spectrum
    q(m12; m1, m2) * R_{n-1}(m0; m12, m3, ..., mn)"""
    from tf_pwa import phasespace as ph
    fails = []
    info = "PhaseSpaceGenerator(%r, %r).generate(%d) [stream %d]" % (m0, mi, N, sseed)
    with Stream(case_rng(sseed)):
        pi = [np.asarray(x.numpy(), dtype=np.float64) for x in ph.PhaseSpaceGenerator(m0, mi).generate(N)]
    out = {}
    n = len(mi)
    for name, (i, j) in {"m(1,2)": (0, 1), "m(%d,%d)" % (n - 1, n): (n - 2, n - 1), "m(1,%d)" % n: (0, n - 1)}.items():
        others = [mi[k] for k in range(n) if k not in (i, j)]
        m12 = np.sqrt(np.maximum(m2_of(pi[i] + pi[j]), 0))
        lo, hi = mi[i] + mi[j], m0 - sum(others)
        edges = np.linspace(lo, hi, bins + 1)
        t, w = _gl(24)
        x = edges[:-1, None] + np.diff(edges)[:, None] * t
        f = _q(x, mi[i], mi[j]) * R_phsp(m0 * np.ones_like(x), [x] + others) if False else None
        # R_phsp takes scalar masses in the list; the pseudo-particle mass varies, so integrate it explicitly
        f = _q(x, mi[i], mi[j]) * _R_with_first(m0, x, others)
        pk = np.sum(f * w, -1) * np.diff(edges)
        pk = pk / pk.sum()
        H, _ = np.histogram(m12, bins=edges)
        H = H.astype(float)
        H[0] += np.sum(m12 < edges[0])
        H[-1] += np.sum(m12 > edges[-1])
        x2, dof, pv = chi2_pvalue(H, pk * N)
        out[name] = {"chi2": x2, "dof": dof, "p": pv}
        if pv < P_ALARM:
            fails.append(("flatness:mass-spectrum", "%s: %s spectrum differs from the phase-space spectrum: chi2 = %.1f for %d dof, p = %.3g" % (info, name, x2, dof, pv)))
    return fails, out


def _R_with_first(M, x, rest, G=40):
    """R_k(M; x, rest...) with an array-valued first mass x (k = 1 + len(rest) >= 2)"""
    x = np.asarray(x, dtype=np.float64)
    if len(rest) == 1:
        return _q(M, x, rest[0])
    lo = sum(rest)
    hi = np.maximum(M - x, lo)
    t, w = _gl(G)
    th = 0.5 * np.pi * t
    s2 = np.sin(th) ** 2
    jac = 0.5 * np.pi * 2.0 * np.sin(th) * np.cos(th) * w
    mu = lo + (hi - lo)[..., None] * s2
    val = _q(M, x[..., None], mu) * R_phsp(mu, rest, G)
    return (hi - lo) * np.sum(val * jac, -1)


def case_gen_mc(m0, mi, N, sseed, f32):
    """tf_pwa.applications.gen_mc: (N*n, 4) array, row e*n+i = daughter i of event e"""
    from tf_pwa.applications import gen_mc
    fails = []
    info = "applications.gen_mc(%r, %r, %d) [stream %d]" % (m0, mi, N, sseed)
    with Stream(case_rng(sseed)):
        pf = np.asarray(gen_mc(m0, mi, N), dtype=np.float64)
    if pf.shape != (N * len(mi), 4):
        fails.append(("gen_mc:count", "%s returned shape %s, expected %s" % (info, pf.shape, (N * len(mi), 4))))
        return fails, {}
    st_ = check_events(pf.reshape(N, len(mi), 4), m0, mi, "gen_mc", f32, fails, info)
    return fails, st_


CONFIGS = {
    "three-body": {
        "data": {"dat_order": ["B", "C", "D"]},
        "decay": {"A": [["R_BC", "D"], ["R_BD", "C"], ["R_CD", "B"]], "R_BC": ["B", "C"], "R_BD": ["B", "D"], "R_CD": ["C", "D"]},
        "particle": {"$top": {"A": {"J": 1, "P": -1, "mass": 4.59925172}},
                     "$finals": {"B": {"J": 1, "P": -1, "mass": 2.00698}, "C": {"J": 1, "P": -1, "mass": 2.01028}, "D": {"J": 0, "P": -1, "mass": 0.13957}},
                     "R_BC": {"J": 1, "Par": 1, "m0": 4.16, "g0": 0.1}, "R_BD": {"J": 1, "Par": 1, "m0": 2.43, "g0": 0.3},
                     "R_CD": {"J": 1, "Par": 1, "m0": 2.42, "g0": 0.03}},
    },
    "four-body": {
        "data": {"dat_order": ["B", "C", "D", "E"]},
        "decay": {"A": [["R_BC", "R_DE"], ["R_BCD", "E"]], "R_BC": ["B", "C"], "R_DE": ["D", "E"], "R_BCD": ["R_BC", "D"]},
        "particle": {"$top": {"A": {"J": 0, "P": -1, "mass": 5.27934}},
                     "$finals": {"B": {"J": 0, "P": -1, "mass": 0.49368}, "C": {"J": 0, "P": -1, "mass": 0.13957},
                                 "D": {"J": 0, "P": -1, "mass": 0.13957}, "E": {"J": 1, "P": -1, "mass": 3.0969}},
                     "R_BC": {"J": 1, "Par": -1, "m0": 0.892, "g0": 0.05}, "R_DE": {"J": 1, "Par": 1, "m0": 3.9, "g0": 0.03},
                     "R_BCD": {"J": 1, "Par": 1, "m0": 1.27, "g0": 0.09}},
    },
}


def case_config(name, N, sseed, f32):
    """ConfigLoader(dict).generate_phsp_p(N): momenta per final particle, on shell, adding up to the top particle at rest"""
    from tf_pwa.config_loader import ConfigLoader
    fails = []
    info = "ConfigLoader(<%s config of harness/c10.py>).generate_phsp_p(%d) [stream %d]" % (name, N, sseed)
    config = ConfigLoader(CONFIGS[name])
    with Stream(case_rng(sseed)):
        p = config.generate_phsp_p(N)
    dg = config.get_decay()
    outs = list(dg.outs)
    m0 = float(dg.top.get_mass())
    masses = [float(o.get_mass()) for o in outs]
    arrs = [np.asarray(p[o].numpy(), dtype=np.float64) for o in outs]
    if any(a.shape != (N, 4) for a in arrs):
        fails.append(("generate_phsp_p:count", "%s returned shapes %s" % (info, [a.shape for a in arrs])))
        return fails, {}
    P = np.stack(arrs, 1)
    g2 = 1.0
    # boosts of every sub-system that is a node of some chain cannot be reconstructed generically: bound gamma by all pair sums
    for i in range(len(outs)):
        for j in range(i + 1, len(outs)):
            t = P[:, i] + P[:, j]
            g2 = max(g2, float(np.max(t[:, 0] ** 2 / np.maximum(m2_of(t), 1e-300))))
    g2 = min(g2, 1e12)
    tol = 4e-13 * (1.0 + g2) * len(outs)
    for k, m in enumerate(masses):
        e = float(np.max(np.abs(m2_of(P[:, k]) - m * m))) / (m0 * m0)
        if not e <= tol:
            fails.append(("generate_phsp_p:on-shell", "%s: %s has |p^2 - m^2| = %.3g m0^2 (tolerance %.3g)" % (info, outs[k], e, tol)))
    e = float(np.max(np.abs(P.sum(1) - np.array([m0, 0, 0, 0])))) / m0
    if not e <= tol:
        if f32 and e <= 3e-6 * (1.0 + g2):
            fails.append((F32_KEY, "%s: momenta sum to the parent only to %.3g m0 (double precision would be <= %.3g): get_p rounds Python-float p2 / M through float32" % (info, e, tol)))
        else:
            fails.append(("generate_phsp_p:momentum-sum", "%s: sum of momenta deviates from (m0,0,0,0) by %.3g m0 (tolerance %.3g)" % (info, e, tol)))
    return fails, {"sum": e, "gamma2": g2}


def case_keywords(m0, mi, N, sseed, imp, force, flatten, f32):
    """generate(N, force, flatten, importances): count contract of every keyword path, weights in [0,1], events physical"""
    from tf_pwa import phasespace as ph
    fails = []
    info = "PhaseSpaceGenerator(%r, %r).generate(%d, force=%r, flatten=%r, importances=%r) [stream %d]" % (m0, mi, N, force, flatten, imp, sseed)
    with Stream(case_rng(sseed)):
        out = ph.PhaseSpaceGenerator(m0, mi).generate(N, force=force, flatten=flatten, importances=imp)
    n = len(mi)
    if flatten:
        pi, w = out, None
    else:
        w, pi = out
        w = np.asarray(w.numpy(), dtype=np.float64).reshape(-1)
    if len(pi) != n:
        fails.append(("generate:count", "%s returned %d momenta arrays for %d daughters" % (info, len(pi), n)))
        return fails, {}
    shapes = sorted(set(tuple(int(d) for d in x.shape) for x in pi))
    if len(shapes) != 1 or len(shapes[0]) != 2 or shapes[0][1] != 4:
        fails.append(("generate:count", "%s returned arrays of shapes %s" % (info, shapes)))
        return fails, {}
    nev = shapes[0][0]
    exact = force or (not flatten) or n == 2
    if (exact and nev != N) or nev > N:
        fails.append(("generate:count", "%s returned %d events (%s %d expected)" % (info, nev, "exactly" if exact else "at most", N)))
        return fails, {}
    if w is not None:
        if n > 2 and w.size != N:
            fails.append(("generate:count", "%s returned %d weights for %d events" % (info, w.size, N)))
        ww = w[np.isfinite(w)] if n > 2 else w
        if ww.size and (float(np.max(ww)) > 1.0 + 1e-9 or float(np.min(ww)) < -1e-12):
            fails.append(("get_weight:range", "%s: weights in [%.17g, %.17g]" % (info, float(np.min(ww)), float(np.max(ww)))))
    P = np.stack([np.asarray(x.numpy(), dtype=np.float64) for x in pi], 1)
    st_ = {}
    if nev and np.all(np.isfinite(P)):
        st_ = check_events(P, m0, mi, "generate", f32, fails, info)
    st_["events"] = nev
    return fails, st_


CASES = {"keywords": case_keywords, "gen_mc": case_gen_mc, "config": case_config, "generate": case_generate, "nested": case_nested, "weight": case_weight, "dalitz": case_dalitz, "m12": case_m12}


def guarded(kind, args):
    try:
        # flatness cases generate up to 2e5 events and integrate the reference spectrum (6 bodies: ~1 min)
        with time_limit(600 if kind in ("dalitz", "m12") else GEN_LIMIT):
            return CASES[kind](*args)
    except ImplTimeout as e:
        return [("generate:termination", "%s%r: %s (the refill loop does not terminate / accepts nothing)" % (kind, tuple(args), e))], {}


def run_case(res, kind, args, stats=None):
    if stats is not None and stats.get("_timeouts", 0) >= 2:
        return []       # the generator hangs: two demonstrations are enough
    fails, st = guarded(kind, args)
    if stats is not None and any(k == "generate:termination" for k, _ in fails):
        stats["_timeouts"] = stats.get("_timeouts", 0) + 1
    for key, what in fails:
        res.fail(key, what, {"kind": kind, "args": list(args)})
    if stats is not None:
        stats.setdefault(kind, []).append(st)
    return fails


def search(ctx, res):
    set_limits(ctx)
    f32 = bool(f32_variant())
    deep = not ctx.quick                       # thorough tier
    more = deep or ctx.suspect                 # a proof / the correspondence broke: look harder
    rng = np.random.Generator(np.random.Philox(ctx.seed + 2020))
    base = (ctx.seed + 1) * 1000003
    stats = {}
    nc = 0
    # (1) exact count / on shell / momentum sum
    sets = mass_sets(rng, 150 if deep else (60 if more else 30))
    for k, (m0, mi) in enumerate(sets):
        N = [1, 7, 1000][k % 3]
        if len(mi) >= 5 and N > 7:
            N = 100 if not deep else (1000 if len(mi) == 5 else 200)   # 6 massless bodies: ~2.5e5 proposals per event
        run_case(res, "generate", (m0, mi, N, base + nc, f32), stats)
        nc += 1
    # fixed reference decays (B -> K pi pi like, tau-like with a neutrino, two-body, near threshold, the unit test's integers)
    for (m0, mi) in [(5.27934, [0.13957, 0.49368, 0.13957]), (1.77686, [0.0, 0.13957, 0.13957, 0.13957]), (3.0969, [0.000511, 0.000511]),
                     (0.9 + 3e-7, [0.3, 0.3, 0.3]), (10, [3, 2, 1]), (4.18, [0.938, 0.938, 0.139, 0.139, 0.139, 0.0])]:
        run_case(res, "generate", (m0, mi, 1000 if len(mi) < 6 else 200, base + nc, f32), stats)
        nc += 1
    # (1b) the non-default keyword paths of generate (force / flatten / importances)
    for k, (m0, mi) in enumerate(mass_sets(rng, 24 if not deep else 120)):
        imp_, force_, flat_ = [(True, False, True), (True, True, False), (False, True, True), (False, False, True), (False, True, False), (True, False, False)][k % 6]
        N = [1, 7, 400][(k // 6) % 3]
        if len(mi) >= 5 and N > 7 and force_ and flat_:
            N = 50
        run_case(res, "keywords", (m0, mi, N, base + nc, imp_, force_, flat_, f32), stats)
        nc += 1
    # (2) nested chains
    for k, (m0, mi) in enumerate(NESTED):
        for N in ([1, 500] if not deep else [1, 7, 5000]):
            run_case(res, "nested", (m0, mi, N, base + nc, f32), stats)
            nc += 1
    # (2b) the other entry points named by the property
    run_case(res, "gen_mc", (4.59925172, [2.00698, 2.01028, 0.13957], 7, base + nc, f32), stats)
    nc += 1
    run_case(res, "gen_mc", (1.86484, [0.49368, 0.13957, 0.13957, 0.0], 300, base + nc, f32), stats)
    nc += 1
    for name in sorted(CONFIGS):
        run_case(res, "config", (name, 200 if not deep else 5000, base + nc, f32), stats)
        nc += 1
    # (3) weights in [0, 1]
    wsets = [s_ for s_ in mass_sets(rng, 300 if deep else (120 if more else 60), ns=(3, 4, 5, 6))]
    for (m0, mi) in wsets:
        run_case(res, "weight", (m0, mi, base + nc, 3000 if not deep else 30000, deep), stats)
        nc += 1
    # (3b) the same scan after cal_max_weight() (reached through generate_phsp(cal_max=True), generate_toy(cal_phsp_max=True)):
    # the weights used for unweighting must still be <= 1
    if True:
        for (m0, mi) in CALMAX_SETS + wsets[:(40 if more else 12)]:
            run_case(res, "weight", (m0, mi, base + nc, 3000, False, True), stats)
            nc += 1
    # (4) flatness (statistical; false-alarm probability <= 1e-9 per test)
    flat3 = [(1.0, [0.1, 0.2, 0.3]), (5.27934, [0.13957, 0.49368, 0.13957]), (1.86484, [0.49368, 0.13957, 0.0])]
    flat4 = [(1.77686, [0.0, 0.13957, 0.13957, 0.13957]), (3.0, [0.5, 0.0, 0.9, 0.139])]
    if more:
        flat3 += [(0.5, [0.0, 0.0, 0.0]), (3.0, [1.5, 0.000511, 0.938])]
        flat4 += [(2.0, [0.0, 0.0, 0.0, 0.0]), (4.0, [0.938, 0.938, 0.493, 0.139, 0.139])]
    if deep:
        flat4 += [(3.5, [0.139, 0.0, 0.493, 0.938, 0.139, 0.493])]
    for (m0, mi) in flat3:
        run_case(res, "dalitz", (m0, mi, 40000 if not more else 200000, base + nc), stats)
        nc += 1
    for (m0, mi) in flat4:
        if more:
            Nn = {4: 200000, 5: 100000, 6: 10000}[len(mi)]
        else:
            Nn = {4: 30000, 5: 10000, 6: 3000}[len(mi)]
        run_case(res, "m12", (m0, mi, Nn, base + nc), stats)
        nc += 1
    gs = [x for x in stats.get("generate", []) if x]
    res.coverage["search"] = {
        "cases": nc,
        "generate_worst_on_shell_over_m0sq": max([x["shell"] for x in gs] + [0.0]),
        "generate_worst_sum_over_m0": max([x["sum"] for x in gs] + [0.0]),
        "generate_largest_gamma2": max([x["gamma2"] for x in gs] + [1.0]),
        "nested_worst": max([x.get("worst", 0.0) for x in stats.get("nested", []) if x] + [0.0]),
        "max_weight_seen": max([x["max_weight"] for x in stats.get("weight", []) if x] + [0.0]),
        "weight_points": int(sum(x["points"] for x in stats.get("weight", []) if x)),
        "flatness_tests": stats.get("dalitz", []) + stats.get("m12", []),
        "false_alarm_probability_per_flatness_test": P_ALARM,
        "tolerance": "on-shell |p^2-m^2| and |sum p - (m0,0,0,0)| <= 2e-13 (1 + gamma^2) relative to m0^2 / m0, gamma = largest boost of an intermediate system reconstructed from the returned momenta",
    }
    res.samples.append({"search_cases": nc, "max_weight_seen": res.coverage["search"]["max_weight_seen"]})


def replay(ctx, payload):
    """Re-execute the failing input stored in a replay file on the current /repo: exit 1 if it still fails."""
    r = payload.get("replay") or {}
    kind = r.get("kind")
    if kind not in CASES:
        print("replay file names a broken obligation, not a failing input: %s" % str(payload.get("broken"))[:3000])
        return 1
    args = list(r["args"])
    if kind in ("generate", "nested", "gen_mc", "config", "keywords"):
        args[-1] = bool(f32_variant())   # attribute float32-size deviations as on the tree under test
    if kind == "nested":
        args[1] = to_tuple(args[1])
    fails, st = guarded(kind, args)
    key = payload.get("key")
    same = [f for f in fails if key is None or f[0] == key]
    for k_, w in fails[:5]:
        if key is None or k_ == key:
            print("still failing [%s]: %s" % (k_, w))
        else:
            print("(other observation on this input, not the recorded violation) [%s]: %s" % (k_, w))
    print("stats:", st)
    print("REPLAY: property C10 %s" % ("still violated" if same else "holds on this input now"))
    return 1 if same else 0


def to_tuple(x):
    if isinstance(x, (list, tuple)):
        return tuple(to_tuple(i) for i in x)
    return x



MANIFEST = {
    "text": "Lean theorems over the reals about the model of tf_pwa.phasespace (templates/Phsp.lean.in, instantiated at R for proofs and at Float for execution): get_p is increasing in M and decreasing in a daughter mass above threshold and is 0 in the clamp branch (q_monotone_M, q_monotone_a, q_clamped); for EVERY number of bodies, all non-negative masses with positive Q value and every mass point generate_mass can produce, 0 <= acceptance weight <= 1 with or without importance factor (weight_le_one, weight_le_one_generated; list induction), while on the bare mass_range box the bound is false (weight_exceeds_one_off_domain); proposal density x weight = C * prod q_i (flat_density); if generate(N) returns it returns exactly N events for every stream of draws and every refill guess (exact_count, refill_enough); the momenta of every generated event add up to (m0,0,0,0) and every particle is on its mass shell (momentum_sum, on_shell, two_body_energy; regular boost branch for the shell clause) and for nested chains of ANY nesting the final-state momenta add up to (m0,0,0,0) when every node's generator output does (chain_momentum_sum, structural induction over the struct; chain_consumes; tree_boost_sum/_shell/_leaves), and, when in addition the outputs are on the daughters' mass shells and every nested daughter's boost is in the regular branch, every final particle is on its mass shell and every intermediate state sits on its fixed mass shell and equals the sum of the momenta below it (chain_structure, chain_on_shell, chain_intermediate_mass; structural induction, every nesting); the optional cal_max_weight() only rescales the weight by 1/(1.001 weight(x*)) and keeps it <= 1 iff the optimiser's point x* is within 0.1% of the maximum (calmax_rescales, calmax_weight_le_one_iff, calmax_weight_exceeds_one_example). Round 4 (Props/C10c.lean, C10d.lean): nested chains IN FULL for the composition _restruct_pi o generate_momentum (chain_on_shell_full: for every struct and every per-node input in the code's regime, every final and every intermediate particle is on its mass shell and momenta add up at every vertex; the GoodNode hypothesis of chain_structure is discharged by momentum_sum, on_shell and the new generated_energy_positive / boost_keeps_energy_positive); exact count on EVERY keyword path of generate(N, force, flatten, importances) (exact_count_all_paths: exactly N events if force or flatten=False or two-body, at most N for force=False, N weights for flatten=False; generateOpt_default ties the default path to exact_count), for ChainGenerator.generate (exact_count_chain, chain_run_counts) and applications.gen_mc (gen_mc_rows); the weight numerator obeys the phase-space recursion R_n(m0; m1, rest; .., M) = R_{n-1}(M; rest; ..) q(m0; M, m1) for every n and equals the textbook recursive spectrum (weight_recursion, weight_is_lips, flat_density_lips); accept/reject is a pointwise thinning (accept_iff, accepted_rows) whose accepted fraction on the K-grid of uniforms is exactly ceil(K weight) because 0 <= weight <= 1, so proposal x accepted fraction is within proposal/K of C * R_n (accept_count_grid, accepted_density; reuses grid_count of C20f). The same text, fed the uniform numbers recorded from a patched tf.random.uniform, is compared with PhaseSpaceGenerator / generate_phsp (masses, importances, weights, accept/refill sequence, momenta, nested chains) and, new, with generate(N, force, flatten, importances) on all six non-default keyword combinations and applications.gen_mc. Flatness of the accepted sample and termination of the refill loop are validated statistically, not proved.",
    "note": "Model = templates/Phsp.lean.in (imports the boost of templates/Kin.lean.in): get_p (3 variants: tensor, Python-float M, all Python floats, with the float32 rounding of an unfixed tree selectable by a flag the harness observes), set_decay/wtMax, get_mass_range, generate_mass, mass_importances, get_weight, flatten_mass, refill loop incl. the n_iter2 guess formula, generate_momentum(_i), _get_generator/_restruct_pi/tree_boost. Uniform numbers are an input (list of draws, one per tf.random.uniform call, shape-checked). Correspondence: n = 2..6, massless and near-threshold daughters (Q down to 1e-7 relative), corner uniforms 0 and 1-2^-53, N in {1,7,1000(,5000)}, nested structs to depth 4; tolerance 1e-12..1e-13 x (1 + m0/Q) relative to m0 (1e-7 on exact corners of the mass range where q is the root of a rounding-level number). Search (model independent, on the implementation): exact count and shapes, |p^2-m^2| and |sum p-(m0,0,0,0)| <= 2e-13 (1+gamma^2), nested intermediate masses, weights in [0,1] on random + corner/edge scans of the uniform cube, chi^2 tests of the 3-body Dalitz plot (uniformised through the analytic marginal) and of m(i,j) spectra for n = 4..6 against numerically integrated recursive phase-space spectra, alarm threshold p < 1e-9 per test. Finding (fixed in /repo): get_p passed Python-float arguments through float32 (energy conserved only to ~1e-8 m0), key get_p:float32-python-scalars. cal_max_weight() is modelled with the optimisers' best point as a parameter (recorded and fed to the model); that they find the global maximum is not verified; the pinned tree's single-start version violated the weight clause (finding cal_max_weight:weight-range, repaired by a fix commit, the scan after cal_max_weight() now runs by default). Round 4: generateOpt / genMc added to the template (ops geno, genmc), search case `keywords` checks the count contract, weight range and event physics of the non-default keyword paths on the implementation. cal_max_weight: a weight above the returned maximum occurred on the cal_max / cal_phsp_max paths of the pinned tree (6-body example in ASSUMPTIONS: 75% of weights > 1); repaired in /repo, calmax_best_of_candidates proved for the repaired routine. Observation (opt-in path, not alarmed): generate(importances=False) applies the importance factor in refill batches anyway. Not proved: the regular-branch / ordering hypotheses of chain_on_shell_full are hypotheses (the code's regime), not derived from the uniform stream; the link between chainGenerate's per-event rows and generateMomentum is by definition of momentaB (momenta_are_per_event) but the end-to-end statement is not quantified over the draw stream. Not modelled: user-supplied mass_generator[i] proposals (no 1/g correction in the code by design; weight_le_one still covers any mass point inside the domain).",
    "technique": "Lean 4 proof over the reals (list induction, polynomial certificates, C11 boost invariance) of one template instantiated at Float for differential correspondence on a harness-fed random stream; statistical validation of flatness",
}
