"""C03b — FitFractions / cal_fitfractions bookkeeping and the argument handling of set_used_res / partial_weight.

Two kinds of runs of the REAL routines (tf_pwa.fitfractions.FitFractions, cal_fitfractions, cal_fitfractions_no_grad,
tf_pwa.applications.fit_fractions, ConfigLoader.cal_fitfractions, DecayGroup.set_used_res / partial_weight /
partial_weight_interference, BaseAmplitudeModel.partial_weight):

* exact: the amplitude object is a stub whose density is sum_h |sum_{k in chains_idx} c_k a_k[e,h]|^2 with
  integer-valued tensors a_k, integer couplings c_k = theta_2k + i theta_2k+1 (tf.Variables, so the library's own
  tape produces the gradients) and dyadic weights; the chain selection is the library's own DecayGroup of a real
  decay group.  Every intermediate sum is an integer < 2^53, so the cached integrals / gradients are exact and the
  quotients are single IEEE operations: the Lean Float model must reproduce every number exactly (==).
* real: the real AmplitudeModel of group g0 (g1, g3 in the thorough tier) with per-event tape gradients handed to
  the model, compared at 1e-12 (values) / 1e-10 (gradients) relative.
"""
import contextlib
import itertools
import random

import common as C


# ---------------------------------------------------------------------------------------------
# stub amplitude (exact)
# ---------------------------------------------------------------------------------------------

class StubAmp:
    def __init__(self, dg, theta):
        import tensorflow as tf
        self.decay_group = dg
        self.vars = [tf.Variable(float(t), dtype=tf.float64) for t in theta]
        self.trainable_variables = self.vars
        self.calls = []

    @property
    def res(self):
        return list(self.decay_group.resonances)

    def set_used_res(self, res):
        self.decay_group.set_used_res(res)

    def set_used_chains(self, l):
        self.decay_group.set_used_chains(l)

    @contextlib.contextmanager
    def temp_params(self, params):
        yield

    def __call__(self, data):
        import tensorflow as tf
        idx = list(dict.fromkeys(int(i) for i in self.decay_group.chains_idx))
        self.calls.append(idx)
        re, im = data["a_re"], data["a_im"]
        ar = tf.zeros_like(re[:, 0, :])
        ai = tf.zeros_like(re[:, 0, :])
        for k in idx:
            cr, ci = self.vars[2 * k], self.vars[2 * k + 1]
            ar = ar + cr * re[:, k, :] - ci * im[:, k, :]
            ai = ai + cr * im[:, k, :] + ci * re[:, k, :]
        return tf.reduce_sum(ar * ar + ai * ai, axis=-1)


def _stub_tables(a, theta, subsets):
    """integer numpy oracle: density and its gradient w.r.t. theta per subset and event (independent of TF)"""
    import numpy as np
    ne, nc, nh = a.shape
    c = np.array([complex(theta[2 * k], theta[2 * k + 1]) for k in range(nc)])
    dens = np.zeros((len(subsets), ne))
    gd = np.zeros((len(subsets), ne, 2 * nc))
    for si, S in enumerate(subsets):
        A = np.zeros((ne, nh), dtype=complex)
        for k in S:
            A = A + c[k] * a[:, k, :]
        dens[si] = (A.real ** 2 + A.imag ** 2).sum(axis=1)
        for k in S:
            z = np.conj(A) * a[:, k, :]
            gd[si, :, 2 * k] = (2 * z.real).sum(axis=1)
            gd[si, :, 2 * k + 1] = (-2 * z.imag).sum(axis=1)
    return dens, gd


def _entry_tok(g, e):
    return g.entry_id(e)


def _names(g, res):
    return [str(r) for r in res]


def _ffx_line(g, meth, cur, res, batch, nvar, subsets, w, dens, gd):
    import numpy as np
    fl = np.concatenate([np.asarray(w, float).reshape(-1), dens.reshape(-1), gd.reshape(-1)])
    return "C03b ffx %s %s %s %s %d %d %d %d %s %s" % (
        meth, g.lean_group(), _nats(cur), ",".join(_entry_tok(g, e) for e in res) if res else "-",
        0 if batch is None else batch, nvar, dens.shape[1], len(subsets),
        " ".join(_nats(s) for s in subsets), " ".join(C.f2h(x) for x in fl))


def _nats(l):
    l = list(l)
    return ",".join(str(int(i)) for i in l) if l else "-"


def _parse_ffx(ans, n, nvar):
    """→ dict(total, gtotal, ints[key], grads[key], frac[key], gfrac[key], sum_diag, gsum_diag, diag_sum, gdiag_sum)"""
    import numpy as np
    x = np.array([C.h2f(t) for t in ans.split()])
    nk = n * (n + 1) // 2
    want = (1 + nvar) * (1 + 2 * nk + 2)
    if x.size != want:
        return None
    x = x.reshape(-1, 1 + nvar)
    return {"total": x[0, 0], "gtotal": x[0, 1:], "ints": x[1:1 + nk, 0], "grads": x[1:1 + nk, 1:],
            "frac": x[1 + nk:1 + 2 * nk, 0], "gfrac": x[1 + nk:1 + 2 * nk, 1:],
            "sum_diag": x[1 + 2 * nk, 0], "gsum_diag": x[1 + 2 * nk, 1:],
            "diag_sum": x[2 + 2 * nk, 0], "gdiag_sum": x[2 + 2 * nk, 1:]}


def _keys(res):
    ks = []
    for i in range(len(res)):
        for j in range(i, -1, -1):
            ks.append(str(res[i]) if i == j else (str(res[i]), str(res[j])))
    return ks


def _grad_vec(v, nvar):
    import numpy as np
    v = np.asarray(v, dtype=float).reshape(-1)
    if v.size == 1 and nvar != 1:
        v = np.full(nvar, float(v[0]))
    return v


def _run_ff_impl(amp, dg, data, res, method, batch, preset, reset):
    """run one real routine; returns the observed numbers in code (dict) order"""
    import numpy as np
    from tf_pwa.applications import fit_fractions
    from tf_pwa.fitfractions import FitFractions, cal_fitfractions, cal_fitfractions_no_grad
    nvar = len(amp.trainable_variables)
    reset()
    if preset is not None:
        dg.set_used_chains(list(preset))
    before = (list(dg.chains_idx), bool(dg.not_full))
    out = {"method": method}
    try:
        with _quiet():
            if method in ("new", "new_app"):
                if method == "new":
                    ff = FitFractions(amp, list(res))
                    ff.integral(data, batch=batch)
                else:
                    ff = fit_fractions(amp, data, inv_he=None, params=None, batch=batch, res=list(res), method="new")
                ks = _keys(res)
                out["keys_ok"] = list(ff.cached_int.keys()) == ks
                out["total"] = float(ff.cached_int_total)
                out["gtotal"] = _grad_vec(ff.cached_grad_total, nvar)
                out["ints"] = np.array([float(ff.cached_int[k]) for k in ks])
                out["grads"] = np.array([_grad_vec(ff.cached_grad[k], nvar) for k in ks]).reshape(len(ks), nvar)
                fr, gfr = ff.get_frac_grad(sum_diag=True)
                out["order_ok"] = list(fr.keys()) == ks + ["sum_diag"]
                out["frac"] = np.array([float(fr[k]) for k in ks])
                out["gfrac"] = np.array([_grad_vec(gfr[k], nvar) for k in ks]).reshape(len(ks), nvar)
                out["sum_diag"] = float(fr["sum_diag"])
                out["gsum_diag"] = _grad_vec(gfr["sum_diag"], nvar)
                sd, sde = ff.get_frac_diag_sum(np.eye(nvar))
                out["diag_sum"] = float(sd)
                out["diag_sum_err"] = float(sde)
                fr2, _ = ff.get_frac_grad(sum_diag=False)
                out["nosumdiag_ok"] = list(fr2.keys()) == ks
            elif method == "old":
                fr, gfr = cal_fitfractions(amp, data, res=list(res), batch=batch)
                ks = _keys(res)
                out["order_ok"] = list(fr.keys()) == ks
                out["frac"] = np.array([float(fr[k]) for k in ks])
                out["gfrac"] = np.array([_grad_vec(gfr[k], nvar) for k in ks]).reshape(len(ks), nvar)
            elif method == "nograd":
                fr = cal_fitfractions_no_grad(amp, data, res=list(res), batch=batch)
                out["frac"] = np.array([float(v) for v in fr.values()])
                out["order_ok"] = len(fr) == len(_keys(res))
            else:
                raise ValueError(method)
        out["state_after"] = (list(int(i) for i in dg.chains_idx), bool(dg.not_full))
        out["state_before"] = before
    except Exception as e:  # noqa: BLE001
        out["error"] = "%s: %s" % (type(e).__name__, e)
        out["state_after"] = (list(int(i) for i in dg.chains_idx), bool(dg.not_full))
        out["state_before"] = before
    finally:
        reset()
    return out


@contextlib.contextmanager
def _quiet():
    import io
    buf = io.StringIO()
    with contextlib.redirect_stdout(buf):
        yield buf


def _all_subsets(n):
    return [list(s) for r in range(0, n + 1) for s in itertools.combinations(range(n), r)]


def _stub_cases(g, rnd, quick):
    """(res, method, batch, weighted, preset)"""
    ne = 7
    names = list(g.res_names)
    cases = []
    perm = list(names)
    rnd.shuffle(perm)
    mixed = [names[0], g.n - 1] + ([names[-1]] if len(names) > 1 else [])
    ghost = names[:2] + ["Ghost1"]
    sub = names[:max(1, len(names) - 1)]
    bs = [None, 1, 3, ne - 1, ne, 2 * ne]
    for b in bs:
        cases.append((names, "new", b, True, None))
    cases.append((names, "new_app", 3, False, None))
    cases.append((perm, "new", 2, True, None))
    cases.append((list(reversed(names)), "new", None, True, None))
    cases.append((mixed, "new", 3, True, None))
    cases.append((ghost, "new", 4, False, None))
    cases.append((sub, "new", 3, True, list(range(g.n - 1))))
    cases.append((list(range(g.n)), "new", 5, True, None))
    for b in (1, 3, ne, 2 * ne):
        cases.append((names, "old", b, True, None))
    cases.append((perm, "old", 2, False, None))
    cases.append((mixed, "old", 3, True, list(range(1, g.n))))
    cases.append((names, "nograd", 3, True, None))
    cases.append((mixed, "nograd", ne - 1, False, None))
    if not quick:
        for _ in range(12):
            k = rnd.randint(1, min(4, len(names) + 1))
            res = rnd.sample(names + list(range(g.n)), min(k, len(names) + g.n))
            # str(name) keys must be distinct; an int and a name are always distinct
            cases.append((res, rnd.choice(["new", "old", "nograd"]), rnd.choice([1, 2, 3, 5, ne, 2 * ne]),
                          rnd.random() < 0.6, rnd.choice([None, rnd.sample(range(g.n), rnd.randint(1, g.n))])))
    return ne, cases


def observe_stub(g, rnd, quick):
    import numpy as np
    import tensorflow as tf
    ne, cases = _stub_cases(g, rnd, quick)
    rs = np.random.RandomState(rnd.randrange(1 << 30))
    nh = 2
    a = rs.randint(-3, 4, size=(ne, g.n, nh)) + 1j * rs.randint(-3, 4, size=(ne, g.n, nh))
    theta = [int(x) for x in rs.randint(-3, 4, size=2 * g.n)]
    for k in range(g.n):
        if theta[2 * k] == 0 and theta[2 * k + 1] == 0:
            theta[2 * k] = 1
    w = rs.randint(1, 8, size=ne) / 2.0
    stub = StubAmp(g.dg, theta)
    base = {"a_re": tf.constant(a.real, dtype=tf.float64), "a_im": tf.constant(a.imag, dtype=tf.float64)}
    wdata = dict(base)
    wdata["weight"] = tf.constant(w, dtype=tf.float64)
    subsets = _all_subsets(g.n)
    dens, gd = _stub_tables(a, theta, subsets)
    runs = []
    for (res, method, batch, weighted, preset) in cases:
        r = _run_ff_impl(stub, g.dg, wdata if weighted else base, res, method, batch, preset, g.reset)
        r.update({"res": res, "batch": batch, "weighted": weighted, "preset": preset})
        runs.append(r)
    return {"ne": ne, "a": a, "theta": theta, "w": w, "subsets": subsets, "dens": dens, "gd": gd, "runs": runs,
            "nvar": 2 * g.n}


# ---------------------------------------------------------------------------------------------
# real amplitude, per-event gradients (1e-12)
# ---------------------------------------------------------------------------------------------

def observe_real(g, quick):
    import numpy as np
    import tensorflow as tf
    from tf_pwa.data import data_split
    amp = g.amp
    var = amp.trainable_variables
    nvar = len(var)
    subsets = _all_subsets(g.n)
    dens = np.zeros((len(subsets), g.ne))
    gd = np.zeros((len(subsets), g.ne, nvar))
    try:
        g.reset()
        g.reset_params()
        events = list(data_split(g.data, 1))
        for si, S in enumerate(subsets):
            if not S:
                continue
            g.dg.set_used_chains(list(S))
            for e, d in enumerate(events):
                with tf.GradientTape() as tape:
                    v = tf.reduce_sum(amp(d))
                gr = tape.gradient(v, var, unconnected_gradients="zero")
                dens[si, e] = float(v.numpy())
                gd[si, e] = np.array([float(x.numpy()) for x in gr])
    finally:
        g.reset()
    ne = g.ne
    runs = []
    plan = [(g.res_names, "new", 4, True, None), (g.res_names, "new", None, False, None),
            (g.res_names, "old", 4, True, None), (g.res_names, "new_app", ne - 1, True, list(range(g.n)))]
    if not quick:
        plan += [(list(reversed(g.res_names)), "new", 1, True, None), ([g.res_names[0], g.n - 1], "old", 5, False, None)]

    def reset():
        g.reset()
        g.reset_params()
    for (res, method, batch, weighted, preset) in plan:
        r = _run_ff_impl(amp, g.dg, g.wdata if weighted else g.data, res, method, batch, preset, reset)
        r.update({"res": list(res), "batch": batch, "weighted": weighted, "preset": preset})
        runs.append(r)
    return {"ne": ne, "w": g.weights, "subsets": subsets, "dens": dens, "gd": gd, "runs": runs, "nvar": nvar}


def observe_config(g):
    """ConfigLoader.cal_fitfractions(method='new'): res defaults to sorted(set(str(amp.res)) - exclude_res)"""
    out = []
    for excl in ([], [g.res_names[0]]):
        g.reset()
        g.reset_params()
        try:
            with _quiet():
                ff = g.config.cal_fitfractions({}, mcdata=g.wdata, batch=4, method="new", exclude_res=list(excl))
                fr, _ = ff.get_frac_grad(sum_diag=False)
            out.append({"exclude": excl, "res": list(ff.res), "keys": list(fr.keys()), "frac": [float(v) for v in fr.values()],
                        "total": float(ff.cached_int_total), "state": g.state()})
        except Exception as e:  # noqa: BLE001
            out.append({"exclude": excl, "error": "%s: %s" % (type(e).__name__, e)})
        finally:
            g.reset()
            g.reset_params()
    return out


# ---------------------------------------------------------------------------------------------
# arguments of set_used_res / partial_weight (selection only; densities recorded, not evaluated)
# ---------------------------------------------------------------------------------------------

def _item_tok(g, x):
    from tf_pwa.particle import BaseParticle
    if isinstance(x, bool):
        return "i%d" % int(x)
    if isinstance(x, (str, BaseParticle, int)):
        return g.entry_id(x if isinstance(x, int) else str(x))
    return "x"


def _arg_tok(g, a):
    if isinstance(a, (list, tuple)):
        return "L:" + (",".join(_item_tok(g, x) for x in a) if len(a) else "-")
    return "S:" + _item_tok(g, a)


def _rand_arg(g, rnd, allow_bad=True):
    from tf_pwa.particle import BaseParticle
    names = g.res_names

    def item():
        t = rnd.random()
        if t < 0.4:
            return rnd.choice(names)
        if t < 0.55:
            return BaseParticle(rnd.choice(names))
        if t < 0.8:
            return rnd.randrange(g.n)
        if t < 0.87:
            return "Ghost%d" % rnd.randint(0, 2)
        if not allow_bad:
            return rnd.choice(names)
        return rnd.choice([[rnd.choice(names)], (rnd.choice(names), 0), 1.5, None, [], [[0]]])
    t = rnd.random()
    if t < 0.25:
        x = item()
        return x
    l = [item() for _ in range(rnd.randint(0, 4))]
    return tuple(l) if rnd.random() < 0.3 else l


def observe_args(g, rnd, n_random):
    """set_used_res(arg, only) from random states; partial_weight with nested combine; restores"""
    obs = {"arg": [], "pw": [], "pwb": [], "pwi": None}
    try:
        for _ in range(n_random):
            cur = [rnd.randrange(g.n) for _ in range(rnd.randint(0, g.n))]
            g.dg.set_used_chains(list(cur))
            st0 = g.state()
            a = _rand_arg(g, rnd)
            only = rnd.random() < 0.4
            try:
                g.dg.set_used_res(a, only=only)
                err = None
            except TypeError as e:
                err = "TypeError"
            except Exception as e:  # noqa: BLE001
                err = "%s: %s" % (type(e).__name__, e)
            obs["arg"].append({"arg": a, "only": only, "st0": st0, "err": err, "st1": g.state()})
        # partial_weight: record the selections the densities are evaluated under
        rec = []
        g.dg.sum_amp = lambda data, rec=rec: rec.append([int(i) for i in g.dg.chains_idx]) or 0.0
        g.amp.pdf = lambda data, rec=rec: rec.append([int(i) for i in g.dg.chains_idx]) or 0.0
        from tf_pwa.amp.amp import BaseAmplitudeModel
        for t in range(max(6, n_random // 6)):
            cur = [rnd.randrange(g.n) for _ in range(rnd.randint(0, g.n))] if t else list(range(g.n))
            g.dg.set_used_chains(list(cur))
            st0 = g.state()
            if t == 1:
                combine = None
            else:
                combine = [_rand_arg(g, rnd, allow_bad=(t % 3 == 0)) for _ in range(rnd.randint(0, 4))]
            del rec[:]
            try:
                ret = g.amp.partial_weight({}, combine=combine)
                err = None
                nret = len(ret)
            except TypeError:
                err, nret = "TypeError", None
            except Exception as e:  # noqa: BLE001
                err, nret = "%s: %s" % (type(e).__name__, e), None
            obs["pw"].append({"combine": combine, "st0": st0, "err": err, "sels": [list(r) for r in rec], "nret": nret, "st1": g.state()})
            # BaseAmplitudeModel.partial_weight: int lists through set_used_chains
            g.dg.set_used_chains(list(cur))
            st0 = g.state()
            cb = None if t == 1 else [[rnd.randrange(g.n) for _ in range(rnd.randint(0, 3))] for _ in range(rnd.randint(0, 3))]
            del rec[:]
            try:
                BaseAmplitudeModel.partial_weight(g.amp, {}, combine=cb)
                err = None
            except Exception as e:  # noqa: BLE001
                err = "%s: %s" % (type(e).__name__, e)
            obs["pwb"].append({"combine": cb, "st0": st0, "err": err, "sels": [list(r) for r in rec], "st1": g.state()})
        g.reset()
        del rec[:]
        try:
            ret = g.amp.partial_weight_interference({})
            obs["pwi"] = {"keys": [list(k) for k in ret.keys()], "sels": [list(r) for r in rec], "st1": g.state(), "err": None}
        except Exception as e:  # noqa: BLE001
            obs["pwi"] = {"err": "%s: %s" % (type(e).__name__, e)}
    finally:
        for o, nm in ((g.dg, "sum_amp"), (g.amp, "pdf")):
            if nm in o.__dict__:
                del o.__dict__[nm]
        g.reset()
    return obs


def observe_pw_real(g, singles):
    """one real partial_weight call with a nested combine of names / ints / bare values"""
    import numpy as np
    nm = g.res_names
    combine = [[nm[0], g.n - 1], nm[-1], 0, (nm[0], nm[-1]), list(range(g.n)), [nm[0]] + ([nm[1]] if len(nm) > 1 else [])]
    g.reset()
    try:
        pw = g.amp.partial_weight(g.data, combine=combine)
        return {"combine": combine, "pdf": [np.asarray(x.numpy()).reshape(-1) for x in pw], "state": g.state(), "err": None}
    except Exception as e:  # noqa: BLE001
        return {"combine": combine, "err": "%s: %s" % (type(e).__name__, e)}
    finally:
        g.reset()


# ---------------------------------------------------------------------------------------------
# observation driver
# ---------------------------------------------------------------------------------------------

_CACHE = {}


def observe(ctx, obs_main):
    key = (ctx.seed, ctx.tier)
    if key in _CACHE:
        return _CACHE[key]
    rnd = random.Random(ctx.seed * 104729 + 11)
    out = []
    for o in obs_main:
        g, gi = o["g"], o["gi"]
        b = {"g": g, "gi": gi}
        b["stub"] = observe_stub(g, rnd, ctx.quick)
        b["args"] = observe_args(g, rnd, 60 if ctx.quick else 400)
        b["real"] = observe_real(g, ctx.quick) if (gi == 0 or (not ctx.quick and gi in (1, 3))) else None
        b["config"] = observe_config(g) if (gi in (0, 3) or not ctx.quick) else []
        b["pwreal"] = observe_pw_real(g, None) if o.get("amps") else None
        out.append(b)
    _CACHE[key] = out
    return out


# ---------------------------------------------------------------------------------------------
# correspondence
# ---------------------------------------------------------------------------------------------

def _cmp_exact(a, b):
    import numpy as np
    a, b = np.asarray(a, float).reshape(-1), np.asarray(b, float).reshape(-1)
    return a.shape == b.shape and bool(np.all(a == b))


def _cmp_tol(a, b, rel, scale):
    import numpy as np
    a, b = np.asarray(a, float).reshape(-1), np.asarray(b, float).reshape(-1)
    return a.shape == b.shape and bool(np.all(np.abs(a - b) <= rel * scale))


def _state_str(st):
    return "%s %d" % (_nats(st[0]), int(st[1]))


def correspond(ctx, res, obs_main):
    import numpy as np
    obs = observe(ctx, obs_main)
    lines, checks = [], []
    n_exact = n_real = n_arg = 0
    for b in obs:
        g = b["g"]
        # --- FitFractions / cal_fitfractions, exact on the stub and 1e-12 on the real amplitude
        for kind, T in (("stub", b["stub"]), ("real", b["real"])):
            if T is None:
                continue
            for r in T["runs"]:
                tag = {"group": g.name, "amp": kind, "method": r["method"], "res": [str(x) for x in r["res"]], "batch": r["batch"],
                       "weighted": r["weighted"], "preset": r["preset"]}
                if "error" in r:
                    res.broke("correspondence C03b: fit-fraction routine raised", dict(tag, err=r["error"]))
                    continue
                if r["state_after"] != r["state_before"]:
                    res.broke("correspondence C03b: selection not restored by the fit-fraction routine", dict(tag, before=r["state_before"], after=r["state_after"]))
                if not (r.get("keys_ok", True) and r.get("order_ok", True) and r.get("nosumdiag_ok", True)):
                    res.broke("correspondence C03b: dictionary keys / order of the fraction table", tag)
                    continue
                cur = r["preset"] if r["preset"] is not None else list(range(g.n))
                w = T["w"] if r["weighted"] else np.ones(T["ne"])
                meth = "old" if r["method"] in ("old", "nograd") else "new"
                lines.append(_ffx_line(g, meth, cur, r["res"], r["batch"], T["nvar"], T["subsets"], w, T["dens"], T["gd"]))
                if kind == "stub":
                    n_exact += 1
                else:
                    n_real += 1

                def chk(ans, r=r, T=T, tag=tag, kind=kind):
                    m = _parse_ffx(ans, len(r["res"]), T["nvar"])
                    if m is None:
                        return ("correspondence C03b: model answer has the wrong shape", tag)
                    fields = ["frac"]
                    if r["method"] != "nograd":
                        fields.append("gfrac")
                    if r["method"] in ("new", "new_app"):
                        fields += ["total", "gtotal", "ints", "grads", "sum_diag", "gsum_diag", "diag_sum"]
                    for f in fields:
                        if kind == "stub":
                            ok = _cmp_exact(m[f], r[f])
                        else:
                            sc = max(1.0, float(np.max(np.abs(np.asarray(m[f], float)))) if np.size(m[f]) else 1.0)
                            ok = _cmp_tol(m[f], r[f], 1e-12 if not f.startswith("g") else 1e-10, sc)
                        if not ok:
                            d = np.asarray(m[f], float).reshape(-1) - np.asarray(r[f], float).reshape(-1) if np.size(m[f]) == np.size(r[f]) else None
                            return ("correspondence C03b: %s of %s vs model (%s)" % (f, r["method"], "exact" if kind == "stub" else "1e-12"),
                                    dict(tag, field=f, max_abs_diff=None if d is None else float(np.max(np.abs(d))),
                                         impl=np.asarray(r[f], float).reshape(-1)[:6].tolist(), model=np.asarray(m[f], float).reshape(-1)[:6].tolist()))
                    if "diag_sum_err" in r:
                        e2 = float(np.sum(np.asarray(m["gdiag_sum"]) ** 2))
                        if not abs(r["diag_sum_err"] ** 2 - e2) <= 1e-9 * max(1.0, e2):
                            return ("correspondence C03b: get_frac_diag_sum error vs |sum of diagonal gradients|", dict(tag, impl=r["diag_sum_err"], model2=e2))
                    return None
                checks.append(chk)
        # --- ConfigLoader.cal_fitfractions(method="new")
        for r in b["config"]:
            if "error" in r:
                res.broke("correspondence C03b: ConfigLoader.cal_fitfractions(method='new') raised", {"group": g.name, "err": r["error"]})
                continue
            want = sorted(set(g.res_names) - set(r["exclude"]))
            if [str(x) for x in r["res"]] != want or r["keys"] != _keys(want):
                res.broke("correspondence C03b: ConfigLoader.cal_fitfractions res default / keys", {"group": g.name, "exclude": r["exclude"], "res": [str(x) for x in r["res"]], "want": want})
            if r["state"] != (list(range(g.n)), False):
                res.broke("correspondence C03b: ConfigLoader.cal_fitfractions leaves a selection", {"group": g.name, "state": r["state"]})
        # --- set_used_res arguments
        for r in b["args"]["arg"]:
            if r["err"] not in (None, "TypeError"):
                res.broke("correspondence C03b: set_used_res raised something else than TypeError", {"group": g.name, "arg": repr(r["arg"]), "err": r["err"]})
                continue
            lines.append("C03b arg %s %d %s %d %s" % (g.lean_group(), int(r["only"]), _nats(r["st0"][0]), int(r["st0"][1]), _arg_tok(g, r["arg"])))
            want = ("TypeError " if r["err"] else "ok ") + _state_str(r["st1"])
            n_arg += 1

            def chk(ans, want=want, r=r, g=g):
                if ans != want:
                    return ("correspondence C03b: set_used_res(arg, only) result / TypeError / state", {"group": g.name, "arg": repr(r["arg"]), "only": r["only"], "from": r["st0"], "impl": want, "model": ans})
                return None
            checks.append(chk)
        for r in b["args"]["pw"]:
            if r["err"] not in (None, "TypeError"):
                res.broke("correspondence C03b: partial_weight raised", {"group": g.name, "combine": repr(r["combine"]), "err": r["err"]})
                continue
            cmb = "None" if r["combine"] is None else " ".join(_arg_tok(g, a) for a in r["combine"])
            if r["combine"] is not None and len(r["combine"]) == 0:
                # empty combine: nothing evaluated, state kept
                if r["sels"] or r["st1"] != r["st0"]:
                    res.broke("correspondence C03b: partial_weight(combine=[])", {"group": g.name})
                continue
            lines.append("C03b pw %s %s %d %s" % (g.lean_group(), _nats(r["st0"][0]), int(r["st0"][1]), cmb))
            want = ("TypeError" if r["err"] else "/".join(_nats(s) for s in r["sels"])) + " ; " + _state_str(r["st1"])
            n_arg += 1

            def chk(ans, want=want, r=r, g=g):
                if ans != want:
                    return ("correspondence C03b: partial_weight selections / restore", {"group": g.name, "combine": repr(r["combine"]), "from": r["st0"], "impl": want, "model": ans})
                return None
            checks.append(chk)
        for r in b["args"]["pwb"]:
            if r["err"] is not None:
                res.broke("correspondence C03b: BaseAmplitudeModel.partial_weight raised", {"group": g.name, "err": r["err"]})
                continue
            if r["combine"] is not None and len(r["combine"]) == 0:
                continue
            cmb = "None" if r["combine"] is None else "/".join(_nats(s) for s in r["combine"])
            lines.append("C03b pwb %s %s %d %s" % (g.lean_group(), _nats(r["st0"][0]), int(r["st0"][1]), cmb))
            want = "/".join(_nats(s) for s in r["sels"]) + " ; " + _state_str(r["st1"])
            n_arg += 1

            def chk(ans, want=want, r=r, g=g):
                if ans != want:
                    return ("correspondence C03b: BaseAmplitudeModel.partial_weight selections / restore", {"group": g.name, "combine": r["combine"], "impl": want, "model": ans})
                return None
            checks.append(chk)
        r = b["args"]["pwi"]
        if r.get("err"):
            res.broke("correspondence C03b: partial_weight_interference raised", {"group": g.name, "err": r["err"]})
        else:
            lines.append("C03b pwi %s" % g.lean_group())
            want = "/".join(_nats(s) for s in r["sels"]) if r["sels"] else "-"
            n_arg += 1

            def chk(ans, want=want, r=r, g=g):
                if (ans if ans else "-") != want or r["keys"] != r["sels"] or r["st1"] != (list(range(g.n)), False):
                    return ("correspondence C03b: partial_weight_interference keys / selections / restore", {"group": g.name, "impl": want, "model": ans, "keys": r["keys"], "state": r["st1"]})
                return None
            checks.append(chk)
    answers = ctx.model.query(lines) if lines else []
    bad = 0
    for ans, chk, line in zip(answers, checks, lines):
        if ans == "bad-op":
            res.broke("model driver rejected op", line[:200])
            bad += 1
            continue
        r = chk(ans)
        if r is not None:
            bad += 1
            if bad <= 5:
                res.broke(r[0], r[1])
    res.coverage.update({
        "c03b_fit_fraction_states_compared_exactly": n_exact,
        "c03b_fit_fraction_states_compared_1e-12": n_real,
        "c03b_selection_argument_traces_compared_exactly": n_arg,
        "c03b_disagreements": bad,
    })
    res.coverage["traces_validated_against_impl"] = res.coverage.get("traces_validated_against_impl", 0) + n_exact + n_real + n_arg
    res.coverage["evaluations"] = res.coverage.get("evaluations", 0) + len(lines)


# ---------------------------------------------------------------------------------------------
# search: statements on the implementation, numpy oracle only
# ---------------------------------------------------------------------------------------------

def _pick(g, es):
    from tf_pwa.particle import BaseParticle
    out = []
    for j in range(g.n):
        for e in es:
            if (isinstance(e, (str, BaseParticle)) and str(e) in g.inner_names[j]) or (isinstance(e, int) and e == j):
                out.append(j)
                break
    return out


def search(ctx, res, obs_main):
    import numpy as np
    from tf_pwa.particle import BaseParticle
    obs = observe(ctx, obs_main)
    n_id = 0
    worst = {"sumrule": 0.0, "definition": 0.0, "grad": 0.0, "symmetric": 0.0}
    for b in obs:
        g = b["g"]
        for kind, T in (("stub", b["stub"]), ("real", b["real"])):
            if T is None:
                continue
            sub_index = {tuple(s): i for i, s in enumerate(T["subsets"])}
            by_res = {}
            for r in T["runs"]:
                tag = {"group": g.name, "amp": kind, "method": r["method"], "res": [str(x) for x in r["res"]], "batch": r["batch"],
                       "weighted": r["weighted"], "preset": r["preset"], "seed": ctx.seed}
                m = "new" if r["method"] in ("new", "new_app") else r["method"]
                if "error" in r:
                    res.fail("ffb:raises:%s" % m, "group %s (%s amplitude): fit fractions method=%s res=%s batch=%s raise %s" % (g.name, kind, r["method"], tag["res"], r["batch"], r["error"]), tag)
                    continue
                if r["state_after"] != r["state_before"]:
                    res.fail("ffb:restore:%s" % m, "group %s: chains_idx/not_full %s before the fit-fraction call (method=%s), %s after" % (g.name, r["state_before"], r["method"], r["state_after"]), tag)
                w = T["w"] if r["weighted"] else np.ones(T["ne"])
                cur = sorted(set(r["preset"])) if r["preset"] is not None else list(range(g.n))

                def I(S):
                    return float((w * T["dens"][sub_index[tuple(sorted(set(S)))]]).sum())

                def gI(S):
                    return (w[:, None] * T["gd"][sub_index[tuple(sorted(set(S)))]]).sum(axis=0)
                es = r["res"]
                totS = cur if m == "new" else _pick(g, es)
                tot, gtot = I(totS), gI(totS)
                if tot == 0:
                    continue
                want, gwant = [], []
                for i in range(len(es)):
                    for j in range(i, -1, -1):
                        fi, gi_ = I(_pick(g, [es[i]])) / tot, None
                        if i == j:
                            want.append(fi)
                            gwant.append((gI(_pick(g, [es[i]])) * tot - I(_pick(g, [es[i]])) * gtot) / tot ** 2)
                        else:
                            A, Ai, Aj = I(_pick(g, [es[i], es[j]])), I(_pick(g, [es[i]])), I(_pick(g, [es[j]]))
                            want.append((A - Ai - Aj) / tot)
                            gA = gI(_pick(g, [es[i], es[j]])) - gI(_pick(g, [es[i]])) - gI(_pick(g, [es[j]]))
                            gwant.append((gA * tot - (A - Ai - Aj) * gtot) / tot ** 2)
                want, gwant = np.array(want), np.array(gwant)
                n_id += 1
                tol = 1e-12 if kind == "stub" else 1e-10
                d = float(np.max(np.abs(want - r["frac"]))) if len(want) == len(r["frac"]) else float("inf")
                worst["definition"] = max(worst["definition"], d)
                if not d <= tol:
                    i = int(np.argmax(np.abs(want - r["frac"]))) if len(want) == len(r["frac"]) else 0
                    res.fail("ffb:definition:%s" % m, "group %s (%s amplitude, weighted=%s, batch=%s, chains %s active): method=%s res=%s entry #%d = %.15g, but (A_ij - A_i - A_j)/A resp. A_i/A integrated directly over the weighted sample = %.15g" % (
                        g.name, kind, r["weighted"], r["batch"], cur, r["method"], tag["res"], i, r["frac"][i] if i < len(r["frac"]) else float("nan"), want[i]), tag)
                if "gfrac" in r:
                    n_id += 1
                    sc = max(1.0, float(np.max(np.abs(gwant)))) if gwant.size else 1.0
                    dg_ = float(np.max(np.abs(gwant - r["gfrac"]))) / sc if gwant.shape == np.asarray(r["gfrac"]).shape else float("inf")
                    worst["grad"] = max(worst["grad"], dg_)
                    if not dg_ <= (1e-11 if kind == "stub" else 1e-8):
                        res.fail("ffb:grad:%s" % m, "group %s (%s amplitude): gradient table of method=%s res=%s batch=%s differs from the quotient rule (dA*T - A*dT)/T^2 applied to the directly integrated gradients by %.3g (relative)" % (
                            g.name, kind, r["method"], tag["res"], r["batch"], dg_), tag)
                # sum rule when the single selections are disjoint and cover the active chains
                sels = [_pick(g, [e]) for e in es]
                flat = [j for s in sels for j in s]
                if len(flat) == len(set(flat)) and sorted(flat) == sorted(totS) and abs(tot) > 0:
                    n_id += 1
                    sr = abs(float(np.sum(r["frac"])) - 1.0)
                    worst["sumrule"] = max(worst["sumrule"], sr)
                    if not sr <= 1e-11 * (1 if kind == "stub" else 100):
                        res.fail("ffb:sumrule:%s" % m, "group %s (%s amplitude): fractions + interference terms of method=%s res=%s batch=%s weighted=%s sum to %.15g" % (
                            g.name, kind, r["method"], tag["res"], r["batch"], r["weighted"], float(np.sum(r["frac"]))), tag)
                if "diag_sum" in r:
                    n_id += 1
                    ds = sum(I(_pick(g, [e])) for e in es)
                    if not abs(r["diag_sum"] - ds) <= tol * max(1.0, abs(ds)):
                        res.fail("ffb:diag_sum", "group %s (%s amplitude): get_frac_diag_sum() = %.15g, the sum of the cached single-resonance integrals (res=%s, directly integrated) is %.15g" % (g.name, kind, r["diag_sum"], tag["res"], ds), tag)
                    if not abs(r["sum_diag"] - sum(want[k] for k, key in enumerate(_keys(es)) if isinstance(key, str))) <= tol * 10:
                        res.fail("ffb:sum_diag", "group %s: sum_diag entry %.15g is not the sum of the diagonal fractions" % (g.name, r["sum_diag"]), tag)
                by_res.setdefault((m, tuple(str(x) for x in es), r["weighted"], tuple(cur)), []).append(r)
            # batch independence (exact on the stub: every partial sum is an integer)
            for key, recs in by_res.items():
                ref = recs[0]
                for r in recs[1:]:
                    n_id += 1
                    ok = _cmp_exact(ref["frac"], r["frac"]) if kind == "stub" else _cmp_tol(ref["frac"], r["frac"], 1e-11, 1.0)
                    if ok and "gfrac" in r and "gfrac" in ref:
                        ok = _cmp_exact(ref["gfrac"], r["gfrac"]) if kind == "stub" else _cmp_tol(ref["gfrac"], r["gfrac"], 1e-9, max(1.0, float(np.max(np.abs(ref["gfrac"])))))
                    if not ok:
                        res.fail("ffb:batch:%s" % key[0], "group %s (%s amplitude): method=%s res=%s gives different tables for batch=%s and batch=%s (sample of %d events)" % (
                            g.name, kind, key[0], list(key[1]), ref["batch"], r["batch"], T["ne"]),
                            {"group": g.name, "amp": kind, "method": key[0], "batches": [ref["batch"], r["batch"]], "seed": ctx.seed})
            # symmetry: a permuted res list permutes the table
            tabs = {}
            for r in T["runs"]:
                if "error" in r or r["method"] not in ("new", "old") or r["preset"] is not None:
                    continue
                d = {}
                for k, v in zip(_keys(r["res"]), r["frac"]):
                    d[frozenset([k]) if isinstance(k, str) else frozenset(k)] = v
                tabs.setdefault((r["method"], frozenset(str(x) for x in r["res"]), r["weighted"]), []).append((r, d))
            for key, lst in tabs.items():
                for (r1, d1), (r2, d2) in zip(lst, lst[1:]):
                    n_id += 1
                    dd = max(abs(d1[k] - d2[k]) for k in d1) if set(d1) == set(d2) else float("inf")
                    worst["symmetric"] = max(worst["symmetric"], dd)
                    if not dd <= 1e-11:
                        res.fail("ffb:symmetric:%s" % key[0], "group %s (%s amplitude): method=%s with res=%s and res=%s gives different values for the same (pair of) resonances (max diff %.3g)" % (
                            g.name, kind, key[0], [str(x) for x in r1["res"]], [str(x) for x in r2["res"]], dd), {"group": g.name, "amp": kind, "method": key[0], "seed": ctx.seed})
        # ConfigLoader path = FitFractions on sorted names
        for r in b["config"]:
            n_id += 1
            if "error" in r:
                res.fail("ffb:config:raises", "group %s: ConfigLoader.cal_fitfractions(method='new', exclude_res=%s) raises %s" % (g.name, r["exclude"], r["error"]), {"group": g.name})
                continue
            want = sorted(set(g.res_names) - set(r["exclude"]))
            if [str(x) for x in r["res"]] != want:
                res.fail("ffb:config:res", "group %s: ConfigLoader.cal_fitfractions(exclude_res=%s) computes fractions for %s, expected %s" % (g.name, r["exclude"], [str(x) for x in r["res"]], want), {"group": g.name})
            elif not r["exclude"] and all(len([e for e in want if e in g.inner_names[j]]) == 1 for j in range(g.n)):
                if not abs(sum(r["frac"]) - 1.0) <= 1e-9:
                    res.fail("ffb:config:sumrule", "group %s: ConfigLoader.cal_fitfractions(method='new') table sums to %.12g" % (g.name, sum(r["frac"])), {"group": g.name})
        # arguments
        for r in b["args"]["arg"]:
            n_id += 1
            a = r["arg"]
            items = list(a) if isinstance(a, (list, tuple)) else [a]
            bad = any(not isinstance(x, (str, BaseParticle, int)) for x in items)
            if bad:
                if r["err"] != "TypeError" or r["st1"] != r["st0"]:
                    res.fail("select:arg:type-error", "group %s: set_used_res(%r) with an element that is no particle / int: error=%s, state %s -> %s (expected TypeError and an untouched selection)" % (g.name, a, r["err"], r["st0"], r["st1"]), {"group": g.name, "arg": repr(a)})
                continue
            if r["err"] is not None:
                res.fail("select:arg:raises", "group %s: set_used_res(%r, only=%s) raises %s" % (g.name, a, r["only"], r["err"]), {"group": g.name, "arg": repr(a)})
                continue
            names = {str(x) for x in items if isinstance(x, (str, BaseParticle))}
            ints = [x for x in items if isinstance(x, int)]
            if r["only"]:
                base = [j for j in range(g.n) if set(g.inner_names[j]) <= names]
            else:
                base = [j for j in range(g.n) if set(g.inner_names[j]) & names]
            for i in ints:
                if i not in base:
                    base.append(i)
            if r["st1"][0] != base:
                res.fail("select:arg:%s" % ("only" if r["only"] else "union"), "group %s: set_used_res(%r, only=%s) -> chains_idx %s, the chains %s the named resonances (plus listed indices) are %s" % (
                    g.name, a, r["only"], r["st1"][0], "made only of" if r["only"] else "containing one of", base), {"group": g.name, "arg": repr(a), "only": r["only"]})
        for r in b["args"]["pw"]:
            n_id += 1
            if r["st1"] != r["st0"]:
                res.fail("pw:restore", "group %s: partial_weight(combine=%r) from state %s leaves %s" % (g.name, r["combine"], r["st0"], r["st1"]), {"group": g.name, "combine": repr(r["combine"])})
            if r["err"] is None:
                cmb = r["combine"] if r["combine"] is not None else [[i] for i in range(g.n)]
                want = []
                for a in cmb:
                    items = list(a) if isinstance(a, (list, tuple)) else [a]
                    s = [j for j in range(g.n) if set(g.inner_names[j]) & {str(x) for x in items if not isinstance(x, int)}]
                    for i in items:
                        if isinstance(i, int) and i not in s:
                            s.append(i)
                    want.append(s)
                if r["sels"] != want:
                    res.fail("pw:select", "group %s: partial_weight(combine=%r) evaluates the density under chains %s, the union selections are %s" % (g.name, r["combine"], r["sels"], want), {"group": g.name, "combine": repr(r["combine"])})
        for r in b["args"]["pwb"]:
            n_id += 1
            if r["err"] is None and r["st1"] != r["st0"]:
                res.fail("pw:restore:base", "group %s: BaseAmplitudeModel.partial_weight from state %s leaves %s" % (g.name, r["st0"], r["st1"]), {"group": g.name})
        r = b["args"]["pwi"]
        if not r.get("err"):
            n_id += 1
            want = [list(p) for p in itertools.combinations(range(g.n), 2)]
            if r["sels"] != want or r["keys"] != want:
                res.fail("pw:interference:keys", "group %s: partial_weight_interference evaluates %s under keys %s, expected all pairs %s" % (g.name, r["sels"], r["keys"], want), {"group": g.name})
        # real partial_weight with a nested combine against the single-chain tensors
        pr = b["pwreal"]
        o = [x for x in obs_main if x["g"] is g][0]
        if pr is not None and o.get("amps"):
            singles = o["amps"]["singles"]
            scale = max(float(np.abs(s).max()) for s in singles)
            if pr["err"]:
                res.fail("pw:nested:raises", "group %s: partial_weight(combine=%r) raises %s" % (g.name, pr["combine"], pr["err"]), {"group": g.name})
            else:
                for a, pdf in zip(pr["combine"], pr["pdf"]):
                    items = list(a) if isinstance(a, (list, tuple)) else [a]
                    S = _pick(g, items)
                    dens = (np.abs(sum(singles[k] for k in S)) ** 2).sum(axis=1)
                    n_id += 1
                    d = float(np.abs(pdf - dens).max()) / (scale * scale * o["amps"]["nh"])
                    if not d <= 1e-12:
                        res.fail("pw:nested:density", "group %s: partial_weight entry %r differs from sum_lambda |sum_k A_k|^2 over the union of its chains %s by %.3g (relative)" % (g.name, a, S, d), {"group": g.name, "entry": repr(a)})
                if pr["state"] != (list(range(g.n)), False):
                    res.fail("pw:restore", "group %s: partial_weight leaves selection %s" % (g.name, pr["state"]), {"group": g.name})
    res.coverage["c03b_search_identities"] = n_id
    res.coverage["c03b_search_worst_residuals"] = worst
