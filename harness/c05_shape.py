"""C05 part Y — `cached_shape` / `mask_factor`, the id()-switch of AbsPDF.__call__, p4_directly / cached_angle.

Lean model `TfPwaV.FactoriseY` (Model/FactoriseY.lean), theorems in Props/C05d.lean.

Correspondence (exact, integer-valued float64 / complex128 tensors):
  * the REAL `BaseAmplitudeModel.temp_total_gls_one` on stub decay groups whose chains SHARE decay objects, arbitrary
    `mask_factor` flags before (objects without the attribute included), a body that may raise;
  * the REAL `CachedShapePreProcessor.build_cached` (cal_angle stubbed), `CachedShapeAmplitudeModel.get_cached_shape_idx`
    and `.pdf`, with the REAL `HelicityDecay.get_g_ls / set_ls`, `DecayChain.get_amp_total / get_all_factor` bound to the
    stub objects (so the `tf.ones_like` masking is the library's), couplings changed between caching and evaluation,
    floating chains whose line shape changes, partial chain selections, user supplied `cached_shape_idx`;
  * the REAL `AbsPDF.__init__ / __call__ / set_params` (a subclass with a one-parameter pdf, with and without
    `use_tf_function` = the real WrapFun, with and without `no_id_cached`) on random call sequences.
Search (oracles independent of the model): numpy evaluation of Σ_chains total·rs·Π_decays Σ_ls g_ls·bf_ls·part_ls; flags
before = flags after; value of every call = p·x; the real `CachedShapeAmplitudeModel` on the 4-body cascade (shared decay
object) with ALL couplings changed after the cache was built, once with a floating resonance next to the cached chain.
"""
import contextlib
import io
import random
import types

import common as C

DRIVER_ENTRY = ("C05y", "TfPwaV.Model.FactoriseY", "FactoriseY.handle")
LEAN_TARGETS_EXTRA = ["TfPwaV.Props.C05d"]
PROP_MODULES_EXTRA = ["TfPwaV.Props.C05d"]
ALL_MODULES_EXTRA = ["TfPwaV.Model.FactoriseY", "TfPwaV.Proofs.FactoriseY", "TfPwaV.Props.C05d"]
ASSUMPTIONS_EXTRA = [
    "cached_shape: Props/C05d.lean is about the list model TfPwaV.FactoriseY (one event, one helicity slot; the event axis and the trailing helicity axes of the code are only broadcast); chains refer to decay objects by index into a decay table, so any sharing pattern is covered; the model is compared exactly with the real CachedShapePreProcessor.build_cached / CachedShapeAmplitudeModel.pdf / get_cached_shape_idx / temp_total_gls_one driven on stub decay groups whose decay and chain objects run the REAL HelicityDecay.get_g_ls / set_ls and DecayChain.get_amp_total / get_all_factor; the stub's get_m_dep has the documented layout [g_ls*bf per decay ..., total*rs] (that the real DecayGroup serves this layout is covered by the real-model comparison on the cascade, not by the model)",
    "cached_shape_eq_direct has the explicit hypothesis that barrier factors and propagators of the chains in cached_shape_idx are the same at caching and at evaluation time (fixed masses / widths: exactly what get_cached_shape_idx tests with is_fixed_shape); a user-supplied cached_shape_idx with repeated entries or naming a chain with floating line shape is outside the theorem (counter-examples in Props/C05d.lean)",
    "id()-switch: call_value_independent_of_history assumes cached_fun and pdf agree as functions of (parameters, data) (hypothesis hwrap); for cached_fun = WrapFun(pdf) that is TensorFlow tracing - validated (real WrapFun in the correspondence, strategy zoo), not proved; LazyCall.eval() producing a fresh object per call is not modelled (ids are free inputs of the model, so the theorem covers it)",
    "p4_directly / cached_angle: the pipelines are modelled as compositions of abstract stage functions (cal_angle, parity map, sum_amp, angular tensor, mass-dependent factors); the theorems say which stage may depend on the parameters and that the cp_trans flag is resolved identically (dic.get('cp_trans', True) on the same data: section); that the real stages are those functions is the strategy comparison on the zoo (cc_on / cc_off with both charges)",
]

HELS = [(), (2,), (3,), (2, 2)]


# ------------------------------------------------------------------------------------------------------
# stub decay group with shared decay objects; the masking code is the library's
# ------------------------------------------------------------------------------------------------------

def _classes():
    """built lazily: needs tf_pwa"""
    import numpy as np
    import tensorflow as tf
    from tf_pwa.amp.core import DecayChain, HelicityDecay

    class YDecay:
        mask_factor = False                  # class default (the library's __init__ sets it); instances set their own later
        get_g_ls = HelicityDecay.get_g_ls   # REAL: ls_index selection + `tf.ones_like` under mask_factor
        set_ls = HelicityDecay.set_ls       # REAL

        def __init__(self, g, dtype, fixed=True, with_attr=True):
            self.g = list(g)
            self.dtype = dtype
            self.full_ls = tuple((k, 0) for k in range(len(g)))
            self.ls_list = None
            self.total_ls = None
            self.ls_index = None
            self.single_gls = False
            self.core = types.SimpleNamespace(is_fixed_shape=lambda: fixed)
            if with_attr:
                self.mask_factor = False

        def g_ls(self):
            return [tf.constant(complex(v) if self.dtype == np.complex128 else float(np.real(v)), dtype=self.dtype) for v in self.g]

        def get_ls_list(self):
            return self.ls_list if self.ls_list is not None else self.full_ls

        def cur(self):
            return list(range(len(self.g))) if self.ls_index is None else list(self.ls_index)

    class YChain:
        mask_factor = False
        get_amp_total = DecayChain.get_amp_total    # REAL: `tf.ones_like` under mask_factor
        get_all_factor = DecayChain.get_all_factor  # REAL

        def __init__(self, decays, total_v, dtype, with_attr=True):
            self.decays = decays
            self.total_v = total_v
            self.dtype = dtype
            if with_attr:
                self.mask_factor = False

        def total(self, charge=1):
            v = self.total_v
            return [tf.constant(complex(v) if self.dtype == np.complex128 else float(np.real(v)), dtype=self.dtype)]

        def __iter__(self):
            return iter(self.decays)

        def product_gls(self):
            return tf.reduce_prod(self.get_all_factor())

    return YDecay, YChain


class YGroup:
    """serves m_dep = [g_ls·bf per decay …, total·rs] and the angular tensors; `phase` 0 = caching time, 1 = evaluation time"""

    def __init__(self, chains, table):
        self.chains = chains
        self.table = table            # the decay objects (a chain's decays are entries of this list)
        self.chains_idx = list(range(len(chains)))
        self.not_full = False
        self.phase = 0

    def __iter__(self):
        return iter(self.chains)

    @contextlib.contextmanager
    def keep_used_chains(self):
        old, nf = list(self.chains_idx), self.not_full
        try:
            yield
        finally:
            self.chains_idx, self.not_full = old, nf

    def set_used_chains(self, idx):
        self.chains_idx = list(idx)
        self.not_full = len(self.chains_idx) != len(self.chains)

    def _used(self):
        return [self.chains[i] for i in self.chains_idx]

    @staticmethod
    def _ev(data, arr):
        import tensorflow as tf
        return tf.gather(tf.constant(arr), tf.cast(data["x"], tf.int32), axis=0)

    def get_m_dep(self, data):
        import tensorflow as tf
        ret = []
        for c in self._used():
            fs = []
            for d, bf in zip(c.decays, c.bf[self.phase]):
                mag = d.get_g_ls()                                 # as HelicityDecay.get_ls_amp: m_dep = mag * bf
                fs.append(mag * tf.cast(self._ev(data, bf[:, d.cur()]), mag.dtype))
            total = c.get_amp_total()                              # as DecayChain.get_m_dep: total * rs
            fs.append(total * tf.cast(self._ev(data, c.rs[self.phase]), total.dtype)[:, None])
            ret.append(fs)
        return ret

    def get_angle_amp(self, data):
        import numpy as np
        c = self._used()[-1]
        a = c.ang
        for ax, d in enumerate(c.decays):
            a = np.take(a, d.cur(), axis=ax + 1)
        return self._ev(data, a.sum(axis=tuple(range(1, 1 + len(c.decays)))))

    def sum_with_polarization(self, amp):
        return amp


def rint(rnd, kind, lo=-3, hi=3, nonzero=False):
    while True:
        v = rnd.randint(lo, hi) if kind == "Z" else complex(rnd.randint(lo, hi), rnd.randint(-2, 2))
        if not nonzero or v != 0:
            return v


def rarr(rnd, kind, shape, nonzero=False):
    import numpy as np
    n = 1
    for s in shape:
        n *= s
    return np.array([rint(rnd, kind, nonzero=nonzero) for _ in range(n)], dtype=np.float64 if kind == "Z" else np.complex128).reshape(shape)


def gen_group(rnd, i, product_form=False):
    import numpy as np
    YDecay, YChain = _classes()
    kind = "G" if i % 3 == 1 else "Z"
    dt = np.float64 if kind == "Z" else np.complex128
    n_ev = rnd.choice([1, 2, 3])
    hel = rnd.choice(HELS)
    n_tab = rnd.choice([2, 3, 4])
    # decay table: some objects with a floating core (their chains are not cached), some without the attribute yet
    table = [YDecay([1] + [rint(rnd, kind, nonzero=True) for _ in range(rnd.choice([0, 1, 1, 2]))], dt,
                    fixed=rnd.random() < 0.75, with_attr=rnd.random() < 0.7) for _ in range(n_tab)]
    n_ch = rnd.choice([1, 2, 2, 3])
    chains = []
    for _ in range(n_ch):
        D = min(rnd.choice([1, 2, 2, 3]), n_tab)
        didx = rnd.sample(range(n_tab), D)                         # sharing ACROSS chains (inside one chain an object occurs once)
        decays = [table[j] for j in didx]
        c = YChain(decays, rint(rnd, kind, nonzero=True), dt, with_attr=rnd.random() < 0.7)
        c.didx = didx
        nls = [len(d.g) for d in decays]
        c.nls = nls
        fixed = all(d.core.is_fixed_shape() for d in decays)
        bf0 = [rarr(rnd, kind, (n_ev, k)) for k in nls]
        rs0 = rarr(rnd, kind, (n_ev,), nonzero=True)
        if fixed:
            c.bf, c.rs = (bf0, bf0), (rs0, rs0)
        else:  # the line shape moves between caching and evaluation
            c.bf, c.rs = (bf0, [rarr(rnd, kind, (n_ev, k)) for k in nls]), (rs0, rarr(rnd, kind, (n_ev,), nonzero=True))
        c.fixed = fixed
        if product_form:
            parts = [rarr(rnd, kind, (n_ev, k)) for k in nls]
            hv = rarr(rnd, kind, (n_ev,) + hel)
            ang = hv.reshape((n_ev,) + (1,) * D + hel).astype(dt)
            for j, p in enumerate(parts):
                ang = ang * p.reshape((n_ev,) + tuple(nls[j] if a == j else 1 for a in range(D)) + (1,) * len(hel))
            c.parts, c.hv = parts, hv
        else:
            ang = rarr(rnd, kind, (n_ev,) + tuple(nls) + hel)
        c.ang = ang
        chains.append(c)
    dg = YGroup(chains, table)
    dg.kind, dg.n_ev, dg.hel, dg.dt = kind, n_ev, hel, dt
    # couplings at evaluation time (everything changes), flags before, selections
    dg.g1 = [[1] + [rint(rnd, kind, nonzero=True) for _ in d.g[1:]] for d in table]
    dg.total1 = [rint(rnd, kind, nonzero=True) for _ in chains]
    dg.init_chain = [(not product_form) and rnd.random() < 0.15 for _ in chains]   # product form = the search cases: nothing masked by the caller
    dg.init_decay = [(not product_form) and rnd.random() < 0.15 for _ in table]
    fixed_idx = [k for k, c in enumerate(chains) if c.fixed]
    r = rnd.random()
    if r < 0.6 or not fixed_idx:
        dg.user_idx = None                                          # get_cached_shape_idx decides
    else:
        sub = [k for k in fixed_idx if rnd.random() < 0.7]
        rnd.shuffle(sub)
        dg.user_idx = sub                                           # data: cached_shape_idx (any order)
    dg.used1 = list(range(n_ch))
    if rnd.random() < 0.35:
        dg.used1 = sorted(rnd.sample(range(n_ch), rnd.randint(1, n_ch)))
        if rnd.random() < 0.5:
            rnd.shuffle(dg.used1)
    return dg


def prodn(l):
    r = 1
    for i in l:
        r *= i
    return r


def describe(dg):
    return {"kind": dg.kind, "n_ev": dg.n_ev, "hel": list(dg.hel), "chains": [list(c.didx) for c in dg.chains],
            "n_ls": [len(d.g) for d in dg.table], "fixed": [c.fixed for c in dg.chains], "user_idx": dg.user_idx, "used": dg.used1}


def cell_flags(dg):
    """flag table of the model: chain c -> cell 2c, decay-table entry d -> cell 2d+1"""
    n = 2 * max(len(dg.chains), len(dg.table)) + 2
    fl = [0] * n
    for k, c in enumerate(dg.chains):
        fl[2 * k] = 1 if getattr(c, "mask_factor", False) else 0
    for k, d in enumerate(dg.table):
        fl[2 * k + 1] = 1 if getattr(d, "mask_factor", False) else 0
    return fl


def set_initial_flags(dg):
    for c, b in zip(dg.chains, dg.init_chain):
        if b or hasattr(c, "mask_factor"):
            c.mask_factor = bool(b)
    for d, b in zip(dg.table, dg.init_decay):
        if b or hasattr(d, "mask_factor"):
            d.mask_factor = bool(b)


def run_impl(dg):
    """the library on one stub group: caching at phase 0, then new couplings / line shapes, then the model pdf"""
    import numpy as np
    import tensorflow as tf
    import tf_pwa.amp.preprocess as PP
    from tf_pwa.amp.amp import BaseAmplitudeModel, CachedAmpAmplitudeModel, CachedShapeAmplitudeModel

    out = {}
    set_initial_flags(dg)
    out["flags_before"] = cell_flags(dg)
    ns = types.SimpleNamespace(decay_group=dg, cached_shape_idx=(list(dg.user_idx) if dg.user_idx is not None else None), extra_kwargs={})
    ns.get_cached_shape_idx = lambda: CachedShapeAmplitudeModel.get_cached_shape_idx(ns)
    ns.temp_total_gls_one = lambda: BaseAmplitudeModel.temp_total_gls_one(ns)
    pp = object.__new__(PP.CachedShapePreProcessor)
    pp.decay_struct, pp.kwargs, pp.model, pp.root_config = None, {}, "cached_shape", None
    pp.amp, pp.decay_group, pp.no_angle, pp.no_p4 = ns, dg, False, False
    x = {"p4": {"x": tf.constant(np.arange(dg.n_ev, dtype=np.float64))}, "extra": {}}
    orig = PP.cal_angle_from_momentum
    PP.cal_angle_from_momentum = lambda p4, ds, **kw: {"x": p4["x"]}
    dg.phase = 0
    try:
        with contextlib.redirect_stdout(io.StringIO()):
            data = pp.build_cached(x)
            out["idx"] = [int(i) for i in ns.get_cached_shape_idx()]
    finally:
        PP.cal_angle_from_momentum = orig
    out["flags_after"] = cell_flags(dg)
    out["restored_sel"] = dg.chains_idx == list(range(len(dg.chains))) and all(d.ls_index is None for d in dg.table)
    cache = []
    for k, t in enumerate(data["cached_amp"]):
        a = np.asarray(t) if not isinstance(t, tuple) else np.stack([np.asarray(u) for u in t], axis=1)
        cache.append(a.reshape(dg.n_ev, prodn(dg.chains[k].nls), prodn(dg.hel)))
    out["cache"] = cache
    # evaluation time: every coupling changes, floating chains get their new line shape, maybe a partial selection
    for d, g in zip(dg.table, dg.g1):
        d.g = list(g)
    for c, t in zip(dg.chains, dg.total1):
        c.total_v = t
    dg.phase = 1
    dg.set_used_chains(dg.used1)
    with contextlib.redirect_stdout(io.StringIO()):
        out["pdf"] = np.asarray(CachedShapeAmplitudeModel.pdf(ns, data)).reshape(dg.n_ev, -1)
        plain = dict(data)
        out["sel_after_pdf"] = list(dg.chains_idx)
    # plain evaluation at the same point through the cached_amp model on the bare angular cache
    import tf_pwa.experimental.build_amp as BA
    idx_, c_amp = BA.build_angle_amp_matrix(dg, {"x": data["x"]})
    dg.set_used_chains(dg.used1)
    plain["cached_amp"] = c_amp
    out["pdf_plain"] = np.asarray(CachedAmpAmplitudeModel.pdf(ns, plain)).reshape(dg.n_ev, -1)
    out["flags_end"] = cell_flags(dg)
    return out


def enc_vec(v, kind):
    import numpy as np
    v = np.asarray(v).reshape(-1)
    if v.size == 0:
        return "-"
    if kind == "Z":
        return ",".join(str(int(round(float(np.real(x))))) for x in v)
    return ",".join("%d,%d" % (int(round(float(np.real(x)))), int(round(float(np.imag(x))))) for x in v)


def enc_rows(rows, kind):
    rows = list(rows)
    return ";".join(enc_vec(r, kind) for r in rows) if rows else "_"


def dec_vec(s, kind):
    import numpy as np
    if s == "-":
        return np.zeros((0,), dtype=np.complex128)
    v = [int(t) for t in s.split(",")]
    if kind == "Z":
        return np.array(v, dtype=np.complex128)
    return np.array([complex(v[i], v[i + 1]) for i in range(0, len(v), 2)], dtype=np.complex128)


def same(a, b):
    import numpy as np
    a, b = np.asarray(a, dtype=np.complex128).reshape(-1), np.asarray(b, dtype=np.complex128).reshape(-1)
    return a.shape == b.shape and bool(np.all(a == b))


def model_lines(dg, impl, g0, total0, fused="0"):
    """one `shape` line per event; the selection `idx` is the library's own answer (get_cached_shape_idx is compared separately)"""
    k = dg.kind
    H = prodn(dg.hel)
    lines = []
    ncell = None
    for e in range(dg.n_ev):
        toks = ["C05y", "shape", k, str(H), fused,
                ",".join(str(i) for i in dg.used1) or "-", ",".join(str(i) for i in impl["idx"]) or "-",
                ",".join(str(i) for i in impl["flags_before"]),
                ";".join(",".join(str(j) for j in c.didx) for c in dg.chains),
                enc_rows(g0, k), enc_vec(total0, k), enc_vec([c.rs[0][e] for c in dg.chains], k),
                enc_rows(dg.g1, k), enc_vec(dg.total1, k), enc_vec([c.rs[1][e] for c in dg.chains], k)]
        for c in dg.chains:
            toks += [enc_rows([b[e] for b in c.bf[0]], k), enc_rows([b[e] for b in c.bf[1]], k),
                     enc_rows(c.ang[e].reshape(prodn(c.nls), H), k)]
        lines.append(" ".join(toks))
    return lines


def expected_idx(dg):
    """get_cached_shape_idx by its documentation: the used chains all of whose decays have a fixed line shape"""
    if dg.user_idx is not None:
        return list(dg.user_idx)
    return [k for k, c in enumerate(dg.chains) if c.fixed]


_CACHE = {}


def shape_cases(ctx):
    key = (ctx.seed, ctx.tier)
    if key not in _CACHE:
        rnd = random.Random(ctx.seed * 7919 + 60606)
        n = 16 if ctx.quick else 120
        m = 8 if ctx.quick else 60
        cases = []
        for i in range(n + m):
            dg = gen_group(rnd, i, product_form=i >= n)
            g0 = [list(d.g) for d in dg.table]
            total0 = [c.total_v for c in dg.chains]
            impl = run_impl(dg)
            cases.append((dg, impl, g0, total0, ("product#%d" % (i - n)) if i >= n else ("random#%d" % i)))
        _CACHE[key] = cases
    return _CACHE[key]


def correspond_shape_stub(ctx, res):
    import numpy as np
    cases = shape_cases(ctx)
    lines, spans = [], []
    for dg, impl, g0, total0, tag in cases:
        ls = model_lines(dg, impl, g0, total0)
        spans.append((len(lines), len(lines) + len(ls)))
        lines += ls
    ans = ctx.model.query(lines)
    dis = []
    n_cmp = 0
    n_shared = n_partial = n_float = n_user = 0
    for (dg, impl, g0, total0, tag), (lo, hi) in zip(cases, spans):
        t = tag + " " + str(describe(dg))
        flat = [j for c in dg.chains for j in c.didx]
        n_shared += len(set(flat)) < len(flat)
        n_partial += sorted(dg.used1) != list(range(len(dg.chains))) or dg.used1 != sorted(dg.used1)
        n_float += any(not c.fixed for c in dg.chains)
        n_user += dg.user_idx is not None
        if impl["idx"] != expected_idx(dg):
            dis.append(("get_cached_shape_idx", t, "expected %s" % expected_idx(dg), "impl %s" % impl["idx"]))
        if not impl["restored_sel"]:
            dis.append(("build_cached restores chain / ls selection", t, "", ""))
        if impl["sel_after_pdf"] != list(dg.used1):
            dis.append(("pdf restores chains_idx", t, str(dg.used1), str(impl["sel_after_pdf"])))
        for e, a in enumerate(ans[lo:hi]):
            n_cmp += 1
            w = a.split(" ")
            if w[0] != "ok" or len(w) != 5:
                dis.append(("model answer", t, a[:200], ""))
                continue
            rows = w[1].split("|")
            for ci, c in enumerate(dg.chains):
                got = np.array([dec_vec(r, dg.kind) for r in rows[ci].split(";")]) if rows[ci] != "_" else np.zeros((0,))
                if not same(got, impl["cache"][ci][e]):
                    dis.append(("CachedShapePreProcessor.build_cached cached_amp[%d]" % ci, t, "model %s" % got.tolist(), "impl %s" % impl["cache"][ci][e].tolist()))
            if not same(dec_vec(w[2], dg.kind), impl["pdf"][e]):
                dis.append(("CachedShapeAmplitudeModel.pdf", t, "model %s" % w[2], "impl %s" % impl["pdf"][e].tolist()))
            if not same(dec_vec(w[3], dg.kind), impl["pdf_plain"][e]):
                dis.append(("plain evaluation (CachedAmpAmplitudeModel.pdf)", t, "model %s" % w[3], "impl %s" % impl["pdf_plain"][e].tolist()))
            mflags = [int(i) for i in w[4].split(",")]
            n = min(len(mflags), len(impl["flags_after"]))
            if mflags[:n] != impl["flags_after"][:n] or any(mflags[n:]) or any(impl["flags_after"][n:]):
                dis.append(("temp_total_gls_one flags after build_cached", t, "model %s" % mflags, "impl %s" % impl["flags_after"]))
    res.coverage.update({
        "shape_cases": len(cases), "shape_event_lines": n_cmp, "shape_cases_with_shared_decay_object": int(n_shared),
        "shape_cases_partial_or_reordered_selection": int(n_partial), "shape_cases_with_floating_chain": int(n_float),
        "shape_cases_user_cached_shape_idx": int(n_user), "shape_disagreements": len(dis),
        "shape_rule": "stub decay groups: 2-4 decay objects with 1-3 ls terms, 1-3 chains of 1-3 decay objects drawn from the table (the same object in several chains), helicity shapes (), (2,), (3,), (2,2), 1-3 events, Int / Gaussian-integer data, random mask_factor flags before (some objects without an instance attribute), floating chains, user cached_shape_idx in any order, partial / reordered chains_idx at evaluation; cached tensors, amplitude, plain amplitude and flags compared exactly per event with the Lean model",
    })
    return dis


# ------------------------------------------------------------------------------------------------------
# the mask protocol alone: arbitrary visiting sequences, a body that raises
# ------------------------------------------------------------------------------------------------------

def correspond_mask(ctx, res):
    from tf_pwa.amp.amp import BaseAmplitudeModel
    rnd = random.Random(ctx.seed * 7919 + 70707)
    n = 60 if ctx.quick else 600
    lines, obs = [], []

    class Obj:
        pass

    class Ch(list):
        __hash__ = object.__hash__

    for _ in range(n):
        n_ch = rnd.choice([1, 2, 3, 4])
        n_tab = rnd.choice([1, 2, 3, 4])
        table = [Obj() for _ in range(n_tab)]
        chains = []
        for _c in range(n_ch):
            chains.append(Ch(table[rnd.randrange(n_tab)] for _d in range(rnd.choice([0, 1, 2, 3]))))
        cells = {}
        for k, c in enumerate(chains):
            cells[id(c)] = 2 * k
        for k, d in enumerate(table):
            cells[id(d)] = 2 * k + 1
        ncell = 2 * max(n_ch, n_tab) + 2
        init = [0] * ncell
        for o in chains + table:
            r = rnd.random()
            if r < 0.3:
                o.mask_factor = True
                init[cells[id(o)]] = 1
            elif r < 0.7:
                o.mask_factor = False
        vis = []
        for c in chains:
            vis.append(cells[id(c)])
            vis += [cells[id(d)] for d in c]
        ns = types.SimpleNamespace(decay_group=chains)
        raises = rnd.random() < 0.3

        def flags():
            fl = [0] * ncell
            for o in chains + table:
                fl[cells[id(o)]] = 1 if getattr(o, "mask_factor", False) else 0
            return fl

        during = None
        try:
            with BaseAmplitudeModel.temp_total_gls_one(ns):
                during = flags()
                if raises:
                    raise KeyError("body")
        except KeyError:
            pass
        after = flags()
        lines.append("C05y mask %s %s 0" % (",".join(map(str, init)), ",".join(map(str, vis))))
        obs.append((init, vis, during, after, raises))
    ans = ctx.model.query(lines)
    dis = []
    n_rep = 0
    for (init, vis, during, after, raises), a in zip(obs, ans):
        n_rep += len(set(vis)) < len(vis)
        w = a.split(" ")
        if w[0] != "ok":
            dis.append(("mask protocol", str((init, vis)), a, ""))
            continue
        md = [int(i) for i in w[1].split(",")][:len(init)]
        ma = [int(i) for i in w[2].split(",")][:len(init)]
        if md != during or ma != after:
            dis.append(("temp_total_gls_one", "init %s visiting %s body raises %s" % (init, vis, raises), "model during %s after %s" % (md, ma), "impl during %s after %s" % (during, after)))
    res.coverage.update({"mask_protocol_histories": n, "mask_protocol_histories_with_repeated_object": int(n_rep)})
    return dis, obs


# ------------------------------------------------------------------------------------------------------
# the id()-switch of AbsPDF.__call__
# ------------------------------------------------------------------------------------------------------

def run_pdf_history(rnd, use_tf, nic, n_ops):
    import numpy as np
    import tensorflow as tf
    from tf_pwa.amp.amp import AbsPDF
    from tf_pwa.config import get_config

    class YPdf(AbsPDF):
        def init_params(self, name=""):
            get_config("vm").add_real_var("c05y_p", value=2.0)
            self.avail = True

        def cached_available(self):  # BaseAmplitudeModel: `not decay_group.not_full`
            return self.avail

        def pdf(self, data):
            return self.vm.variables["c05y_p"] * data["x"]

    amp = YPdf(use_tf_function=use_tf, no_id_cached=nic)
    ran = {"cached": False}
    inner = amp.cached_fun

    def spy(data):
        ran["cached"] = True
        return inner(data)

    amp.cached_fun = spy
    objs = []
    ops, outs = [], []
    p = 2
    for _ in range(n_ops):
        r = rnd.random()
        if r < 0.62 or not ops:
            if objs and rnd.random() < 0.55:
                k = rnd.randrange(len(objs))
            else:
                objs.append({"x": tf.constant(np.array([float(rnd.randint(-4, 4))]))})
                k = len(objs) - 1
            d = objs[k]
            x = int(float(np.asarray(d["x"])[0]))
            ran["cached"] = False
            v = float(np.asarray(amp(d))[0])
            ops.append("c:%d:%d" % (k, x))
            outs.append((v, ran["cached"], float(p * x)))
        elif r < 0.85:
            p = rnd.randint(-3, 3)
            amp.set_params({"c05y_p": float(p)})
            ops.append("p:%d" % p)
        else:
            b = rnd.random() < 0.5
            amp.avail = b
            ops.append("a:%d" % (1 if b else 0))
    ids = {id(o): k for k, o in enumerate(objs)}
    fdata = [ids.get(i, -1) for i in amp.f_data]
    return ops, outs, fdata


def correspond_pdf(ctx, res):
    rnd = random.Random(ctx.seed * 7919 + 80808)
    n = 14 if ctx.quick else 80
    n_tf = 3 if ctx.quick else 12
    lines, obs = [], []
    for i in range(n):
        use_tf = i < n_tf
        nic = (i % 3 == 2)
        ops, outs, fdata = run_pdf_history(rnd, use_tf, nic, rnd.randint(5, 12))
        lines.append("C05y pdf %d 2 %s" % (1 if nic else 0, " ".join(ops)))
        obs.append((use_tf, nic, ops, outs, fdata))
    ans = ctx.model.query(lines)
    dis = []
    n_calls = n_cached = 0
    for (use_tf, nic, ops, outs, fdata), a in zip(obs, ans):
        w = a.split(" ")
        t = "use_tf_function=%s no_id_cached=%s ops=%s" % (use_tf, nic, ops)
        if w[0] != "ok":
            dis.append(("AbsPDF.__call__", t, a, ""))
            continue
        mo = [] if w[1] == "-" else [(int(s.split(":")[0]), s.split(":")[1] == "1") for s in w[1].split(",")]
        mf = [] if w[2] == "-" else [int(s) for s in w[2].split(",")]
        n_calls += len(outs)
        n_cached += sum(1 for o in outs if o[1])
        if [(int(o[0]), o[1]) for o in outs] != mo or any(o[0] != int(o[0]) for o in outs):
            dis.append(("AbsPDF.__call__ values / implementation chosen", t, "model %s" % mo, "impl %s" % [(o[0], o[1]) for o in outs]))
        if mf != fdata:
            dis.append(("AbsPDF.f_data", t, "model %s" % mf, "impl %s" % fdata))
    res.coverage.update({"pdf_switch_histories": n, "pdf_switch_calls": n_calls, "pdf_switch_calls_through_cached_fun": n_cached, "pdf_switch_histories_with_real_WrapFun": n_tf})
    return dis, obs


# ------------------------------------------------------------------------------------------------------
# driver hooks
# ------------------------------------------------------------------------------------------------------

_MASK_OBS = {}
_PDF_OBS = {}


def correspond_shape(ctx, res):
    dis = correspond_shape_stub(ctx, res)
    d2, obs = correspond_mask(ctx, res)
    _MASK_OBS[(ctx.seed, ctx.tier)] = obs
    d3, pobs = correspond_pdf(ctx, res)
    _PDF_OBS[(ctx.seed, ctx.tier)] = pobs
    dis = dis + d2 + d3
    for d in dis[1:6]:
        C.log("[C05] shape disagreement: %s | %s | %s | %s" % (d[0], d[1][:300], str(d[2])[:300], str(d[3])[:300]))
    if dis:
        d = dis[0]
        res.broke("correspondence cached_shape / mask / id-switch: %s" % d[0], {"case": d[1], "model": str(d[2])[:800], "impl": str(d[3])[:800], "n": len(dis), "all_sites": sorted({x[0] for x in dis})})


def direct_amp(dg):
    """Σ_{c used} total·rs·Π_decays (Σ_ls g_ls·bf_ls·part_ls) · helicity vector at evaluation time (numpy, no model)"""
    import numpy as np
    H = prodn(dg.hel)
    A = np.zeros((dg.n_ev, H), dtype=np.complex128)
    for ci in dg.used1:
        c = dg.chains[ci]
        for e in range(dg.n_ev):
            f = dg.total1[ci] * c.rs[1][e]
            for pos, j in enumerate(c.didx):
                g = dg.g1[j]
                f = f * sum(g[l] * c.bf[1][pos][e, l] * c.parts[pos][e, l] for l in range(c.nls[pos]))
            A[e] += f * c.hv[e].reshape(-1)
    return A


REAL_CASES = ("cas4", "cas4_float")


def real_configs():
    import copy
    import c05 as CM
    z = CM.zoo_configs()
    out = {"cas4": z["cas4"]}
    # the cascade again (fresh particle names: tf_pwa caches by name) with ONE floating resonance: its chain is evaluated
    # as cached_amp (part A), the other chain from the cached shape (part B); the shared top decay sits in both
    f = copy.deepcopy(z["cas4"])
    ren = {"Qa": "Ua", "Qx": "Ux", "Qbc": "Ubc", "Qbd": "Ubd", "Fb": "Gb", "Fc": "Gc", "Fd": "Gd", "Fe": "Ge"}

    def rn(o):
        if isinstance(o, dict):
            return {ren.get(k, k): rn(v) for k, v in o.items()}
        if isinstance(o, list):
            return [rn(v) for v in o]
        return ren.get(o, o) if isinstance(o, str) else o

    f = rn(f)
    f["particle"]["Ubd"]["float"] = "mg"
    out["cas4_float"] = f
    return out


def real_shape_case(name, seed):
    """the real CachedShapeAmplitudeModel: cache built at parameters A, evaluated at parameters B (all couplings and the
    floating mass / width changed), against the default model at B on the same events; returns (deviation, detail)"""
    import numpy as np
    import c05 as CM
    cfg = real_configs()[name]
    rng = np.random.default_rng(seed * 977 + 31)
    with CM.quiet_stdout():
        p4 = CM.gen_p4(cfg, 8, seed + 77)
        c_ref = CM.build_config(cfg, {})
        c_sh = CM.build_config(cfg, {"amp_model": "cached_shape", "preprocessor": "cached_shape"})
        a_ref, a_sh = c_ref.get_amplitude(), c_sh.get_amplitude()
        names = list(a_ref.vm.trainable_vars)

        base = {k: float(v) for k, v in a_ref.get_params().items()}  # fixed parameters carry random initial values: share them

        def draw():
            out = dict(base)
            for k in names:
                if k.endswith("_mass") or k.endswith("_width"):
                    out[k] = base[k] * float(rng.uniform(0.97, 1.03))
                else:
                    out[k] = float(rng.uniform(-1.5, 1.5))
            return out

        A, B = draw(), draw()
        a_ref.set_params(A)
        a_sh.set_params(A)
        d_sh = c_sh.data.cal_angle(p4)           # the cache is built here, at A
        flags = [(str(o), bool(getattr(o, "mask_factor", False))) for ch in a_sh.decay_group for o in [ch, *ch]]
        idx = list(a_sh.get_cached_shape_idx())
        n_obj = len({id(o) for ch in a_sh.decay_group for o in ch})
        n_vis = sum(len(list(ch)) for ch in a_sh.decay_group)
        a_ref.set_params(B)
        a_sh.set_params(B)
        d_ref = c_ref.data.cal_angle(p4)
        v_ref = np.asarray(a_ref(d_ref))
        v_sh = [np.asarray(a_sh(d_sh)) for _ in range(2)]
    dev = max(CM.rel_dev(v, v_ref) for v in v_sh)
    return dev, {"cached_shape_idx": idx, "left_masked": [n for n, b in flags if b], "decay_objects": n_obj, "decay_visits": n_vis,
                 "floating": [k for k in names if k.endswith("_mass") or k.endswith("_width")], "ref": v_ref[:3].tolist(), "got": v_sh[-1][:3].tolist()}


def search_shape(ctx, res):
    import numpy as np
    seen = set()

    def bad(key, what, payload):
        if key in seen:
            return
        seen.add(key)
        res.fail(key, what, dict(payload, kind="shape", seed=ctx.seed, tier=ctx.tier))

    # (i) stub groups in product form: library vs the direct multilinear expression; flags before = after
    n = 0
    cases = list(shape_cases(ctx))
    if ctx.suspect:  # a proof or a correspondence broke: more product-form groups (partial selections, user idx, sharing)
        rnd = random.Random(ctx.seed * 104729 + 90909)
        for i in range(80 if ctx.quick else 300):
            dg = gen_group(rnd, i, product_form=True)
            g0 = [list(d.g) for d in dg.table]
            total0 = [c.total_v for c in dg.chains]
            try:
                cases.append((dg, run_impl(dg), g0, total0, "product#s%d" % i))
            except C.InfraError:
                raise
            except Exception as e:
                bad("cached_shape:raises", "cached_shape on the stub group %s raises %s: %s" % (describe(dg), type(e).__name__, str(e)[:300]), {"case": "product#s%d" % i, "site": "raises"})
    for dg, impl, g0, total0, tag in cases:
        if impl["flags_after"] != impl["flags_before"] or impl["flags_end"] != impl["flags_before"]:
            bad("cached_shape:mask_factor-not-restored", "CachedShapePreProcessor.build_cached on %s leaves mask_factor flags %s, before %s (cells: chain c -> 2c, decay object d -> 2d+1)" % (
                describe(dg), impl["flags_after"], impl["flags_before"]), {"case": tag, "site": "flags"})
        if not tag.startswith("product#"):
            continue
        if any(impl["flags_before"]):
            continue  # objects masked by the caller stay masked: plain evaluation is masked too (compared in correspond)
        ok_idx = all(dg.chains[k].fixed for k in impl["idx"])
        if not ok_idx:
            continue
        n += 1
        A = direct_amp(dg)
        for site in ("pdf", "pdf_plain"):
            got = impl[site]
            if got.shape != A.shape or not np.all(np.abs(got - A) <= 1e-12 * (1 + np.abs(A))):
                bad("cached_shape:%s" % {"pdf": "CachedShapeAmplitudeModel.pdf", "pdf_plain": "plain"}[site],
                    "%s differs from Σ_chains total·rs·Π_decays Σ_ls g_ls·bf_ls·part_ls on %s (couplings changed after caching): library %s, direct %s" % (
                        site, describe(dg), got.tolist(), A.tolist()), {"case": tag, "site": site})
    # (ii) the protocol on its own
    for init, vis, during, after, raises in _MASK_OBS.get((ctx.seed, ctx.tier), []):
        if after != init:
            bad("temp_total_gls_one:not-restored", "temp_total_gls_one over the visiting sequence %s (cells; repeated = shared object) with flags %s before leaves %s (body raises: %s)" % (vis, init, after, raises),
                {"site": "mask", "init": init, "vis": vis})
        if during is not None and any(during[i] != 1 for i in vis):
            bad("temp_total_gls_one:not-masked", "inside temp_total_gls_one a visited object is not masked: visiting %s, flags %s" % (vis, during), {"site": "mask", "init": init, "vis": vis})
    # (iii) id()-switch: every call returns p·x
    for use_tf, nic, ops, outs, fdata in _PDF_OBS.get((ctx.seed, ctx.tier), []):
        for v, cached, want in outs:
            if v != want:
                bad("AbsPDF.__call__:value-depends-on-history", "AbsPDF.__call__ (use_tf_function=%s, no_id_cached=%s) on the history %s returned %s where pdf(params, data) = %s (through cached_fun: %s)" % (
                    use_tf, nic, ops, v, want, cached), {"site": "pdf", "ops": ops})
    # (iv) the real model on the cascade
    worst = {}
    detail_all = {}
    for name in REAL_CASES:
        try:
            dev, detail = real_shape_case(name, ctx.seed)
        except C.InfraError:
            raise
        except Exception as e:
            bad("strategy:cached_shape:raises", "cached_shape (cache at A, evaluation at B) on %s raises %s: %s" % (name, type(e).__name__, str(e)[:300]), {"site": "real", "config": name})
            continue
        worst[name] = float("%.3g" % dev)
        detail_all[name] = {k: detail[k] for k in ("cached_shape_idx", "decay_objects", "decay_visits", "floating")}
        if detail["left_masked"]:
            bad("cached_shape:mask_factor-not-restored", "after CachedShapePreProcessor built its cache on %s these objects keep mask_factor=True: %s" % (name, detail["left_masked"]), {"site": "real", "config": name})
        if not dev <= 1e-10:
            bad("strategy:cached_shape", "cached_shape on %s: cache built at parameters A, evaluated at B (couplings%s changed): density deviates from the default model at B by %.3g (tolerance 1e-10): %s" % (
                name, " and floating mass/width" if detail["floating"] else "", dev, detail), {"site": "real", "config": name})
    res.coverage.update({"shape_search_product_cases": n, "shape_real_model_worst_relative_deviation": worst, "shape_real_model_cases": detail_all})


def replay_shape(ctx, r, key=None):
    ctx.seed = int(r.get("seed", ctx.seed))
    if r.get("tier") in ("quick", "thorough"):
        ctx.tier, ctx.quick = r["tier"], r["tier"] == "quick"
    ctx.suspect = True  # the harder search is a superset of the plain one
    res = C.Result()
    if r.get("site") in ("mask", "pdf", "flags", "pdf_plain") or r.get("site") is None or str(r.get("case", "")).startswith(("product#", "random#")):
        correspond_shape(ctx, C.Result())
    search_shape(ctx, res)
    hit = [f for f in res.failures if key is None or f.key == key]
    for f in hit[:3]:
        print("still failing:", f.what)
    print("REPLAY: property C05 key %s %s" % (key, "still violated" if hit else "not reproduced on this tree"))
    return 1 if hit else 0
