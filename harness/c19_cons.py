"""C19 (constraints part): card + `constrains` section -> trainable / fixed / bound / tie / gaussian-constraint sets.

Lean model `TfPwaV.Model.ConfigC` (driver prefix C19k) against `ConfigLoader(dict).get_amplitude()`; theorems in
`TfPwaV.Props.C19e` / `C19f`.  Used by harness/c19.py (correspond_cons / search_cons)."""
import contextlib
import copy
import io
import json
import random

NUM_TOL = 1e-12


# --------------------------------------------------------------------------------------------------------------
# grammar: constraints on top of a generated card (needs the parameter names / chains of the plain card)
# --------------------------------------------------------------------------------------------------------------

def _merged_props(c19, cfg, share):
    top, fin, part = c19.merged_particle(cfg, share)
    return {k: v for k, v in part.items() if isinstance(v, dict)}


def resonances_of(chains):
    """DecayGroup.resonances from the chain strings: inner particles, sorted per chain, first appearance"""
    out = []
    for s in chains:
        decs = [(d.split("->")[0], d.split("->")[1].split("+")) for d in s[1:-1].split(", ")]
        cores = [c for c, _ in decs]
        outs = [x for _, os_ in decs for x in os_]
        for r in sorted(c for c in cores if c in outs):
            if r not in out:
                out.append(r)
    return out


def add_constraints(c19, rnd, cfg, share, base):
    """returns a copy of cfg with particle-level constraint keys and a `constrains` section"""
    cfg = copy.deepcopy(cfg)
    params, chains = list(base["params"]), list(base["chains"])
    res = resonances_of(chains)
    merged = _merged_props(c19, cfg, share)
    part = cfg["particle"]
    used = set()       # parameter names already under a tie / special treatment
    for r in res:
        if r not in part or not isinstance(part[r], dict):
            if rnd.random() < 0.5 or r not in merged:
                continue
            part[r] = {}                       # the dict lives in the include only: add a local one
        d = part[r]
        canon = c19.canon_dict(merged.get(r, {}))
        has_m = canon.get("mass") is not None
        has_w = canon.get("width") is not None
        m = canon.get("mass")
        for k in ("float", "m_min", "m_max"):
            d.pop(k, None)                     # rewritten below
        kv = []
        if has_m and rnd.random() < 0.4:
            lo, hi = round(m - 0.3, 3), round(m + 0.3, 3)
            style = rnd.random()
            if style < 0.35:
                kv += [(rnd.choice(["m_min", "mass_min"]), lo), (rnd.choice(["m_max", "mass_max"]), hi)]
            elif style < 0.55:
                kv += [(rnd.choice(["m_min", "mass_min"]), lo)]
            elif style < 0.7:
                kv += [(rnd.choice(["m_max", "mass_max"]), hi)]
            else:
                kv += [(rnd.choice(["mass_range", "m0_range"]), [lo, hi])]
        if has_w and rnd.random() < 0.3:
            kv += [(rnd.choice(["g_max", "width_max"]), 0.5)]
            if rnd.random() < 0.5:
                kv += [(rnd.choice(["g_min", "width_min"]), 0.001)]
        if rnd.random() < 0.25:
            kv += [(rnd.choice(["mass_free", "m0_free"]), rnd.random() < 0.7)]
        if has_w and rnd.random() < 0.2:
            kv += [(rnd.choice(["width_free", "g0_free"]), rnd.random() < 0.7)]
        if rnd.random() < 0.15:               # gaussian constraint through sigma + constr (needs a central value)
            kv += [("mass_sigma", 0.02), ("mass_constr", rnd.random() < 0.85)]
        if rnd.random() < 0.15:               # {m: sigma}: the central value is the CURRENT mass -> only with a given mass
            g = {}
            if has_m and rnd.random() < 0.7:
                g["m"] = 0.01
            if has_w and rnd.random() < 0.5 or (not g and not has_m and rnd.random() < 0.3):
                g["g"] = 0.005                 # without a width: `vm.get` raises
            if g:
                kv += [("gauss_constr", g)]
        if rnd.random() < 0.45:
            fl = rnd.choice(["m", "g", "mg", "gm", ["m"], ["m", "g"], ["g"]]) if (has_w or rnd.random() < 0.06) else rnd.choice(["m", ["m"]])
            kv += [("float", fl)]
        rnd.shuffle(kv)
        for k, v in kv:
            d[k] = v
    cons = {}
    dec = {}
    r = rnd.random()
    if r < 0.7:
        dec["fix_chain_idx"] = rnd.randrange(len(chains)) if rnd.random() < 0.93 else len(chains)
    if rnd.random() < 0.8:
        dec["fix_chain_val"] = rnd.choice([1.0, 1.5, 2, 0.25])
    if dec or rnd.random() < 0.5:
        cons["decay"] = dec
    free_like = [p for p in params if not p.endswith("_g_ls_0r") and not p.endswith("_g_ls_0i")]
    coupl = [p for p in params if "_g_ls_" in p and not p.endswith("_0r") and not p.endswith("_0i")]

    def pick(pool, n):
        pool = [p for p in pool if p not in used]
        out = rnd.sample(pool, min(n, len(pool)))
        used.update(out)
        return out

    if res and len(res) >= 2 and rnd.random() < 0.2:
        pair = rnd.sample(res, 2)
        cons.setdefault("particle", {})["equal"] = {"mass": [pair]}
        used.update(x + "_mass" for x in pair)
    if rnd.random() < 0.5:
        names = pick(coupl + [p for p in params if p.endswith("_mass") or p.endswith("_width")], rnd.randint(1, 2))
        fx = {n: rnd.choice([0.3, 1.25, -0.5, 2]) for n in names}
        if rnd.random() < 0.08:
            fx["no_such_par_0r"] = 1.0
        if fx:
            cons["fix_var"] = fx
    if rnd.random() < 0.4:
        names = pick([p for p in params if p.endswith("_mass") or p.endswith("_width") or p.endswith("_total_0r")], rnd.randint(1, 2))
        if rnd.random() < 0.08:
            names.append("no_such_par_1i")
        if names:
            cons["free_var"] = names
    if rnd.random() < 0.4:
        names = pick(free_like, rnd.randint(1, 2))
        vr = {n: rnd.choice([[-1, 1], [0, 3.5], [None, 2.0], [0.5, None]]) for n in names}
        if rnd.random() < 0.15:
            vr["no_such_par_2"] = [0, 1]
        if vr:
            cons["var_range"] = vr
    if rnd.random() < 0.35:
        groups = []
        for _ in range(rnd.randint(1, 2)):
            g = pick(free_like, rnd.randint(2, 3))
            if len(g) >= 2:
                if rnd.random() < 0.12:
                    g.insert(rnd.randrange(len(g) + 1), "no_such_par_3")
                groups.append(g)
        if groups:
            cons["var_equal"] = groups
    if rnd.random() < 0.3:
        names = pick([p for p in params if p.endswith("_mass") or p.endswith("_width")] + coupl, rnd.randint(1, 2))
        gc = {n: [rnd.choice([1.0, 2.5]), rnd.choice([0.1, 0.02])] for n in names}
        if rnd.random() < 0.15:
            gc["no_such_par_4"] = [1, 2]
        if gc:
            cons["gauss_constr"] = gc
    ks = list(cons.items())
    rnd.shuffle(ks)
    cfg["constrains"] = dict(ks)
    return cfg


# --------------------------------------------------------------------------------------------------------------
# encoding for the Lean driver
# --------------------------------------------------------------------------------------------------------------

def num(x):
    if x is None:
        return "None"
    if isinstance(x, bool):
        return str(x)
    return repr(float(x))


def _norm_pdict(d):
    out = {}
    for k, v in d.items():
        if k == "float" and isinstance(v, (list, tuple)):
            v = "".join(str(i) for i in v)
        elif k == "gauss_constr" and isinstance(v, dict):
            v = ";".join("%s=%s" % (a, num(b)) for a, b in v.items())
        elif isinstance(v, (list, tuple)) and k.endswith("_range"):
            v = "[" + ",".join(num(i) for i in v) + "]"
        out[k] = v
    return out


def normalised(cfg, share):
    cfg = copy.deepcopy(cfg)
    share = copy.deepcopy(share)

    def walk(sec):
        for k, v in list(sec.items()):
            if k in ("$top", "$finals") and isinstance(v, dict):
                sec[k] = {a: _norm_pdict(b) for a, b in v.items()}
            elif isinstance(v, dict):
                sec[k] = _norm_pdict(v)
    walk(cfg["particle"])
    for s in share.values():
        walk(s)
    return cfg, share


def encode_constr(cons):
    cons = cons or {}
    dec = cons.get("decay") or {}
    toks = ["FI", str(int(dec.get("fix_chain_idx", 0))), "FV", num(dec["fix_chain_val"]) if "fix_chain_val" in dec else "?"]
    fx = cons.get("fix_var") or {}
    toks += ["FX", str(len(fx))]
    for k, v in fx.items():
        toks += [k, num(v)]
    fr = cons.get("free_var") or []
    toks += ["FR", str(len(fr))] + list(fr)
    vr = cons.get("var_range") or {}
    toks += ["VR", str(len(vr))]
    for k, v in vr.items():
        toks += [k, num(v[0]), num(v[1])]
    ve = cons.get("var_equal") or []
    toks += ["VE", str(len(ve))]
    for g in ve:
        toks += [str(len(g))] + list(g)
    gc = cons.get("gauss_constr") or {}
    toks += ["GC", str(len(gc))]
    for k, v in gc.items():
        toks += [k, num(v[0]), num(v[1])]
    eq = ((cons.get("particle") or {}).get("equal") or {}).get("mass") or []
    toks += ["EQ", str(len(eq))]
    for g in eq:
        toks += [str(len(g))] + list(g)
    assert all(t and " " not in t for t in toks), toks
    return " ".join(toks)


def encode(c19, cfg, share):
    ncfg, nshare = normalised(cfg, share)
    return "C19k cons %s @@K %s" % (c19.encode_card(ncfg, nshare), encode_constr(cfg.get("constrains")))


# --------------------------------------------------------------------------------------------------------------
# observation of the implementation
# --------------------------------------------------------------------------------------------------------------

def fnum(x):
    return None if x is None else float(x)


def observe(cfg, share, with_fcn=False):
    from tf_pwa.config_loader import ConfigLoader
    out = {}
    try:
        with contextlib.redirect_stdout(io.StringIO()):
            c = ConfigLoader(copy.deepcopy(cfg), share_dict=copy.deepcopy(share))
            c.get_amplitude()
            params = c.get_params()
            out["vars"] = list(params.keys())
            out["train"] = list(c.vm.trainable_vars)
            out["bound"] = {k: [fnum(v[0]), fnum(v[1])] for k, v in c.bound_dic.items()}
            out["same"] = [list(g) for g in c.vm.same_list]
            out["gauss"] = {k: [fnum(v[0]), fnum(v[1])] for k, v in c.gauss_constr_dic.items()}
            out["vals"] = {k: float(v) for k, v in params.items()}
            if with_fcn:
                phsp = c.generate_phsp(16)
                fcn = c.get_fcn(all_data=([phsp], [phsp], None, None))
                out["fcn_gauss"] = {k: [fnum(v[0]), fnum(v[1])] for k, v in fcn.gauss_constr.constraint.items()}
    except RecursionError:
        out = {"raise": "RecursionError"}
    except Exception as e:
        out = {"raise": type(e).__name__, "msg": str(e)[:200]}
    return out


def parse_model(line):
    if line.startswith("raise:") or line in ("parse-error", "bad-op"):
        return {"raise": line.split(":", 1)[-1]}
    secs = line.split(" # ")
    secs += [""] * (6 - len(secs))

    def f(x):
        return None if x == "None" else ("?" if x == "?" else float(x))

    def d3(s):
        out = {}
        for it in s.split():
            k, v = it.rsplit("=", 1)
            a, b = v.split(",")
            out[k] = [f(a), f(b)]
        return out
    return {"vars": secs[0].split(), "train": secs[1].split(), "bound": d3(secs[2]),
            "same": [g.split(",") for g in secs[3].split()], "gauss": d3(secs[4]),
            "vals": {it.rsplit("=", 1)[0]: f(it.rsplit("=", 1)[1]) for it in secs[5].split()}}


def close(a, b):
    if a is None or b is None:
        return a is None and b is None
    return abs(a - b) <= NUM_TOL * max(1.0, abs(a), abs(b))


def diff(model, impl):
    """first difference between the model's answer and the observation (None if they agree)"""
    if "raise" in model or "raise" in impl:
        if model.get("raise") == impl.get("raise"):
            return None
        return "outcome: model %s, implementation %s %s" % (model.get("raise", "ok"), impl.get("raise", "ok"), impl.get("msg", ""))
    for f in ("vars", "train", "same"):
        if model[f] != impl[f]:
            return "%s: model %s, implementation %s" % (f, model[f], impl[f])
    for f in ("bound", "gauss"):
        if set(model[f]) != set(impl[f]):
            return "%s keys: model %s, implementation %s" % (f, sorted(model[f]), sorted(impl[f]))
        for k, (a, b) in model[f].items():
            x, y = impl[f][k]
            if not ((a == "?" or close(a, x)) and (b == "?" or close(b, y))):
                return "%s[%s]: model %s, implementation %s" % (f, k, (a, b), (x, y))
    for k, v in model["vals"].items():
        if v != "?" and not close(v, impl["vals"].get(k)):
            return "value of %s: model %s, implementation %s" % (k, v, impl["vals"].get(k))
    return None


def public(o, known_vals=None):
    """what must be reproducible between loads (random initial values excluded)"""
    if "raise" in o:
        return {"raise": o["raise"]}
    out = {k: o[k] for k in ("vars", "train", "bound", "same")}
    out["gauss"] = o["gauss"]
    out["fixed_vals"] = {k: v for k, v in o["vals"].items() if k not in o["train"] and (known_vals is None or k in known_vals)}
    return out


# --------------------------------------------------------------------------------------------------------------
# documented spellings
# --------------------------------------------------------------------------------------------------------------

RESPELL = {"m_min": "mass_min", "mass_min": "m_min", "m_max": "mass_max", "mass_max": "m_max", "g_min": "width_min",
           "width_min": "g_min", "g_max": "width_max", "width_max": "g_max", "mass_range": "m0_range", "m0_range": "mass_range",
           "mass_free": "m0_free", "m0_free": "mass_free", "width_free": "g0_free", "g0_free": "width_free"}


def respelled(rnd, cfg, share):
    """aliases of the constraint keys exchanged (same position in the dict), `float` in another spelling, the key
    order of fix_var / var_range / gauss_constr permuted"""
    cfg = copy.deepcopy(cfg)
    for k, v in list(cfg["particle"].items()):
        if isinstance(v, dict) and not k.startswith("$"):
            new = {}
            for a, b in v.items():
                if a in RESPELL and rnd.random() < 0.7 and RESPELL[a] not in v:
                    a = RESPELL[a]
                elif a == "float":
                    flags = "".join(b) if isinstance(b, (list, tuple)) else b
                    forms = [flags, list(flags), flags[::-1]]
                    b = rnd.choice(forms)
                new[a] = b
            cfg["particle"][k] = new
    cons = cfg.get("constrains") or {}
    for sec in ("fix_var", "var_range", "gauss_constr"):
        if isinstance(cons.get(sec), dict):
            ks = list(cons[sec].items())
            rnd.shuffle(ks)
            cons[sec] = dict(ks)
    ks = list(cons.items())
    rnd.shuffle(ks)
    cfg["constrains"] = dict(ks)
    return cfg


# --------------------------------------------------------------------------------------------------------------
# oracles on the implementation (independent of the Lean model)
# --------------------------------------------------------------------------------------------------------------

def reference_oracle(cfg, base, o):
    """fix_total / first-coupling convention read off the observation; returns a description of a violation or None"""
    if "raise" in o:
        return None
    cons = cfg.get("constrains") or {}
    touched = set(cons.get("fix_var") or {}) | set(cons.get("free_var") or [])
    for g in cons.get("var_equal") or []:
        touched |= set(g)
    chains = base["chains"]
    idx = int((cons.get("decay") or {}).get("fix_chain_idx", 0))
    totals = [p for p in o["vars"] if p.endswith("_total_0r") or p.endswith("_total_0i")]
    if touched & set(totals):
        return None
    fixed_tot = [p for p in totals if p not in o["train"]]
    heads = sorted({p[:-len("_total_0r")] for p in totals})
    if len(heads) != len(chains):
        return "number of chain couplings %d != number of chains %d" % (len(heads), len(chains))
    want = totals[2 * idx: 2 * idx + 2]
    if fixed_tot != want:
        return "fixed chain couplings %s, fix_chain_idx=%d asks for exactly %s" % (fixed_tot, idx, want)
    val = (cons.get("decay") or {}).get("fix_chain_val")
    if val is not None and not (close(o["vals"][want[0]], float(val)) and close(o["vals"][want[1]], 0.0)):
        return "reference chain coupling is %s, fix_chain_val=%s" % ([o["vals"][w] for w in want], val)
    for p in o["vars"]:
        if "_g_ls_" in p and p not in touched:
            first = p.endswith("_g_ls_0r") or p.endswith("_g_ls_0i")
            if first != (p not in o["train"]):
                return "coupling %s is %s (convention: component 0 of every decay fixed to 1, all others free)" % (p, "free" if first else "fixed")
            if first and not close(o["vals"][p], 1.0 if p.endswith("r") else 0.0):
                return "reference coupling %s = %s, not 1+0i" % (p, o["vals"][p])
    return None


def existence_oracle(cfg, base, o):
    """fix_var / free_var naming a parameter that does not exist must be rejected (KeyError)"""
    cons = cfg.get("constrains") or {}
    names = list(cons.get("fix_var") or {}) + list(cons.get("free_var") or [])
    missing = [n for n in names if n not in base["params"]]
    if missing and "raise" not in o:
        return "fix_var/free_var name(s) %s do not exist, yet the card loads" % missing
    return None


def bounds_oracle(c19, cfg, share, base, o):
    """bound_dic entries of masses / widths re-derived from the card text (own reading of the documented keys)"""
    if "raise" in o:
        return None
    merged = _merged_props(c19, cfg, share)
    cons = cfg.get("constrains") or {}
    explicit = set(cons.get("var_range") or {})
    for r in resonances_of(base["chains"]):
        d = merged.get(r)
        if d is None:
            continue
        canon = {}
        for k, v in d.items():
            for a, b in (("m0", "mass"), ("g0", "width"), ("m_", "mass_"), ("g_", "width_")):
                if k.startswith(a):
                    k = b + k[len(a):]
                    break
            canon[k] = v
        fl = d.get("float") or ""
        fl = "".join(fl) if isinstance(fl, (list, tuple)) else str(fl)
        for what, flag in (("mass", "m"), ("width", "g")):
            name = "%s_%s" % (r, what)
            if name in explicit or name not in o["vars"]:
                continue
            lo, hi = canon.get(what + "_min"), canon.get(what + "_max")
            if flag in fl:
                want = [fnum(lo), fnum(hi)]
            elif canon.get(what + "_range") is not None:
                want = [fnum(x) for x in canon[what + "_range"]]
            elif lo is not None or hi is not None:
                want = [fnum(lo), fnum(hi)]
            else:
                want = None
            got = o["bound"].get(name)
            if (want is None) != (got is None) or (want is not None and not (close(want[0], got[0]) and close(want[1], got[1]))):
                return "bound of %s is %s, the card (%s) asks for %s" % (name, got, {k: v for k, v in d.items() if k not in ("J", "P", "Par")}, want)
            free_key = canon.get(what + "_free")
            if flag not in fl and free_key is not None and name not in set(cons.get("fix_var") or {}) | set(cons.get("free_var") or []) \
                    and not any(name in g for g in (cons.get("var_equal") or [])) and not (cons.get("particle") or {}).get("equal"):
                if bool(free_key) != (name in o["train"]):
                    return "%s is %s, the card says %s_free: %s" % (name, "free" if name in o["train"] else "fixed", what, free_key)
    return None


def unknown_name_demo(c19):
    """var_range / var_equal / gauss_constr do not look the name up: reported in the evidence, not a failure"""
    cfg = c19.lambda_card(("1/2", 1))
    out = {}
    for sec, val in (("var_range", {"no_such": [0, 1]}), ("var_equal", [["no_such", "R_mass"]]), ("gauss_constr", {"no_such": [1, 2]}),
                     ("fix_var", {"no_such": 1.0}), ("free_var", ["no_such"])):
        c = copy.deepcopy(cfg)
        c["constrains"] = {sec: val}
        o = observe(c, {})
        out[sec] = o.get("raise", "accepted")
    return out
