"""C01 — correspondence of the Lean amplitude-tensor model (lean/templates/Amp.lean.in, Float instance) with
`tf_pwa.amp.core`: per event and PER HELICITY COMPONENT the real `DecayChain.get_amp` tensor of every chain, the real
`DecayGroup.get_amp` tensor (sum over chains) and the real `DecayGroup.sum_amp` density are compared with the model.

Inputs of the model are what `amp/core.py` itself reads: masses, |q|2, helicity angles `ang` of every vertex and
`aligned_angle` of every final particle from the data dictionary produced by the real `cal_angle`, and the parameter
values (`get_g_ls()`, `get_amp_total()`, masses, widths, `bw_l`) of the real model objects.  The bookkeeping that maps
chains to data-dictionary entries (`get_chains_map`, `rename_data_dict`, `standard_topology`) is the library's own.
"""
import numpy as np

import common as C
import c01

TOL = 1e-9
AMP_STRUCTURES = ("s3_half_3chains", "s3_weak", "s4_seq_branch", "s4_weak_inner")


def extra_zoo():
    """Structures added for the tensor comparison: spin-2 final state, spin-3/2 parent, mixed line shapes."""
    _p = c01._p
    Z = []
    # spin-3/2 parent -> 1/2 1 0 with a spin-2 and a spin-3/2 resonance of different topology, one vertex parity violating
    Z.append({"name": "amp_s3_threehalf", "pc": False, "cfg": {
        "data": {"dat_order": ["Bm", "Cm", "Dm"]},
        "decay": {"Am": [["Rcdm", "Bm", {"p_break": True}], ["Rbdm", "Cm"]], "Rcdm": ["Cm", "Dm"], "Rbdm": ["Bm", "Dm"]},
        "particle": {"$top": {"Am": _p("3/2", 1, 4.2)},
                     "$finals": {"Bm": _p("1/2", 1, 0.938), "Cm": _p(1, -1, 0.78), "Dm": _p(0, -1, 0.1396)},
                     "Rcdm": _p(2, 1, 1.32, width=0.11), "Rbdm": _p("3/2", 1, 1.232, width=0.12, model="one")}}})
    # spin-1 parent -> 1 1 0 (equal-spin daughters in one vertex), spin-0/1/2 resonances, BW + BWR
    Z.append({"name": "amp_s3_equal_spins", "pc": True, "cfg": {
        "data": {"dat_order": ["Bn", "Cn", "Dn"]},
        "decay": {"An": [["Rbcn", "Dn"], ["Rcdn", "Bn"], ["Rbdn", "Cn"]], "Rbcn": ["Bn", "Cn"], "Rcdn": ["Cn", "Dn"], "Rbdn": ["Bn", "Dn"]},
        "particle": {"$top": {"An": _p(1, -1, 4.0)},
                     "$finals": {"Bn": _p(1, -1, 0.78), "Cn": _p(1, -1, 1.02), "Dn": _p(0, -1, 0.1396)},
                     "Rbcn": _p(2, 1, 2.3, width=0.2), "Rcdn": _p(1, 1, 1.4, width=0.15, model="BW"), "Rbdn": _p(1, 1, 1.23, width=0.14)}}})
    return Z


def _d(x):
    """doubled spin / helicity as an int"""
    return int(round(2 * float(x)))


def _f(x):
    if callable(x):
        x = x()
    return float(np.asarray(x))


def res_kind(r):
    name = type(r).__name__
    if name == "ParticleOne":
        return 0
    if name == "ParticleBW":
        return 2
    if name == "Particle":
        if r.get_width() is None:
            return 0
        if not r.running_width:
            return 2
        return 1
    return None


def chain_contexts(dg, data):
    """the loop of DecayGroup.get_amp: (chain, data_c, data_p) with the library's own data bookkeeping"""
    from tf_pwa.amp.core import rename_data_dict
    used = tuple(dg.chains[i] for i in dg.chains_idx)
    out = []
    for chains in dg.get_chains_map(used):
        for dc in chains:
            topo = dc.standard_topology()
            ddi = None
            for k in data["decay"].keys():
                if k == topo:
                    ddi = data["decay"][k]
                    break
            data_c = rename_data_dict(ddi, chains[dc])
            data_p = rename_data_dict(data["particle"], chains[dc])
            out.append((dc, data_c, data_p))
    return out


def describe_chain(dg, dc, data_c, data_p, n_ev, ids):
    """-> (ints, floats) of one `chain` op, or None if the chain uses something outside the model"""
    ints, fl = [], []

    def put_list(xs):
        ints.append(len(xs))
        ints.extend(int(x) for x in xs)

    top = dg.top
    put_list([_d(x) for x in top.spins])
    ints.append(len(dg.outs))
    for o in dg.outs:
        ints.append(ids[o]); put_list([_d(x) for x in o.spins])
    decays = list(dc)
    tops = [d for d in decays if d.core == top]
    if len(tops) != 1:
        return None
    decays = tops + [d for d in decays if d.core != top]
    aligns = []
    inner = [(ids[r], [_d(x) for x in r.spins]) for r in dc.inner]
    for d in decays:
        if type(d).__name__ != "HelicityDecay":
            return None
        for j, o in enumerate(d.outs):
            if o.J != 0 and o in dg.outs and data_c[d][o].get("aligned_angle", None) is not None:
                aligns.append((d, o))
                inner.append((ids[o], [_d(x) for x in d.list_helicity_inner()[j]]))
    ints.append(len(inner))
    for pid, sp in inner:
        ints.append(pid); put_list(sp)
    tot = np.asarray(dc.get_amp_total()).reshape(-1)
    fl += [tot[0].real, tot[0].imag]
    ints.append(len(decays))
    for d in decays:
        ints += [ids[d.core], ids[d.outs[0]], ids[d.outs[1]], _d(d.core.J), _d(d.outs[0].J), _d(d.outs[1].J)]
        lh = d.list_helicity_inner()
        put_list([_d(x) for x in lh[0]]); put_list([_d(x) for x in lh[1]])
        q0 = d.get_relative_momentum2(data_p, False)
        ints.append(0 if hasattr(q0, "dtype") else 1)  # Python float -> rounded to float32 inside Bprime_q2 (tf.cast)
        ls = d.get_ls_list()
        ints.append(len(ls))
        for l, s in ls:
            ints += [_d(l), _d(s)]
        g = np.asarray(d.get_g_ls()).reshape(-1)
        for z in g:
            fl += [z.real, z.imag]
        fl += [_f(d.core.get_mass()), _f(d.outs[0].get_mass()), _f(d.outs[1].get_mass())]
    ints.append(len(dc.inner))
    res_decay = []
    for r in dc.inner:
        kind = res_kind(r)
        if kind is None:
            return None
        di = [d for d in r.decay if d in dc][0]
        res_decay.append(di)
        bwl = r.bw_l if getattr(r, "bw_l", None) is not None else min(r.decay[0].get_l_list())
        ints += [kind, int(bwl)]
        w = r.get_width()
        fl += [_f(r.get_mass()), 0.0 if w is None else _f(w), _f(di.outs[0].get_mass()), _f(di.outs[1].get_mass())]
    ints.append(len(aligns))
    for d, o in aligns:
        ints += [ids[o], _d(o.J)]
    ints.append(n_ev)
    arr = lambda x: np.broadcast_to(np.asarray(x, dtype=float).reshape(-1), (n_ev,)) if np.asarray(x).size == 1 else np.asarray(x, dtype=float).reshape(-1)
    cols = []
    for d in decays:
        ang = data_c[d][d.outs[0]]["ang"]
        cols += [arr(data_c[d]["|q|2"]), arr(ang["alpha"]), arr(ang["beta"]), arr(ang["gamma"])]
    for r, di in zip(dc.inner, res_decay):
        cols += [arr(data_p[r]["m"]), arr(data_p[di.outs[0]]["m"]), arr(data_p[di.outs[1]]["m"])]
    for d, o in aligns:
        ang = data_c[d][o]["aligned_angle"]
        cols += [arr(ang["alpha"]), arr(ang["beta"]), arr(ang["gamma"])]
    ev = np.stack(cols, 1) if cols else np.zeros((n_ev, 0))
    fl += ev.reshape(-1).tolist()
    return ints, fl, len(aligns)


def line_of(ints, fl):
    return "C01amp chain %d %s %s" % (len(ints), " ".join(str(i) for i in ints), " ".join(C.f2h(x) for x in fl))


def structures_for(ctx):
    zoo = [s for s in c01.fixed_zoo() if s["name"] in AMP_STRUCTURES] + extra_zoo()
    return zoo


def correspond_amp(ctx, res):
    """returns the number of compared tensor components"""
    n_ev = 5 if ctx.quick else 40
    budget = 50000 if ctx.quick else 400000
    rng = np.random.Generator(np.random.Philox(ctx.seed + 4004))
    jobs, lines = [], []
    cover = {"structures": [], "chains": 0, "spins": set(), "line_shapes": set(), "aligned_finals": 0, "max_ls_per_vertex": 0}
    for k, st in enumerate(structures_for(ctx)):
        b = c01.try_build(st, rng)
        if b is None:
            res.broke("C01 amplitude correspondence: structure %s is no longer accepted by ConfigLoader" % st["name"], st["cfg"])
            continue
        dg = b.amp.decay_group
        # cost of the literal einsum in the (interpreted) Lean model: components x contracted configurations
        ncomp = int(np.prod([len(dg.top.spins)] + [len(o.spins) for o in dg.outs]))
        terms = 0
        for dc in dg.chains:
            t = ncomp
            for r in dc.inner:
                t *= len(r.spins)
            for o in dg.outs:
                t *= len(o.spins) if o.J != 0 else 1
            terms += t
        n_use = int(max(1, min(n_ev, budget // max(terms, 1))))
        p = c01.phsp(b, n_use, ctx.seed * 104729 + k)
        n = len(p[0])
        data = b.config.data.cal_angle([np.array(x) for x in p])
        try:
            amp_all = np.asarray(dg.get_amp(data))
            dens = np.asarray(dg.sum_amp(data), dtype=float)
            ctxs = chain_contexts(dg, data)
            base_map = dg.get_base_map()
            per_chain = [np.asarray(dc.get_amp(dcx, dpx, base_map=base_map, all_data=data)) for dc, dcx, dpx in ctxs]
        except Exception as e:
            res.broke("C01 amplitude correspondence: evaluating the real amplitude tensor of %s raised %s: %s" % (st["name"], type(e).__name__, str(e)[:300]), st["cfg"])
            continue
        ids = {dg.top: 0}
        for o in dg.outs:
            ids[o] = len(ids)
        for r in dg.resonances:
            if r not in ids:
                ids[r] = len(ids)
        shape = tuple([len(dg.top.spins)] + [len(o.spins) for o in dg.outs])
        job = {"st": st, "b": b, "n": n, "shape": shape, "amp_all": amp_all, "dens": dens, "chains": [], "first_line": len(lines), "p": p}
        ok = True
        for (dc, dcx, dpx), real in zip(ctxs, per_chain):
            desc = describe_chain(dg, dc, dcx, dpx, n, ids)
            if desc is None:
                res.notes.append("C01 amp: chain %s of %s is outside the model (skipped)" % (dc, st["name"]))
                ok = False
                break
            lines.append(line_of(desc[0], desc[1]))
            job["chains"].append({"name": str(dc), "real": np.broadcast_to(real, (n,) + shape) if real.shape[0] != n else real})
            cover["chains"] += 1
            for d in dc:
                cover["max_ls_per_vertex"] = max(cover["max_ls_per_vertex"], len(d.get_ls_list()))
            for r in dc.inner:
                cover["line_shapes"].add({0: "one", 1: "BWR", 2: "BW"}[res_kind(r)])
            cover["aligned_finals"] += desc[2]
        if not ok:
            del lines[job["first_line"]:]
            continue
        for part in [dg.top] + list(dg.outs) + list(dg.resonances):
            cover["spins"].add(str(part.J))
        cover["structures"].append(st["name"])
        jobs.append(job)
    if not lines:
        res.broke("C01 amplitude correspondence: no structure could be compared", None)
        return 0
    out = ctx.model.query(lines)
    n_cmp, worst, nbad, first = 0, 0.0, 0, None
    worst_d = 0.0
    for job in jobs:
        n, shape = job["n"], job["shape"]
        ncomp = int(np.prod(shape))
        total = np.zeros((n, ncomp), dtype=complex)
        bad_model = False
        for ci, ch in enumerate(job["chains"]):
            ans = out[job["first_line"] + ci]
            if ans == "bad-op":
                res.broke("C01 amplitude correspondence: the Lean model rejected the description of chain %s (%s)" % (ch["name"], job["st"]["name"]), None)
                bad_model = True
                break
            v = np.array([C.h2f(x) for x in ans.split()]).reshape(n, ncomp, 2)
            m = v[..., 0] + 1j * v[..., 1]
            total += m
            real = np.asarray(ch["real"]).reshape(n, ncomp)
            scale = np.maximum(np.max(np.abs(real), axis=1), 1e-300)
            e = np.max(np.abs(m - real), axis=1) / scale
            n_cmp += n * ncomp
            worst = max(worst, float(np.nanmax(e)))
            bad = np.where(~(e < TOL))[0]
            if len(bad):
                nbad += len(bad)
                if first is None:
                    i = int(bad[0])
                    j = int(np.argmax(np.abs(m[i] - real[i])))
                    first = {"structure": job["st"]["name"], "chain": ch["name"], "event": [x[i].tolist() for x in job["p"]], "component": [int(x) for x in np.unravel_index(j, shape)],
                             "index_layout": "[top helicity, final-state helicities in decay_group.outs order] (positions in particle.spins)",
                             "real": [float(real[i, j].real), float(real[i, j].imag)], "model": [float(m[i, j].real), float(m[i, j].imag)], "rel_err_of_largest": float(e[i]),
                             "config": job["st"]["cfg"], "params": job["b"].params}
        if bad_model:
            continue
        # sum over chains vs DecayGroup.get_amp, and the helicity-summed density vs DecayGroup.sum_amp
        real = job["amp_all"].reshape(n, ncomp)
        scale = np.maximum(np.max(np.abs(real), axis=1), 1e-300)
        e = np.max(np.abs(total - real), axis=1) / scale
        n_cmp += n * ncomp
        worst = max(worst, float(np.nanmax(e)))
        dm = np.sum(np.abs(total) ** 2, axis=1)
        ed = np.abs(dm - job["dens"]) / np.maximum(np.abs(job["dens"]), 1e-300)
        worst_d = max(worst_d, float(np.nanmax(ed)))
        n_cmp += n
        bad = np.where(~(e < TOL) | ~(ed < TOL))[0]
        if len(bad):
            nbad += len(bad)
            if first is None:
                i = int(bad[0])
                first = {"structure": job["st"]["name"], "chain": "sum over chains (DecayGroup.get_amp / sum_amp)", "event": [x[i].tolist() for x in job["p"]],
                         "density_real": float(job["dens"][i]), "density_model": float(dm[i]), "rel_err_amp": float(e[i]), "config": job["st"]["cfg"], "params": job["b"].params}
    res.coverage["amplitude_tensor"] = {
        "components_compared": int(n_cmp), "worst_rel_err_of_largest_component": worst, "worst_rel_err_density": worst_d, "disagreements": int(nbad),
        "structures": cover["structures"], "chains": cover["chains"], "spins": sorted(cover["spins"]), "line_shapes": sorted(cover["line_shapes"]),
        "max_ls_per_vertex": cover["max_ls_per_vertex"], "aligned_final_state_indices": cover["aligned_finals"], "events_per_structure_max": n_ev, "events": int(sum(j["n"] for j in jobs)), "tolerance": TOL,
    }
    if jobs:
        j0 = jobs[0]
        res.samples.append({"amplitude_tensor": {"structure": j0["st"]["name"], "shape[top,finals]": list(j0["shape"]), "real[0]": [[float(z.real), float(z.imag)] for z in j0["amp_all"][0].reshape(-1)[:4]]}})
    if nbad:
        res.broke("correspondence: the helicity amplitude tensor of tf_pwa.amp.core (DecayChain.get_amp / DecayGroup.get_amp / sum_amp) differs from the Lean model "
                  "AmpF (templates/Amp.lean.in) in %d (chain, event) blocks" % nbad, {"n": nbad, "first": first})
        if getattr(ctx, "hint", None) is None:
            ctx.hint = first
    return n_cmp
