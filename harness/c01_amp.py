"""C01 — correspondence of the Lean amplitude-tensor model (lean/templates/Amp.lean.in, Float instance) with
`tf_pwa.amp.core`: per event and PER HELICITY COMPONENT the real `DecayChain.get_amp` tensor of every chain, the real
`DecayGroup.get_amp` tensor (sum over chains) and the real `DecayGroup.sum_amp` density are compared with the model
(`correspond_amp`); `DecayGroup.get_amp3` (identical-particle terms of `get_amp2`, charge-conjugated partner, `allow_cc`
reversal on charge -1 events) per helicity component and `sum_amp` with the model's `groupAmp3` / `density3`
(`correspond_amp3`, op `amp3`).

Inputs of the model are what `amp/core.py` itself reads: masses, |q|2, helicity angles `ang` of every vertex and
`aligned_angle` of every final particle from the data dictionary produced by the real `cal_angle`, and the parameter
values (`get_g_ls()`, `get_amp_total()`, masses, widths, `bw_l`) of the real model objects.  The bookkeeping that maps
chains to data-dictionary entries (`get_chains_map`, `rename_data_dict`, `standard_topology`) is the library's own.
"""
import numpy as np

import common as C
import c01

TOL = 1e-9
AMP_STRUCTURES = ("s3_half_3chains", "s3_weak", "s4_seq_branch", "s4_weak_inner")


def extra_zoo():
    """Structures added for the tensor comparison: spin-2 final state, spin-3/2 parent, mixed line shapes."""
    _p = c01._p
    Z = []
    # spin-3/2 parent -> 1/2 1 0 with a spin-2 and a spin-3/2 resonance of different topology, one vertex parity violating
    Z.append({"name": "amp_s3_threehalf", "pc": False, "cfg": {
        "data": {"dat_order": ["Bm", "Cm", "Dm"]},
        "decay": {"Am": [["Rcdm", "Bm", {"p_break": True}], ["Rbdm", "Cm"]], "Rcdm": ["Cm", "Dm"], "Rbdm": ["Bm", "Dm"]},
        "particle": {"$top": {"Am": _p("3/2", 1, 4.2)},
                     "$finals": {"Bm": _p("1/2", 1, 0.938), "Cm": _p(1, -1, 0.78), "Dm": _p(0, -1, 0.1396)},
                     "Rcdm": _p(2, 1, 1.32, width=0.11), "Rbdm": _p("3/2", 1, 1.232, width=0.12, model="one")}}})
    # spin-1 parent -> 1 1 0 (equal-spin daughters in one vertex), spin-0/1/2 resonances, BW + BWR
    Z.append({"name": "amp_s3_equal_spins", "pc": True, "cfg": {
        "data": {"dat_order": ["Bn", "Cn", "Dn"]},
        "decay": {"An": [["Rbcn", "Dn"], ["Rcdn", "Bn"], ["Rbdn", "Cn"]], "Rbcn": ["Bn", "Cn"], "Rcdn": ["Cn", "Dn"], "Rbdn": ["Bn", "Dn"]},
        "particle": {"$top": {"An": _p(1, -1, 4.0)},
                     "$finals": {"Bn": _p(1, -1, 0.78), "Cn": _p(1, -1, 1.02), "Dn": _p(0, -1, 0.1396)},
                     "Rbcn": _p(2, 1, 2.3, width=0.2), "Rcdn": _p(1, 1, 1.4, width=0.15, model="BW"), "Rbdn": _p(1, 1, 1.23, width=0.14)}}})
    return Z


def _d(x):
    """doubled spin / helicity as an int"""
    return int(round(2 * float(x)))


def _f(x):
    if callable(x):
        x = x()
    return float(np.asarray(x))


def res_kind(r):
    name = type(r).__name__
    if name == "ParticleOne":
        return 0
    if name == "ParticleBW":
        return 2
    if name == "Particle":
        if r.get_width() is None:
            return 0
        if not r.running_width:
            return 2
        return 1
    return None


def chain_contexts(dg, data):
    """the loop of DecayGroup.get_amp: (chain, data_c, data_p) with the library's own data bookkeeping"""
    from tf_pwa.amp.core import rename_data_dict
    used = tuple(dg.chains[i] for i in dg.chains_idx)
    out = []
    for chains in dg.get_chains_map(used):
        for dc in chains:
            topo = dc.standard_topology()
            ddi = None
            for k in data["decay"].keys():
                if k == topo:
                    ddi = data["decay"][k]
                    break
            data_c = rename_data_dict(ddi, chains[dc])
            data_p = rename_data_dict(data["particle"], chains[dc])
            out.append((dc, data_c, data_p))
    return out


_Q0_ROUNDED = {}


def q0_rounding_observed():
    """Does the tree round a Python-float |q0|2 to float32 inside Bprime_q2 (tf.cast(python_float, float64))?  Observed on
    the real function: the barrier factor at q2 == q02 is exactly one iff it does not (fixes/C01-fix_q0_float64.diff)."""
    if "v" not in _Q0_ROUNDED:
        import tensorflow as tf
        from tf_pwa.breit_wigner import Bprime_q2
        x = 0.7123456789012345  # not representable in single precision
        vals = [float(np.asarray(Bprime_q2(L, tf.constant([x], dtype=tf.float64), x, 3.0)).reshape(-1)[0]) for L in (1, 2, 3)]
        _Q0_ROUNDED["v"] = any(v != 1.0 for v in vals)
    return _Q0_ROUNDED["v"]


def cc_flags(d, all_data, n_ev):
    """1.0 on the events where `get_helicity_amp` takes the reversed couplings H[..., ::-1, ::-1] (allow_cc, charge <= 0)"""
    charge = None if all_data is None else all_data.get("charge_conjugation", None)
    if not getattr(d, "allow_cc", False) or charge is None:
        return np.zeros(n_ev)
    ch = np.broadcast_to(np.asarray(charge, dtype=float).reshape(-1), (n_ev,))
    return np.where(ch > 0, 0.0, 1.0)


def describe_chain(dg, dc, data_c, data_p, n_ev, ids, all_data=None):
    """-> (ints, floats) of one `chain` op, or None if the chain uses something outside the model"""
    ints, fl = [], []
    if getattr(dc, "is_cp", False):
        return None

    def put_list(xs):
        ints.append(len(xs))
        ints.extend(int(x) for x in xs)

    top = dg.top
    put_list([_d(x) for x in top.spins])
    ints.append(len(dg.outs))
    for o in dg.outs:
        ints.append(ids[o]); put_list([_d(x) for x in o.spins])
    decays = list(dc)
    tops = [d for d in decays if d.core == top]
    if len(tops) != 1:
        return None
    decays = tops + [d for d in decays if d.core != top]
    aligns = []
    inner = [(ids[r], [_d(x) for x in r.spins]) for r in dc.inner]
    for d in decays:
        if type(d).__name__ != "HelicityDecay":
            return None
        for j, o in enumerate(d.outs):
            if o.J != 0 and o in dg.outs and data_c[d][o].get("aligned_angle", None) is not None:
                aligns.append((d, o))
                inner.append((ids[o], [_d(x) for x in d.list_helicity_inner()[j]]))
    ints.append(len(inner))
    for pid, sp in inner:
        ints.append(pid); put_list(sp)
    tot = np.asarray(dc.get_amp_total()).reshape(-1)
    fl += [tot[0].real, tot[0].imag]
    ints.append(len(decays))
    for d in decays:
        ints += [ids[d.core], ids[d.outs[0]], ids[d.outs[1]], _d(d.core.J), _d(d.outs[0].J), _d(d.outs[1].J)]
        lh = d.list_helicity_inner()
        put_list([_d(x) for x in lh[0]]); put_list([_d(x) for x in lh[1]])
        q0 = d.get_relative_momentum2(data_p, False)
        # a Python-float |q0|2 is rounded to float32 inside Bprime_q2 on the unrepaired tree (tf.cast); the flag follows
        # what the real Bprime_q2 is OBSERVED to do, so that the model is right before and after fixes/C01-fix_q0_float64.diff
        ints.append(1 if (not hasattr(q0, "dtype") and q0_rounding_observed()) else 0)
        ls = d.get_ls_list()
        ints.append(len(ls))
        for l, s in ls:
            ints += [_d(l), _d(s)]
        g = np.asarray(d.get_g_ls()).reshape(-1)
        for z in g:
            fl += [z.real, z.imag]
        fl += [_f(d.core.get_mass()), _f(d.outs[0].get_mass()), _f(d.outs[1].get_mass())]
    ints.append(len(dc.inner))
    res_decay = []
    for r in dc.inner:
        kind = res_kind(r)
        if kind is None:
            return None
        di = [d for d in r.decay if d in dc][0]
        res_decay.append(di)
        bwl = r.bw_l if getattr(r, "bw_l", None) is not None else min(r.decay[0].get_l_list())
        ints += [kind, int(bwl)]
        w = r.get_width()
        fl += [_f(r.get_mass()), 0.0 if w is None else _f(w), _f(di.outs[0].get_mass()), _f(di.outs[1].get_mass())]
    ints.append(len(aligns))
    for d, o in aligns:
        ints += [ids[o], _d(o.J)]
    ints.append(n_ev)
    arr = lambda x: np.broadcast_to(np.asarray(x, dtype=float).reshape(-1), (n_ev,)) if np.asarray(x).size == 1 else np.asarray(x, dtype=float).reshape(-1)
    cols = []
    for d in decays:
        ang = data_c[d][d.outs[0]]["ang"]
        cols += [cc_flags(d, all_data, n_ev), arr(data_c[d]["|q|2"]), arr(ang["alpha"]), arr(ang["beta"]), arr(ang["gamma"])]
    for r, di in zip(dc.inner, res_decay):
        cols += [arr(data_p[r]["m"]), arr(data_p[di.outs[0]]["m"]), arr(data_p[di.outs[1]]["m"])]
    for d, o in aligns:
        ang = data_c[d][o]["aligned_angle"]
        cols += [arr(ang["alpha"]), arr(ang["beta"]), arr(ang["gamma"])]
    ev = np.stack(cols, 1) if cols else np.zeros((n_ev, 0))
    fl += ev.reshape(-1).tolist()
    return ints, fl, len(aligns)


def line_of(ints, fl):
    return "C01amp chain %d %s %s" % (len(ints), " ".join(str(i) for i in ints), " ".join(C.f2h(x) for x in fl))


def structures_for(ctx):
    zoo = [s for s in c01.fixed_zoo() if s["name"] in AMP_STRUCTURES] + extra_zoo()
    return zoo


def correspond_amp(ctx, res):
    """returns the number of compared tensor components"""
    n_ev = 5 if ctx.quick else 40
    budget = 50000 if ctx.quick else 400000
    rng = np.random.Generator(np.random.Philox(ctx.seed + 4004))
    jobs, lines = [], []
    cover = {"structures": [], "chains": 0, "spins": set(), "line_shapes": set(), "aligned_finals": 0, "max_ls_per_vertex": 0}
    for k, st in enumerate(structures_for(ctx)):
        b = c01.try_build(st, rng)
        if b is None:
            res.broke("C01 amplitude correspondence: structure %s is no longer accepted by ConfigLoader" % st["name"], st["cfg"])
            continue
        dg = b.amp.decay_group
        # cost of the literal einsum in the (interpreted) Lean model: components x contracted configurations
        ncomp = int(np.prod([len(dg.top.spins)] + [len(o.spins) for o in dg.outs]))
        terms = 0
        for dc in dg.chains:
            t = ncomp
            for r in dc.inner:
                t *= len(r.spins)
            for o in dg.outs:
                t *= len(o.spins) if o.J != 0 else 1
            terms += t
        n_use = int(max(1, min(n_ev, budget // max(terms, 1))))
        p = c01.phsp(b, n_use, ctx.seed * 104729 + k)
        n = len(p[0])
        data = b.config.data.cal_angle([np.array(x) for x in p])
        try:
            amp_all = np.asarray(dg.get_amp(data))
            dens = np.asarray(dg.sum_amp(data), dtype=float)
            ctxs = chain_contexts(dg, data)
            base_map = dg.get_base_map()
            per_chain = [np.asarray(dc.get_amp(dcx, dpx, base_map=base_map, all_data=data)) for dc, dcx, dpx in ctxs]
        except Exception as e:
            res.broke("C01 amplitude correspondence: evaluating the real amplitude tensor of %s raised %s: %s" % (st["name"], type(e).__name__, str(e)[:300]), st["cfg"])
            continue
        ids = {dg.top: 0}
        for o in dg.outs:
            ids[o] = len(ids)
        for r in dg.resonances:
            if r not in ids:
                ids[r] = len(ids)
        shape = tuple([len(dg.top.spins)] + [len(o.spins) for o in dg.outs])
        job = {"st": st, "b": b, "n": n, "shape": shape, "amp_all": amp_all, "dens": dens, "chains": [], "first_line": len(lines), "p": p}
        ok = True
        for (dc, dcx, dpx), real in zip(ctxs, per_chain):
            desc = describe_chain(dg, dc, dcx, dpx, n, ids, all_data=data)
            if desc is None:
                res.notes.append("C01 amp: chain %s of %s is outside the model (skipped)" % (dc, st["name"]))
                ok = False
                break
            lines.append(line_of(desc[0], desc[1]))
            job["chains"].append({"name": str(dc), "real": np.broadcast_to(real, (n,) + shape) if real.shape[0] != n else real})
            cover["chains"] += 1
            for d in dc:
                cover["max_ls_per_vertex"] = max(cover["max_ls_per_vertex"], len(d.get_ls_list()))
            for r in dc.inner:
                cover["line_shapes"].add({0: "one", 1: "BWR", 2: "BW"}[res_kind(r)])
            cover["aligned_finals"] += desc[2]
        if not ok:
            del lines[job["first_line"]:]
            continue
        for part in [dg.top] + list(dg.outs) + list(dg.resonances):
            cover["spins"].add(str(part.J))
        cover["structures"].append(st["name"])
        jobs.append(job)
    if not lines:
        res.broke("C01 amplitude correspondence: no structure could be compared", None)
        return 0
    out = ctx.model.query(lines)
    n_cmp, worst, nbad, first = 0, 0.0, 0, None
    worst_d = 0.0
    for job in jobs:
        n, shape = job["n"], job["shape"]
        ncomp = int(np.prod(shape))
        total = np.zeros((n, ncomp), dtype=complex)
        bad_model = False
        for ci, ch in enumerate(job["chains"]):
            ans = out[job["first_line"] + ci]
            if ans == "bad-op":
                res.broke("C01 amplitude correspondence: the Lean model rejected the description of chain %s (%s)" % (ch["name"], job["st"]["name"]), None)
                bad_model = True
                break
            v = np.array([C.h2f(x) for x in ans.split()]).reshape(n, ncomp, 2)
            m = v[..., 0] + 1j * v[..., 1]
            total += m
            real = np.asarray(ch["real"]).reshape(n, ncomp)
            scale = np.maximum(np.max(np.abs(real), axis=1), 1e-300)
            e = np.max(np.abs(m - real), axis=1) / scale
            n_cmp += n * ncomp
            worst = max(worst, float(np.nanmax(e)))
            bad = np.where(~(e < TOL))[0]
            if len(bad):
                nbad += len(bad)
                if first is None:
                    i = int(bad[0])
                    j = int(np.argmax(np.abs(m[i] - real[i])))
                    first = {"structure": job["st"]["name"], "chain": ch["name"], "event": [x[i].tolist() for x in job["p"]], "component": [int(x) for x in np.unravel_index(j, shape)],
                             "index_layout": "[top helicity, final-state helicities in decay_group.outs order] (positions in particle.spins)",
                             "real": [float(real[i, j].real), float(real[i, j].imag)], "model": [float(m[i, j].real), float(m[i, j].imag)], "rel_err_of_largest": float(e[i]),
                             "config": job["st"]["cfg"], "params": job["b"].params}
        if bad_model:
            continue
        # sum over chains vs DecayGroup.get_amp, and the helicity-summed density vs DecayGroup.sum_amp
        real = job["amp_all"].reshape(n, ncomp)
        scale = np.maximum(np.max(np.abs(real), axis=1), 1e-300)
        e = np.max(np.abs(total - real), axis=1) / scale
        n_cmp += n * ncomp
        worst = max(worst, float(np.nanmax(e)))
        dm = np.sum(np.abs(total) ** 2, axis=1)
        ed = np.abs(dm - job["dens"]) / np.maximum(np.abs(job["dens"]), 1e-300)
        worst_d = max(worst_d, float(np.nanmax(ed)))
        n_cmp += n
        bad = np.where(~(e < TOL) | ~(ed < TOL))[0]
        if len(bad):
            nbad += len(bad)
            if first is None:
                i = int(bad[0])
                first = {"structure": job["st"]["name"], "chain": "sum over chains (DecayGroup.get_amp / sum_amp)", "event": [x[i].tolist() for x in job["p"]],
                         "density_real": float(job["dens"][i]), "density_model": float(dm[i]), "rel_err_amp": float(e[i]), "config": job["st"]["cfg"], "params": job["b"].params}
    res.coverage["python_float_q0_rounded_to_float32_observed"] = bool(q0_rounding_observed())
    res.coverage["amplitude_tensor"] = {
        "components_compared": int(n_cmp), "worst_rel_err_of_largest_component": worst, "worst_rel_err_density": worst_d, "disagreements": int(nbad),
        "structures": cover["structures"], "chains": cover["chains"], "spins": sorted(cover["spins"]), "line_shapes": sorted(cover["line_shapes"]),
        "max_ls_per_vertex": cover["max_ls_per_vertex"], "aligned_final_state_indices": cover["aligned_finals"], "events_per_structure_max": n_ev, "events": int(sum(j["n"] for j in jobs)), "tolerance": TOL,
    }
    if jobs:
        j0 = jobs[0]
        res.samples.append({"amplitude_tensor": {"structure": j0["st"]["name"], "shape[top,finals]": list(j0["shape"]), "real[0]": [[float(z.real), float(z.imag)] for z in j0["amp_all"][0].reshape(-1)[:4]]}})
    if nbad:
        res.broke("correspondence: the helicity amplitude tensor of tf_pwa.amp.core (DecayChain.get_amp / DecayGroup.get_amp / sum_amp) differs from the Lean model "
                  "AmpF (templates/Amp.lean.in) in %d (chain, event) blocks" % nbad, {"n": nbad, "first": first})
        if getattr(ctx, "hint", None) is None:
            ctx.hint = first
    return n_cmp


# ---------------------------------------------------------------------------------------------
# get_amp2 / get_amp3 / sum_amp: identical particles, charge-conjugated partner, allow_cc
# ---------------------------------------------------------------------------------------------

def amp3_zoo():
    """Cards for DecayGroup.get_amp2 / get_amp3 and the allow_cc branch of get_helicity_amp."""
    _p = c01._p
    Z = []
    # identical fermions (sign factor -1, transposition of two spin-1/2 axes), spin-1 parent
    Z.append({"name": "amp3_identical_fermions", "pc": True, "cfg": {
        "data": {"dat_order": ["Bu", "C1u", "C2u"], "identical_particles": [["C1u", "C2u"]]},
        "decay": {"Au": [["Rbcu", "C2u"], ["Rccu", "Bu"]], "Rbcu": ["Bu", "C1u"], "Rccu": ["C1u", "C2u"]},
        "particle": {"$top": {"Au": _p(1, -1, 3.686)},
                     "$finals": {"Bu": _p(0, -1, 0.548), "C1u": _p("1/2", 1, 0.938), "C2u": _p("1/2", 1, 0.938)},
                     "Rbcu": _p("1/2", -1, 1.535, width=0.15), "Rccu": _p(1, -1, 2.2, width=0.18)}}})
    # identical spin-1 bosons (factor +1, transposition of two spin-1 axes), spin-0 parent, parity violating top vertices
    Z.append({"name": "amp3_identical_vectors", "pc": False, "cfg": {
        "data": {"dat_order": ["Bv", "C1v", "C2v"], "identical_particles": [["C1v", "C2v"]]},
        "decay": {"Av": [["Rbcv", "C2v", {"p_break": True}], ["Rccv", "Bv", {"p_break": True}]], "Rbcv": ["Bv", "C1v"], "Rccv": ["C1v", "C2v"]},
        "particle": {"$top": {"Av": _p(0, -1, 5.28)},
                     "$finals": {"Bv": _p(0, -1, 0.494), "C1v": _p(1, -1, 0.78), "C2v": _p(1, -1, 0.78)},
                     "Rbcv": _p(1, 1, 1.4, width=0.17), "Rccv": _p(2, 1, 2.3, width=0.25)}}})
    # charge-conjugate pair (cp_particles): get_amp3 adds frac * reverse(transpose(get_amp2(cp_swap))), frac = C(D) = -1
    Z.append({"name": "amp3_cp_pair", "pc": True, "cfg": {
        "data": {"dat_order": ["Bw", "Cw", "Dw"], "cp_particles": [["Bw", "Cw"]]},
        "decay": {"Aw": [["Rbdw", "Cw"], ["Rcdw", "Bw"], ["Rbcw", "Dw"]], "Rbdw": ["Bw", "Dw"], "Rcdw": ["Cw", "Dw"], "Rbcw": ["Bw", "Cw"]},
        "particle": {"$top": {"Aw": _p(1, -1, 3.9)},
                     "$finals": {"Bw": _p("1/2", 1, 0.938), "Cw": _p("1/2", -1, 0.938), "Dw": _p(1, -1, 0.78, C=-1)},
                     "Rbdw": _p("3/2", 1, 1.9, width=0.2), "Rcdw": _p("3/2", -1, 1.9, width=0.2), "Rbcw": _p(1, -1, 2.6, width=0.2)}}})
    # charge -1 events with cp_trans off: allow_cc stays on and get_helicity_amp reverses the helicity couplings
    Z.append({"name": "amp3_allow_cc", "pc": False, "charge": True, "cfg": {
        "data": {"dat_order": ["Bx", "Cx", "Dx"], "cp_trans": False},
        "decay": {"Ax": [["Rbcx", "Dx", {"p_break": True}], ["Rbdx", "Cx", {"p_break": True}]], "Rbcx": ["Bx", "Cx"], "Rbdx": [["Bx", "Dx", {"p_break": True}]]},
        "particle": {"$top": {"Ax": _p("1/2", 1, 4.6)},
                     "$finals": {"Bx": _p("1/2", 1, 0.938), "Cx": _p(0, -1, 0.494), "Dx": _p(1, -1, 0.78)},
                     "Rbcx": _p("3/2", -1, 1.9, width=0.1), "Rbdx": _p("1/2", 1, 2.43, width=0.3)}}})
    return Z


def describe_group(dg, data, all_data, n, ids, cover):
    """one data dictionary with its id_swap entries -> (ints, floats, cost) or None"""
    ints, fl = [], []
    names = {str(o): o for o in dg.outs}

    def put_chains(d):
        ctxs = chain_contexts(dg, d)
        ints.append(len(ctxs))
        for dc, dcx, dpx in ctxs:
            desc = describe_chain(dg, dc, dcx, dpx, n, ids, all_data=d)
            if desc is None:
                return False
            ints.extend(desc[0]); fl.extend(desc[1])
            cover["chains"] += 1
        return True

    if not put_chains(data):
        return None
    id_swap = data.get("id_swap", {})
    ints.append(len(id_swap))
    for k, v in id_swap.items():
        groups = list(zip(dg.identical_particles, k[1]))
        ints.append(len(groups))
        pairs = []
        for grp, img in groups:
            grp = [str(x) for x in grp]; img = [str(x) for x in img]
            if len(grp) != 2:
                return None  # the transposition rule of get_swap_transpose is modelled for exchanges of pairs only
            part = dg.get_particle(grp[0])
            ints.append(1 if int(round(2 * float(part.J))) % 2 == 1 else 0)
            sigma = [grp.index(x) for x in img]
            ints.append(len(sigma)); ints.extend(sigma)
            for a, b in zip(grp, img):
                if a != b:
                    pairs.append((ids[names[a]], ids[names[b]]))
        ints.append(len(pairs))
        for a, b in pairs:
            ints += [a, b]
        if not put_chains({**data, **v}):
            return None
        cover["swaps"] += 1
    return ints, fl


def correspond_amp3(ctx, res):
    """DecayGroup.get_amp3 per helicity component and DecayGroup.sum_amp vs the Lean model (groupAmp3 / density3)."""
    from tf_pwa.particle import cp_charge_group
    n_ev = 4 if ctx.quick else 30
    budget = 40000 if ctx.quick else 300000
    rng = np.random.Generator(np.random.Philox(ctx.seed + 5005))
    jobs, lines = [], []
    cover = {"structures": [], "chains": 0, "swaps": 0, "cp_terms": 0, "cc_events": 0}
    for k, st in enumerate(amp3_zoo()):
        b = c01.try_build(st, rng)
        if b is None:
            res.broke("C01 amplitude correspondence (get_amp3): structure %s is no longer accepted by ConfigLoader" % st["name"], st["cfg"])
            continue
        dg = b.amp.decay_group
        ncomp = int(np.prod([len(dg.top.spins)] + [len(o.spins) for o in dg.outs]))
        terms = 0
        for dc in dg.chains:
            t = ncomp
            for r in dc.inner:
                t *= len(r.spins)
            for o in dg.outs:
                t *= len(o.spins) if o.J != 0 else 1
            terms += t
        mult = (2 if dg.identical_particles else 1) * (2 if getattr(dg, "cp_particles", None) else 1)
        n_use = int(max(1, min(n_ev, budget // max(terms * mult * 2, 1))))  # x2: components and density
        p = c01.phsp(b, n_use, ctx.seed * 15485863 + k)
        n = len(p[0])
        try:
            data = b.config.data.cal_angle([np.array(x) for x in p])
            if st.get("charge"):
                ch = np.where(rng.random(n) < 0.5, 1.0, -1.0)
                ch[0] = -1.0
                data = {**data, "charge_conjugation": ch}
                cover["cc_events"] += int(np.sum(ch < 0))
            amp3 = np.asarray(dg.get_amp3(data))
            dens = np.asarray(dg.sum_amp(data), dtype=float)
        except Exception as e:
            res.broke("C01 amplitude correspondence (get_amp3): evaluating %s raised %s: %s" % (st["name"], type(e).__name__, str(e)[:300]), st["cfg"])
            continue
        ids = {dg.top: 0}
        for o in dg.outs:
            ids[o] = len(ids)
        for r in dg.resonances:
            if r not in ids:
                ids[r] = len(ids)
        shape = tuple([len(dg.top.spins)] + [len(o.spins) for o in dg.outs])
        g = describe_group(dg, data, data, n, ids, cover)
        if g is None:
            res.notes.append("C01 amp3: structure %s is outside the model (skipped)" % st["name"])
            continue
        ints, fl = g
        if "cp_swap" in data:
            names = {str(o): o for o in dg.outs}
            frac, pairs = 1.0, []
            for a, bb in cp_charge_group([str(i) for i in dg.outs], dg.identical_particles, dg.cp_particles):
                for i, j in zip(a, bb):
                    if i == j:
                        frac *= float(getattr(names[i], "C", -1))
                    else:
                        pairs += [(ids[names[i]], ids[names[j]]), (ids[names[j]], ids[names[i]])]
            g2 = describe_group(dg, data["cp_swap"], data["cp_swap"], n, ids, cover)
            if g2 is None:
                res.notes.append("C01 amp3: cp_swap part of %s is outside the model (skipped)" % st["name"])
                continue
            ints.append(1); fl.append(frac)
            ints.append(len(pairs))
            for a, bb in pairs:
                ints += [a, bb]
            ints.extend(g2[0]); fl.extend(g2[1])
            cover["cp_terms"] += 1
        else:
            ints.append(0)
        lines.append("C01amp amp3 %d %s %s" % (len(ints), " ".join(str(i) for i in ints), " ".join(C.f2h(x) for x in fl)))
        jobs.append({"st": st, "b": b, "n": n, "shape": shape, "amp3": amp3, "dens": dens, "p": p,
                     "charge": data.get("charge_conjugation", None)})
        cover["structures"].append(st["name"])
    if not lines:
        res.broke("C01 amplitude correspondence (get_amp3): no structure could be compared", None)
        return 0
    out = ctx.model.query(lines)
    n_cmp, worst, worst_d, nbad, first = 0, 0.0, 0.0, 0, None
    for job, ans in zip(jobs, out):
        n, shape = job["n"], job["shape"]
        ncomp = int(np.prod(shape))
        if ans == "bad-op":
            res.broke("C01 amplitude correspondence (get_amp3): the Lean model rejected the description of %s" % job["st"]["name"], None)
            continue
        v = np.array([C.h2f(x) for x in ans.split()]).reshape(n, 2 * ncomp + 1)
        m = v[:, 0:2 * ncomp:2] + 1j * v[:, 1:2 * ncomp:2]
        dm = v[:, -1]
        real = np.broadcast_to(job["amp3"], (n,) + shape).reshape(n, ncomp)
        scale = np.maximum(np.max(np.abs(real), axis=1), 1e-300)
        e = np.max(np.abs(m - real), axis=1) / scale
        ed = np.abs(dm - job["dens"]) / np.maximum(np.abs(job["dens"]), 1e-300)
        n_cmp += n * ncomp + n
        worst = max(worst, float(np.nanmax(e)))
        worst_d = max(worst_d, float(np.nanmax(ed)))
        bad = np.where(~(e < TOL) | ~(ed < TOL))[0]
        if len(bad):
            nbad += len(bad)
            if first is None:
                i = int(bad[0])
                j = int(np.argmax(np.abs(m[i] - real[i])))
                first = {"structure": job["st"]["name"], "what": "DecayGroup.get_amp3 / sum_amp", "event": [x[i].tolist() for x in job["p"]],
                         "charge_conjugation": None if job["charge"] is None else float(job["charge"][i]),
                         "component": [int(x) for x in np.unravel_index(j, shape)],
                         "index_layout": "[top helicity, final-state helicities in decay_group.outs order] (positions in particle.spins)",
                         "real": [float(real[i, j].real), float(real[i, j].imag)], "model": [float(m[i, j].real), float(m[i, j].imag)],
                         "density_real": float(job["dens"][i]), "density_model": float(dm[i]), "rel_err_of_largest": float(e[i]),
                         "config": job["st"]["cfg"], "params": job["b"].params}
    res.coverage["amplitude_tensor_identical_cp"] = {
        "components_compared": int(n_cmp), "worst_rel_err_of_largest_component": worst, "worst_rel_err_density": worst_d, "disagreements": int(nbad),
        "structures": cover["structures"], "chain_evaluations": cover["chains"], "id_swap_terms": cover["swaps"], "cp_swap_terms": cover["cp_terms"],
        "charge_conjugated_events_with_allow_cc": cover["cc_events"], "events": int(sum(j["n"] for j in jobs)), "tolerance": TOL,
    }
    if nbad:
        res.broke("correspondence: DecayGroup.get_amp3 / sum_amp of tf_pwa.amp.core (identical-particle terms get_amp2: swap factor and transposition; "
                  "charge-conjugated partner get_amp3: frac, transposition, helicity reversal; allow_cc reversal of the helicity couplings) differs from the Lean model "
                  "AmpF.groupAmp3 / density3 (templates/Amp.lean.in) on %d events" % nbad, {"n": nbad, "first": first})
        if getattr(ctx, "hint", None) is None:
            ctx.hint = first
    return n_cmp
