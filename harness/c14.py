"""C14 — decay topologies are enumerated and identified correctly."""
import itertools
import random

import common as C

PID = "C14"
DRIVER = [("C14", "TfPwaV.Model.Topology", "Topology.handle")]
LEAN_TARGETS = ["TfPwaV.Props.C14", "TfPwaV.Props.C14N5"]
PROP_MODULES = ["TfPwaV.Props.C14", "TfPwaV.Props.C14N5a", "TfPwaV.Props.C14N5b", "TfPwaV.Props.C14N5c", "TfPwaV.Props.C14N5"]
ALL_MODULES = ["TfPwaV.Model.Topology", "TfPwaV.Proofs.Topology", "TfPwaV.Proofs.TopologyDistinct", "TfPwaV.Props.C14",
               "TfPwaV.Props.C14N5a", "TfPwaV.Props.C14N5b", "TfPwaV.Props.C14N5c", "TfPwaV.Props.C14N5"]
ASSUMPTIONS = [
    "particles are BaseParticle objects compared by (name, id); names used by the harness contain none of the protocol separators ' ;>|=,#@/[]'",
    "Python str comparison = code-point lexicographic = Lean String '<'; Python sorted on a linear order = the model's insertion sort",
    "pairwise distinctness of the (2n-3)!! enumerated topologies is proved for EVERY n on the tree model (enumeration_pairwise_distinct: the enumerated graphs are position by position full binary trees whose sets of final-state groupings are pairwise different); the step graph -> chain (get_decay_chain) -> sorted_table -> topology_id, i.e. that the topology_id of the i-th chain IS the grouping set of the i-th tree, is kernel-decided only for n<=5 (labelling top=0, finals=1..n; 1+3+15+105 chains) and otherwise checked exhaustively on the real code for n<=6 (7 thorough) by the independent oracle of search()",
    "chain-level binary-tree structure, from_particles not raising and the table round trip are kernel-decided for n<=5 only; for all n the theorems are at graph/tree level (count, binary tree, leaf multiset, distinct grouping sets) plus: if from_particles returns, it returns (2n-3)!! chains",
    "get_chains_map is modelled in two variants (assignment with identical=True as found / identical=False after fix_get_chains_map_identical.diff); the harness selects the variant by probing the real code on a fixed group",
    "a cyclic chain makes sorted_table loop forever in Python; the model returns none and the harness never feeds such chains to the real code",
]

SEP = set(" ;>|=,#@/[]")
FINAL_POOL = ["B", "C", "D", "E", "F", "G", "H", "K", "p", "pi", "D*0", "Zc(3900)", "X:b", "a:b:2", "mu+", "e-"]
IDENT_POOL = ["pi:1", "pi:2", "pi:3", "pi:10", "K:1", "K:2", "pi", "K", "p", "p:-1", "D", "D:5"]
INNER_POOL = ["R", "R:1", "R:2", "X", "Y", "Zc:1", "N*", "Ds:a", "S:3", "Rho", "a1(1260)", "W:7", "Q", "Q:4", "V", "U:2"]
TOP_POOL = ["A", "Bs", "Lb:1", "J/psi".replace("/", "_"), "T:x"]


# ------------------------------------------------------------------ encoding (mirrors Model/Topology.lean show*)

def enc(s):
    return str(s).replace(" ", "~")


def enc_decay(d):
    return enc(d.core) + ">" + "|".join(enc(o) for o in d.outs)


def enc_chain(c):
    ds = list(c)
    return ";".join(enc_decay(d) for d in ds) if ds else "-"


def enc_table(t):
    return ";".join(enc(k) + "=" + "|".join(enc(v) for v in vs) for k, vs in t.items())


def enc_map(m, BaseDecay):
    ps = [(k, v) for k, v in m.items() if not isinstance(k, BaseDecay)]
    ds = [(k, v) for k, v in m.items() if isinstance(k, BaseDecay)]
    return ",".join(enc(k) + "=" + enc(v) for k, v in ps) + "#" + ",".join(enc_decay(k) + "=" + enc_decay(v) for k, v in ds)


def guarded(f):
    try:
        return f()
    except Exception:
        return "ERR"


class Spec:
    """A chain as plain data [(core_name, [out_names])] -> fresh particle/decay/chain objects on demand."""

    def __init__(self, decays):
        self.decays = [(str(c), [str(o) for o in os]) for c, os in decays]

    def line(self):
        return ";".join(c.replace(" ", "~") + ">" + "|".join(o.replace(" ", "~") for o in os) for c, os in self.decays)

    def build(self):
        from tf_pwa.particle import BaseDecay, BaseParticle, DecayChain
        return DecayChain([BaseDecay(BaseParticle(c), [BaseParticle(o) for o in os], disable=True) for c, os in self.decays])


def spec_of(chain):
    return Spec([(str(d.core), [str(o) for o in d.outs]) for d in chain])


# ------------------------------------------------------------------ generators

# multiplicities of identical-particle names in the final state: [B,B]-type groupings only occur with >= 2 particles
# of one name inside one grouping, and distinct groupings can only collapse onto each other with >= 3 of one name or
# two identical pairs -> every pattern below is enumerated deterministically (not left to the seeded pools)
MULT_PATTERNS = {
    2: [(2,)],
    3: [(2, 1), (3,)],
    4: [(3, 1), (2, 2), (4,), (2, 1, 1)],
    5: [(3, 1, 1), (2, 2, 1), (3, 2), (4, 1), (5,)],
    6: [(2, 2, 2), (3, 3), (4, 2), (3, 2, 1), (2, 2, 1, 1), (3, 1, 1, 1)],
    7: [(3, 2, 2), (4, 3), (2, 2, 2, 1)],
}
PATTERN_NAMES = ["B", "C", "pi", "K", "D*0", "p", "e-"]


def pattern_finals(pat, rnd=None):
    """finals with the given name multiplicities, e.g. (3, 1) -> B:1 B:2 B:3 C (order seeded if rnd is given)"""
    names = list(PATTERN_NAMES)
    if rnd is not None:
        rnd.shuffle(names)
    out = []
    for nm, m in zip(names, pat):
        if m == 1 and (rnd is None or rnd.random() < 0.7):
            out.append(nm)
        else:
            ids = list(range(1, m + 1)) if rnd is None else rnd.sample([1, 2, 3, 4, 5, 7, 10, 12], m)
            out += ["%s:%d" % (nm, i) for i in ids]
    if rnd is not None:
        rnd.shuffle(out)
    return out


def pick_finals(rnd, n):
    style = rnd.random()
    if style < 0.3 and n in MULT_PATTERNS:
        return pattern_finals(rnd.choice(MULT_PATTERNS[n]), rnd)
    style = rnd.random()
    if style < 0.35:
        return rnd.sample(FINAL_POOL, n)
    if style < 0.8:
        return rnd.sample(IDENT_POOL, n)
    return rnd.sample(sorted(set(FINAL_POOL + IDENT_POOL)), n)


def gen_group(rnd, nmax=5):
    """Random decay group: subset (with repetition) of the topologies of n finals, inner particles renamed,
    decay order and daughter order shuffled. Returns (top, finals, [Spec])."""
    from tf_pwa.particle import BaseParticle, DecayChain
    n = rnd.choice([3, 4, 4, 5, 5][: 2 * nmax - 5])
    finals = pick_finals(rnd, n)
    top = rnd.choice(TOP_POOL)
    chains = DecayChain.from_particles(BaseParticle(top), [BaseParticle(f) for f in finals])
    k = rnd.randint(2, 7)
    # bias towards repeated topologies so that classes have several members
    base = [rnd.randrange(len(chains)) for _ in range(max(1, k // 2))]
    picks = [rnd.choice(base) if rnd.random() < 0.5 else rnd.randrange(len(chains)) for _ in range(k)]
    specs, seen = [], set()
    fset = {str(BaseParticle(f)) for f in finals} | {str(BaseParticle(top))}
    for pk in picks:
        ch = chains[pk]
        inner = [str(i) for i in ch.inner]
        pool = [x for x in INNER_POOL if str(BaseParticle(x)) not in fset]
        new = rnd.sample(pool, len(inner))
        ren = dict(zip(inner, new))
        decs = [(ren.get(str(d.core), str(d.core)), [ren.get(str(o), str(o)) for o in d.outs]) for d in ch]
        rnd.shuffle(decs)
        for d in decs:
            if rnd.random() < 0.5:
                d[1].reverse()
        sp = Spec(decs)
        ident = tuple(sorted((c, tuple(sorted(os))) for c, os in sp.decays))
        if ident in seen:
            continue
        seen.add(ident)
        specs.append(sp)
    return top, finals, specs


MALFORMED = [
    [("A", ["B", "C", "D"])],
    [("A", ["R", "B"]), ("R", ["C", "D", "E"])],
    [("A", ["B", "C", "D", "E"])],
    [("A", ["R", "S"]), ("R", ["B", "C"]), ("S", ["D", "E", "F"])],
    [("A", ["B", "B"])],
    [("A", ["B", "C"]), ("X", ["D", "E"])],
    [("A", ["R"]), ("R", ["B", "C"])],
    [("A", ["B:1", "B:2"])],
    [("A", ["R", "B:1"]), ("R", ["B:2", "B:3"])],
]


# ------------------------------------------------------------------ correspondence

def chain_ops(sp, lines, impl, BaseDecay):
    """per-chain ops: sorted table, topology ids, standard topology, self map, table round trip"""
    from tf_pwa.particle import DecayChain
    ln = sp.line()

    def tid(idn):
        a = sp.build().topology_id(idn)
        return ";".join("|".join(enc(x) for x in g) for g in a)

    lines.append("C14 st " + ln)
    impl.append(guarded(lambda: enc_table(sp.build().sorted_table())))
    lines.append("C14 tid 1 " + ln)
    impl.append(guarded(lambda: tid(True)))
    lines.append("C14 tid 0 " + ln)
    impl.append(guarded(lambda: tid(False)))
    lines.append("C14 std " + ln)
    impl.append(guarded(lambda: enc_chain(sp.build().standard_topology())))
    lines.append("C14 tmap0 " + ln)
    impl.append(guarded(lambda: enc_map(sp.build().topology_map(), BaseDecay)))
    t = guarded(lambda: enc_table(sp.build().sorted_table()))
    if t != "ERR":
        lines.append("C14 fst " + t)
        impl.append(guarded(lambda: enc_chain(DecayChain.from_sorted_table(sp.build().sorted_table()))))


KNOWN_GROUP = {"top": "A", "finals": ["pi:1", "pi:2", "K"],
               "chains": [[["A", ["R", "pi:1"]], ["R", ["pi:2", "K"]]], [["A", ["R", "pi:2"]], ["R", ["pi:1", "K"]]]]}


def assigns_by_name():
    """Which get_chains_map is in the tree: True = chains assigned to classes with identical=True (unfixed)."""
    from tf_pwa.particle import DecayGroup
    try:
        cm = DecayGroup([Spec(d).build() for d in KNOWN_GROUP["chains"]]).get_chains_map()
    except KeyError:
        return True
    return any(len(tmp) != 1 for tmp in cm)


def correspond(ctx, res):
    from tf_pwa.particle import BaseDecay, BaseParticle, DecayChain, DecayGroup
    by_name = assigns_by_name()
    res.coverage["get_chains_map_variant"] = "assign with identical=True (as found)" if by_name else "assign with identical=False (fix_get_chains_map_identical.diff applied)"
    rnd = random.Random(ctx.seed * 7919 + 14)
    lines, impl, tags = [], [], []

    def mark(tag):
        while len(tags) < len(lines):
            tags.append(tag)

    # 1. enumeration, order of the produced list included
    nmax = 6 if ctx.quick else 7
    enum = {}
    for n in range(1, nmax + 1):
        namings = [("A", ["f%d" % i for i in range(n)])]
        if n <= 5:
            for _ in range(2):
                namings.append((rnd.choice(TOP_POOL), pick_finals(rnd, n)))
            if n >= 3:
                pats = MULT_PATTERNS[n]
                for pat in (pats[:2] + [pats[2 + ctx.seed % (len(pats) - 2)]] if ctx.quick and len(pats) > 2 else pats):
                    namings.append(("A", pattern_finals(pat, rnd)))
        for top, fs in namings:
            lines.append("C14 fp %s %s" % (top, " ".join(fs)))
            r = guarded(lambda: DecayChain.from_particles(BaseParticle(top), [BaseParticle(f) for f in fs]))
            impl.append(r if r == "ERR" else " ".join(enc_chain(c) for c in r))
            if r != "ERR":
                enum.setdefault(n, []).append(r)
    mark("from_particles")

    # 2. per-chain functions on every enumerated chain n<=5 and a seeded sample of larger n
    n_chain = 0
    for n, lists in enum.items():
        for cs in lists:
            sel = cs if n <= 5 else rnd.sample(cs, 120 if ctx.quick else 600)
            for c in sel:
                chain_ops(spec_of(c), lines, impl, BaseDecay)
                n_chain += 1
    for m in MALFORMED:
        chain_ops(Spec(m), lines, impl, BaseDecay)
    mark("chain-ops")

    # 3. random decay groups
    n_groups = 200 if ctx.quick else 2500
    n_err = 0
    classes_seen = set()
    for gi in range(n_groups):
        top, finals, specs = gen_group(rnd)
        if not specs:
            continue
        args = " ".join(sp.line() for sp in specs)
        for idn in (0, 1):
            for std in (0, 1):
                lines.append("C14 struct %d %d %s" % (idn, std, args))
                impl.append(guarded(lambda: " ".join(enc_chain(c) for c in DecayGroup([sp.build() for sp in specs]).topology_structure(bool(idn), bool(std)))))

        def cmap():
            chains = [sp.build() for sp in specs]
            g = DecayGroup(chains)
            out = []
            for tmp in g.get_chains_map():
                ent = []
                for j, m in tmp.items():
                    idx = [i for i, c in enumerate(chains) if c is j][0]
                    ent.append("%d@%s" % (idx, enc_map(m, BaseDecay)))
                out.append("[" + "/".join(ent) + "]")
            return " ".join(out)

        lines.append("C14 cmap %d %s" % (int(by_name), args))
        r = guarded(cmap)
        impl.append(r)
        n_err += r == "ERR"
        classes_seen.add((len(specs), r.count("["), r == "ERR"))
        for i, j in itertools.combinations(range(len(specs)), 2):
            for idn in (0, 1):
                lines.append("C14 same %d %s %s" % (idn, specs[i].line(), specs[j].line()))
                impl.append(guarded(lambda: "1" if specs[i].build().topology_same(specs[j].build(), bool(idn)) else "0"))
            if rnd.random() < 0.3:
                lines.append("C14 tmap %s %s" % (specs[i].line(), specs[j].line()))
                impl.append(guarded(lambda: enc_map(specs[i].build().topology_map(specs[j].build()), BaseDecay)))
        if gi % 5 == 0:
            for sp in specs:
                chain_ops(sp, lines, impl, BaseDecay)
    mark("decay-group")

    model = ctx.model.query(lines)
    dis = [(t, l, a, b) for t, l, a, b in zip(tags, lines, impl, model) if a != b]
    res.coverage.update({
        "traces_validated_against_impl": len(lines),
        "evaluations": len(lines),
        "distinct_nontrivial": len(set(impl)),
        "rule": "from_particles for n=1..%d (whole produced list incl. order, inner names, daughter order; fixed naming + 2 seeded namings for n<=5); per-chain sorted_table/topology_id(True,False)/standard_topology/topology_map()/from_sorted_table on every chain n<=5, a seeded sample for larger n and %d malformed chains; %d seeded decay groups (renamed inner particles, identical-particle names, shuffled decays) x topology_structure(4 flag combinations)/get_chains_map/topology_same matrix/topology_map; non-trivial = distinct answer strings" % (nmax, len(MALFORMED), n_groups),
        "exhaustive": "n<=%d enumeration" % nmax,
        "enumerated_chains": {n: [len(x) for x in v] for n, v in enum.items()},
        "chains_with_ops": n_chain,
        "groups": n_groups,
        "groups_where_get_chains_map_raises": n_err,
        "group_shapes(n_chains,n_classes,raises)": len(classes_seen),
        "disagreements": len(dis),
    })
    k = len(lines)
    res.samples += [{"op": lines[i][:300], "impl": impl[i][:300], "model": model[i][:300]} for i in (1, k // 4, k // 2, k - 1)]
    if dis:
        t, l, a, b = dis[0]
        res.broke("correspondence %s" % t, {"op": l[:1500], "impl": a[:1500], "model": b[:1500], "n": len(dis),
                                           "by_tag": {x: sum(1 for d in dis if d[0] == x) for x in set(d[0] for d in dis)}})


# ------------------------------------------------------------------ search: the statement itself, oracle independent of the model

def oracle_trees(leaves):
    """All rooted binary trees on the leaf set, each as the frozenset of its leaf groupings (recursive set partition)."""
    leaves = tuple(leaves)
    if len(leaves) == 1:
        return [frozenset([frozenset(leaves)])]
    out = []
    first, rest = leaves[0], leaves[1:]
    for r in range(0, len(rest)):
        for comb in itertools.combinations(rest, r):
            left = (first,) + comb
            right = tuple(x for x in rest if x not in comb)
            for tl in oracle_trees(left):
                for tr in oracle_trees(right):
                    out.append(frozenset([frozenset(leaves)]) | tl | tr)
    return out


def dfact(k):
    r = 1
    while k > 1:
        r *= k
        k -= 2
    return r


def tree_groupings(chain, top, finals):
    """Independent reading of a chain: returns (frozenset of groupings, problems)."""
    kids = {}
    probs = []
    for d in chain:
        k = str(d.core)
        if k in kids:
            probs.append("mother %s decays twice" % k)
        kids[k] = [str(o) for o in d.outs]
        if len(d.outs) != 2:
            probs.append("%s has %d daughters" % (k, len(d.outs)))
    groups = []
    seen_leaves = []
    visited = set()

    def walk(x):
        if x in visited:
            probs.append("%s reached twice" % x)
            return frozenset()
        visited.add(x)
        if x in kids:
            g = frozenset().union(*[walk(y) for y in kids[x]]) if kids[x] else frozenset()
        else:
            seen_leaves.append(x)
            g = frozenset([x])
        groups.append(g)
        return g

    walk(str(top))
    if sorted(seen_leaves) != sorted(str(f) for f in finals):
        probs.append("leaves %s != finals %s" % (sorted(seen_leaves), sorted(str(f) for f in finals)))
    if set(kids) - visited:
        probs.append("decays not reachable from top: %s" % sorted(set(kids) - visited))
    return frozenset(groups), probs


def name_groups(chain, top, finals, key):
    g, _ = tree_groupings(chain, top, finals)
    return sorted(sorted(key[x] for x in grp) for grp in g)


def search(ctx, res):
    from tf_pwa.particle import BaseDecay, BaseParticle, DecayChain, DecayGroup
    rnd = random.Random(ctx.seed * 104729 + 1414)
    hard = ctx.suspect or not ctx.quick
    nmax = 7 if hard else 6
    stats = {}
    for n in range(2, nmax + 1):
        namings = [("A", ["f%d" % i for i in range(n)])]
        if n <= 5:
            namings.append((rnd.choice(TOP_POOL), pick_finals(rnd, n)))
        # every multiplicity pattern of identical-particle names: all for n<=5; for n=6 two per run (all when hard)
        pats = MULT_PATTERNS.get(n, [])
        if n == 6 and not hard:
            pats = [pats[ctx.seed % len(pats)], pats[(ctx.seed + 1) % len(pats)]]
        if n >= 7:
            pats = pats[:1]
        for pat in pats:
            namings.append(("A", pattern_finals(pat)))
        for top_s, fs in namings:
            top = BaseParticle(top_s)
            finals = [BaseParticle(f) for f in fs]
            rp = {"top": top_s, "finals": fs}
            try:
                chains = DecayChain.from_particles(top, finals)
            except Exception as e:
                res.fail("from_particles:raises", "from_particles(%s, %s) raises %s: %s" % (top_s, fs, type(e).__name__, e), rp)
                continue
            if len(chains) != dfact(2 * n - 3):
                res.fail("from_particles:count", "from_particles(%s, %s) gives %d chains, (2n-3)!! = %d" % (top_s, fs, len(chains), dfact(2 * n - 3)), rp)
            want = set(oracle_trees([str(f) for f in finals])) if n <= 7 else None
            got = []
            bad = 0
            for i, c in enumerate(chains):
                g, probs = tree_groupings(c, top, finals)
                if probs and bad < 3:
                    bad += 1
                    res.fail("from_particles:not-a-binary-tree", "chain %d of from_particles(%s, %s) = %s: %s" % (i, top_s, fs, c, "; ".join(probs)), dict(rp, index=i))
                got.append(g)
            if len(set(got)) != len(got):
                seen = {}
                for i, g in enumerate(got):
                    if g in seen:
                        res.fail("from_particles:duplicate-topology", "chains %d and %d of from_particles(%s, %s) are the same tree: %s / %s" % (seen[g], i, top_s, fs, chains[seen[g]], chains[i]), dict(rp, index=[seen[g], i]))
                        break
                    seen[g] = i
            if want is not None and set(got) != want:
                miss = list(want - set(got))[:1]
                res.fail("from_particles:missing-topology", "from_particles(%s, %s): %d of %d binary trees produced; e.g. missing groupings %s" % (
                    top_s, fs, len(set(got) & want), len(want), [sorted(x) for x in miss[0]] if miss else None), rp)
            stats.setdefault(n, []).append(len(chains))
            # topology_same == equality of grouping sets (all pairs n<=5; seeded pairs above), both flags
            namekey = {str(f): f.name for f in finals}
            idkey = {str(f): str(f) for f in finals}
            gn = [name_groups(c, top, finals, namekey) for c in chains]
            gi = [name_groups(c, top, finals, idkey) for c in chains]
            if n <= (6 if hard else 5):
                pairs = itertools.combinations_with_replacement(range(len(chains)), 2)
            else:
                pairs = [(rnd.randrange(len(chains)), rnd.randrange(len(chains))) for _ in range(20000)]
            # whole-enumeration partition check (every pair, any n): chains with one topology_id must have one
            # multiset of grouping multisets and vice versa; a candidate pair is confirmed on topology_same itself
            cand = []
            for idn, gg in ((True, gn), (False, gi)):
                by_code, by_oracle = {}, {}
                for i, c in enumerate(chains):
                    kc, ko = repr(c.topology_id(idn)), repr(gg[i])
                    j = by_code.setdefault(kc, i)
                    if gg[j] != gg[i]:
                        cand.append((j, i))
                    j = by_oracle.setdefault(ko, i)
                    if repr(chains[j].topology_id(idn)) != kc:
                        cand.append((j, i))
            pairs = itertools.chain(cand[:50], pairs)
            nb = 0
            for i, j in pairs:
                for idn, gg in ((True, gn), (False, gi)):
                    s = chains[i].topology_same(chains[j], idn)
                    if s != (gg[i] == gg[j]) and nb < 3:
                        nb += 1
                        res.fail("topology_same:iff", "topology_same(identical=%s) = %s but the multisets of final-state groupings %s (%s / %s) for chains %s / %s of from_particles(%s, %s)" % (
                            idn, s, "coincide" if gg[i] == gg[j] else "differ", gg[i], gg[j], chains[i], chains[j], top_s, fs), dict(rp, index=[i, j], identical=idn))
            # table <-> chain round trip
            sel = range(len(chains)) if n <= 5 or hard else rnd.sample(range(len(chains)), 150)
            nb = 0
            for i in sel:
                c = chains[i]
                try:
                    t = c.sorted_table()
                    c2 = DecayChain.from_sorted_table(t)
                    ok1 = c2 == c
                    ok2 = c2.sorted_table() == t
                except Exception as e:
                    ok1 = ok2 = False
                    c2 = "%s: %s" % (type(e).__name__, e)
                if not (ok1 and ok2) and nb < 3:
                    nb += 1
                    res.fail("sorted_table:roundtrip", "from_sorted_table(sorted_table(c)) = %s for c = %s (chain equal: %s, table equal: %s)" % (c2, c, ok1, ok2), dict(rp, index=i))
    res.coverage["search_enumeration"] = stats

    # decay groups: every chain in exactly one class, map preserves mother-daughter relation, finals fixed
    n_groups = 150 if not hard else 1500
    n_ident = 0
    mutated = 0
    for gidx in range(n_groups + 1):
        if gidx == 0:  # fixed group of the listed finding, so that it is reported (or goes stale) deterministically
            top_s, fs, specs = KNOWN_GROUP["top"], KNOWN_GROUP["finals"], [Spec(d) for d in KNOWN_GROUP["chains"]]
        else:
            top_s, fs, specs = gen_group(rnd)
        if not specs:
            continue
        rp = {"top": top_s, "finals": fs, "chains": [sp.decays for sp in specs]}
        chains = [sp.build() for sp in specs]
        top = chains[0].top
        finals = chains[0].outs
        idkey = {str(f): str(f) for f in finals}
        want_classes = []
        for c in chains:
            g = name_groups(c, top, finals, idkey)
            if g not in want_classes:
                want_classes.append(g)
        names = [BaseParticle(f).name for f in fs]
        has_ident = len(set(names)) < len(names)
        n_ident += has_ident
        grp = DecayGroup(chains)
        keyp = "get_chains_map:identical-names" if has_ident else "get_chains_map"
        namekey = {str(f): f.name for f in finals}
        gname = [name_groups(c, top, finals, namekey) for c in chains]
        want_name_classes = []
        for g in gname:
            if g not in want_name_classes:
                want_name_classes.append(g)
        try:
            st_n = grp.topology_structure(identical=True, standard=False)
            bad_pair = None
            if len(st_n) != len(want_name_classes):
                # name the two chains that were merged / split
                for i, j in itertools.combinations(range(len(chains)), 2):
                    if chains[i].topology_same(chains[j], True) != (gname[i] == gname[j]):
                        bad_pair = (i, j)
                        break
                res.fail("topology_structure:classes:identical", "topology_structure(identical=True) gives %d classes, the chains have %d distinct multisets of name groupings%s: %s" % (
                    len(st_n), len(want_name_classes),
                    "" if bad_pair is None else " (chains %d and %d: topology_same=%s, groupings %s / %s)" % (
                        bad_pair[0], bad_pair[1], chains[bad_pair[0]].topology_same(chains[bad_pair[1]], True), gname[bad_pair[0]], gname[bad_pair[1]]),
                    [sp.line() for sp in specs]), dict(rp, identical=True))
        except Exception as e:
            res.fail("topology_structure:raises", "topology_structure(identical=True) raises %s(%s) on the group %s" % (type(e).__name__, e, [sp.line() for sp in specs]), rp)
        try:
            st = grp.topology_structure()
            if len(st) != len(want_classes):
                res.fail("topology_structure:classes", "topology_structure gives %d classes, chains have %d distinct grouping sets: %s" % (len(st), len(want_classes), specs and [sp.line() for sp in specs]), rp)
            before = (top.chain_decay(), [len(f.creators) for f in finals])
            cm = grp.get_chains_map()
            after = (top.chain_decay(), [len(f.creators) for f in finals])
            mutated += before != after
        except Exception as e:
            res.fail(keyp + ":raises", "get_chains_map raises %s(%s) on the group %s" % (type(e).__name__, e, [sp.line() for sp in specs]), rp)
            continue
        for ci, c in enumerate(chains):
            owners = [k for k, tmp in enumerate(cm) if any(j is c for j in tmp)]
            if len(owners) != 1:
                res.fail(keyp + ":not-exactly-one-class", "chain %s is assigned to %d topology classes (%s) in group %s" % (c, len(owners), owners, [sp.line() for sp in specs]), dict(rp, index=ci))
                continue
            tmp = cm[owners[0]]
            m = [v for j, v in tmp.items() if j is c][0]
            rep = st[owners[0]]
            decs = {(str(d.core), tuple(sorted(str(o) for o in d.outs))) for d in c}
            for d in rep:
                try:
                    img = (str(m[d.core]), tuple(sorted(str(m[o]) for o in d.outs)))
                except KeyError:
                    img = None
                if img not in decs or m.get(d) is None or (str(m[d].core), tuple(sorted(str(o) for o in m[d].outs))) != img:
                    res.fail(keyp + ":map-not-a-tree-morphism", "map of class %s to chain %s sends decay %s to %s which is not a decay of the chain (decay map: %s)" % (rep, c, d, img, m.get(d)), dict(rp, index=ci))
                    break
            for f in finals:
                if m.get(f) != f:
                    res.fail(keyp + ":final-not-fixed", "map of class %s to chain %s sends final %s to %s" % (rep, c, f, m.get(f)), dict(rp, index=ci))
                    break
    res.coverage["search_groups"] = n_groups
    res.coverage["search_groups_with_identical_names"] = n_ident
    res.notes.append("topology_map side effect (designer's note F): get_chains_map changed top.chain_decay()/creators of the mapped particles in %d of %d groups (test decays are built with disable=False); results of repeated topology_map/get_chains_map calls are unchanged. Not part of the C14 statement; relevant to C19, patch proposal fix_topology_map_no_register.diff" % (mutated, n_groups))


def replay(ctx, payload):
    from tf_pwa.particle import BaseParticle, DecayChain, DecayGroup
    r = payload.get("replay") or {}
    print(payload.get("what"))
    if "chains" in r:
        specs = [Spec(d) for d in r["chains"]]
        g = DecayGroup([sp.build() for sp in specs])
        print("topology_structure:", g.topology_structure())
        if r.get("identical"):
            top, finals = g.chains[0].top, g.chains[0].outs
            key = {str(f): f.name for f in finals}
            gname = [name_groups(c, top, finals, key) for c in g.chains]
            want = []
            for x in gname:
                if x not in want:
                    want.append(x)
            st_n = g.topology_structure(identical=True, standard=False)
            print("topology_structure(identical=True): %d classes; distinct multisets of name groupings: %d" % (len(st_n), len(want)))
            for c, x in zip(g.chains, gname):
                print(" ", c, x)
            return 0 if len(st_n) == len(want) else 1
        try:
            cm = g.get_chains_map()
        except Exception as e:
            print("get_chains_map raises %s: %s" % (type(e).__name__, e))
            return 1
        bad = 0
        for c in g.chains:
            owners = [k for k, tmp in enumerate(cm) if any(j is c for j in tmp)]
            print(c, "-> classes", owners)
            bad += len(owners) != 1
        return 1 if bad else 0
    if "finals" in r:
        top = BaseParticle(r["top"])
        finals = [BaseParticle(f) for f in r["finals"]]
        cs = DecayChain.from_particles(top, finals)
        n = len(finals)
        got = [tree_groupings(c, top, finals) for c in cs]
        print("chains:", len(cs), "expected", dfact(2 * n - 3), "distinct trees:", len({g for g, _ in got}), "malformed:", sum(1 for _, p in got if p))
        idx = r.get("index")
        if idx is not None:
            for i in (idx if isinstance(idx, list) else [idx]):
                print(i, cs[i], got[i][1])
        ok = len(cs) == dfact(2 * n - 3) and len({g for g, _ in got}) == len(cs) and not any(p for _, p in got)
        if isinstance(idx, list) and "identical" in r:
            s = cs[idx[0]].topology_same(cs[idx[1]], r["identical"])
            print("topology_same:", s)
            key = {str(f): (f.name if r["identical"] else str(f)) for f in finals}
            ok = ok and s == (name_groups(cs[idx[0]], top, finals, key) == name_groups(cs[idx[1]], top, finals, key))
        return 0 if ok else 1
    print(payload)
    return 0


MANIFEST = {
    "text": "Lean theorems: for EVERY n>=2 the modelled edge-insertion enumeration yields exactly (2n-3)!! graphs/chains (induction over the insertion sequence), and every enumerated graph is the edge multiset of a full binary tree hanging under the top particle whose leaves are exactly the given finals (all n); for pairwise distinct finals these (2n-3)!! trees have pairwise different sets of final-state groupings (all n: removing the last inserted leaf is a left inverse of insertion, insertion on different edges gives different grouping sets); topology_same a b <-> the multisets of final-state groupings are permutations of each other, for all chains and both identical flags; topology classes of a group partition its chains (all groups). Kernel-decided for n<=5 (whole enumeration, 1+3+15+105 chains): from_particles returns, every chain is a binary tree with the given leaves, its topology_id is the grouping set of the corresponding tree, topology ids pairwise distinct, table round trip. The model is tied to particle.py by exact comparison of the produced lists (order included) for n<=6 (7 thorough) and of every topology function on seeded decay groups.",
    "note": "Model = TfPwaV.Topology (hand-written mirror of _Chain_Graph / from_particles / sorted_table / from_sorted_table / topology_id / standard_topology / topology_map / topology_structure / get_chains_map). The step graph -> chain -> sorted_table -> topology_id (that the id of the i-th chain is the grouping set of the i-th tree) and the chain-level tree statement are kernel-checked for n<=5 only (statement kept as FULL in Props/C14.lean); for n=6 (7 thorough) they are checked exhaustively on the real code. An independent Python oracle (recursive set partition) checks count, distinctness, leaf sets, topology_same iff equal grouping sets and the class assignment on the real code. Trusted: Lean kernel, standard axioms, harness encoding.",
    "technique": "Lean 4 proof (induction for all n; pairwise different grouping sets for all n by a left-inverse argument; decide +kernel over the whole n<=5 enumeration for the chain level) + exhaustive differential correspondence with the implementation + independent oracle search",
}
