"""C15 — line shapes equal their documented formulas."""
import math
from fractions import Fraction

import numpy as np

import common as C

PID = "C15"
DRIVER = [("C15", ["TfPwaV.Gen.LineShapeF", "TfPwaV.Model.Bessel"], "(LineShapeF.handle rest).orElse fun _ => Bessel.handle rest"),
          ("C15x", "TfPwaV.Gen.LineShapeXF", "LineShapeF.handleX"),
          ("C15i", "TfPwaV.Gen.InterpAmpF", "InterpAmpF.handle"),
          ("C15e", "TfPwaV.Gen.LineShapeEF", "LineShapeF.handleE")]
LEAN_TARGETS = ["TfPwaV.Props.C15", "TfPwaV.Props.C15b", "TfPwaV.Props.C15c", "TfPwaV.Props.C15d", "TfPwaV.Props.C15e", "TfPwaV.Gen.LineShapeF",
                "TfPwaV.Gen.LineShapeXF", "TfPwaV.Gen.LineShapeEF", "TfPwaV.Gen.InterpAmpF", "TfPwaV.Model.Bessel"]
PROP_MODULES = ["TfPwaV.Props.C15", "TfPwaV.Props.C15b", "TfPwaV.Props.C15c", "TfPwaV.Props.C15d", "TfPwaV.Props.C15e"]
ALL_MODULES = ["TfPwaV.Model.Bessel", "TfPwaV.Proofs.LineShape", "TfPwaV.Props.C15", "TfPwaV.Props.C15b", "TfPwaV.Props.C15c", "TfPwaV.Props.C15d",
               "TfPwaV.Props.C15e", "TfPwaV.Proofs.ScalarR"]
ASSUMPTIONS = [
    "IEEE double evaluation of the same formula text (Lean Float vs TensorFlow) agrees to 1e-10 relative to |value| (observed worst 5e-13); inputs where |P_L(z)| < 1e-4 sum|c_i z^i| (near a real zero of the Blatt-Weisskopf polynomial at negative q^2) are counted as ill-conditioned and skipped; mass grids stay >= 1.5e-3 (relative) away from two-body thresholds",
    "theorems are over the reals (Mathlib R and C) with Lean's totalised division: at an exactly vanishing denominator both sides of an `_eq_spec` theorem are 0 while IEEE gives NaN/inf; such inputs are outside the claim (hypotheses name the denominator where a theorem needs it)",
    "x**n is repeated multiplication (kpowN = x^n proved), tanh is (e^x-e^-x)/(e^x+e^-x) (= Real.tanh proved), float32 rounding is the identity over the reals (kf32), the GS constant 3.14159265359 is the code's own literal",
    "GS_rho: proved that GS, hFun, dh_dsFun, dFun, fsFun are the docstring's R, h, dh/dm^2, D, f above the two-pion threshold, reading the docstring's 2 m_pi as c_daug2Mass + c_daug3Mass and pi as the code's literal 3.14159265359 (proved within 2.1e-13 of Real.pi); dh_dsFun is proved to be d hFun/ds (HasDerivAt) for equal daughter masses only - for unequal masses d(k^2)/ds = 1/4 - S^2 D^2/(4 s^2) (proved), so with the default m_pi+ != m_pi0 the documented dh/ds formula is an approximation at the 4e-6 level (not a code-vs-documentation difference); at / below the two-pion threshold twoBodyCMmom is 0 (proved) and GS divides by it - outside the claim",
    "MultiBWR (sum_k c_ik / (m_k^2 - m^2 - i m_k Gamma_k) times barrier, any list lengths) and BWR_below (q0^2 from the documented ad-hoc mass) are proved on top of BWR2_eq_spec; how Particle.get_amp obtains |q|^2, the parent mass and m3 from the decay chain is tied by correspondence only",
    "sympy denominators are evaluated numerically with sympy.lambdify(numpy) and compared with the Float instance of the Lean *_dom functions (BW, BWR, BWR_coupling, BWR_LS, Flatte, FlatteC) and with 1/lineShape of the implementation; sympy itself (incl. its principal branch sqrt(-x) = i sqrt(x) used for Flatte below a channel threshold) is not verified; the Lean dom_reciprocal theorems are about the Lean *_dom functions",
    "Known findings are attributed by key only when the listed variant (conjugate / m-over-m0 / float32 constant) reproduces the implementation at 2e-9 on every deviating point; any other deviation of the same model is reported as <model>:value",
    "round 3 (FlatteGen, Flatte2, LASS, MultiBW, Kmatrix, KMatrixSingleChannel, KmatrixSimple): FlatteGen cut_phsp - the docstring zeroes q_i where the radicand is negative, the code where m < ma+mb; proved equivalent for m > |ma-mb| (flatteGen_cut_condition), the correspondence/oracle grid of cut_phsp configurations stays above |ma-mb|. LASS: the docstring's a, r are read as |a|, |r| (the code applies tf.abs). KMatrixSingleChannel evaluates a sympy expression after sympy.together + cse: the Lean function is the un-reordered P/(1 - iK) (agreement 1e-10 on grids 2e-3 away from the poles); below threshold the momentum is the clamped get_relative_p (= 0). KmatrixSimple: Lean model for one and two channels (adjugate instead of tf.linalg.inv; grids 2e-2 away from poles/thresholds), three channels by the numpy oracle only; the docstring's `+ i epsilon` is read as the code's `- i epsilon` (epsilon = 1e-10, Feynman prescription; difference 2e-10/|m_a^2 - s| relative). Kmatrix (amp/base.py) has no docstring: its specification is the production-vector form proved in kmBetaTerm_eq_P / Kmatrix_eq_form",
    "interpolation family: the Float correspondence evaluates Particle.__call__ on seeded uniform (min_m/max_m/interp_N) and non-uniform (points=) node sets, at the nodes themselves for the models with explicit comparisons (interp, interp_c, interp_hist, interp1d3, interp_l3, interp_lagrange, spline_c); the index-based models (hist_idx, spline_c_idx, sppchip, linear_npy/txt) stay 1e-6 (relative) off the nodes because tf.histogram_fixed_width_bins rounds (m - lo)/width and tf.raw_ops.Bucketize keeps its `boundaries` attribute in float32 (node positions rounded at 6e-8) - the bin lookup itself (Bucketize / histogram_fixed_width_bins) is modelled as 'number of nodes <= m' and is NOT verified at the nodes; errors of interpolants are measured relative to max(|value|, max |node value|) (they pass through zero). hist_idx outside the node range wraps around (not documented; correspondence only); with_bound=True is exercised for spline_c / spline_c_idx only (interp_c, interp_hist, interp1d3, interp_lagrange raise a shape error and hist_idx an index error with it - configuration errors, not values)",
    "spline tables: spline_xi_matrix is run on 5 small-rational node sets (4, 5, 6, 8 uniform nodes and 6 non-uniform); each float64 entry is replaced by the nearest rational with denominator <= 1e7 (distance < 1e-11 checked on every run, else broke) and the Lean theorems spline_tables_ok / splineC_at_nodes are about these rationals; np.linalg.inv inside spline_xi_matrix and the seeded node sets of the correspondence are covered by the scipy CubicSpline(bc_type='not-a-knot') oracle at 2e-9 only",
    "registry inventory: every module of tf_pwa.amp is imported and config.get_config('particle_model') is read, plus a textual scan of tf_pwa/**/*.py for @register_particle / @regist_particle / @simple_resonance decorators with a literal name; a model registered under a computed name in a module outside tf_pwa.amp that nobody imports is not seen",
    "round 5 (KMatrixSplitLS, KmatrixSimple with 3 channels, FlatteGen/Flatte2 sympy denominators, GS below 2 m_pi, hist_idx outside, interp_l3): the Lean KMatrixSplitLS1/2 mirror the CODE of get_ls_amp (not its docstring) for one and two partial waves and any number of poles (correspondence: 1-3 poles, l <= 3, worst 1.5e-13); tf.linalg.inv is replaced by 1/x, the 2x2 adjugate and Cramer's rule (3 channels of KmatrixSimple) - agreement at 1e-10 on grids 2e-2 away from poles/thresholds; `x ** (l/2)` is modelled as x^(l div 2) [* sqrt x]; three or more partial waves of KMatrixSplitLS and four or more channels of KmatrixSimple are outside the Lean model (KmatrixSimple: numpy oracle only). get_sympy_dom of FlatteGen/Flatte2 is evaluated with sympy.lambdify(numpy) with EVERY parameter complex (principal root for q_i0 of a channel closed at m0), sheet = all bits set, real m only: poles at complex mass are outside the model. KMatrixSingleChannel: the sympy expression `symbol` and numerator/denominator of sympy.fraction(symbol) are evaluated by numpy and compared with get_amp (2e-9); that the pole equation of a pole search is `denominator = 0` at complex m is not modelled (for real m the denominator never vanishes: KMatrixSingle_den_ne_zero). GS below the two-pion threshold: the theorem needs |d2 - d3| <= m <= d2 + d3 and m0 above threshold; m0 at/below threshold divides by k(m0) = 0 (NaN in the implementation) - outside the claim. hist_idx outside the node range and interp_l3 have no documented behaviour: the theorems state what the code does (wrap-around to the opposite end bin; parameter t at the mid point of bin t), interp_l3 / hist_idx bins exactly on 6 rational node sets (decide +kernel) and for all node lists outside the range",
]
LMAX = 8
TOL_X = 1e-10   # Lean Float vs implementation (same formula text; observed worst 5e-13)
TOL_S = 2e-9    # independent numpy formula vs implementation
COND_MIN = 1e-4  # |P_L(z)| / sum |c_i z^i| below this: cancellation in the Blatt-Weisskopf polynomial at negative z, skipped (counted)

KEY_BWR2 = "BWR2:conjugate"
KEY_BELOW = "BWR_below:conjugate"
KEY_LS2 = "BWR_LS2:conjugate"
KEY_MULTI = "MultiBWR:conjugate"
KEY_LS = "BWR_LS:width-m-over-m0"
KEY_GS32 = "GS_rho:float32-constants"
KEY_CP32 = "BWR_coupling:float32-normalisation"
KEY_Q032 = "Bprime_q2:python-float-q0:float32"
PI32 = 3.1415927410125732  # float32(3.14159265359)


# --------------------------------------------------------------------------------------------
# translator: Blatt-Weisskopf coefficient tables from the current source
# --------------------------------------------------------------------------------------------

def _interp_coeffs(xs, ys):
    """exact Lagrange interpolation (Fractions): coefficients highest power first"""
    n = len(xs)
    coef = [Fraction(0)] * n
    for i in range(n):
        # basis polynomial prod_{j!=i} (x - xj)/(xi - xj), ascending coefficients
        b = [Fraction(1)]
        den = Fraction(1)
        for j in range(n):
            if j == i:
                continue
            b = [Fraction(0)] + b
            for k in range(len(b) - 1):
                b[k] -= xs[j] * b[k + 1]
            den *= xs[i] - xs[j]
        for k in range(n):
            coef[k] += ys[i] * b[k] / den
    return coef[::-1]


def extract_tables():
    """Run the real functions: breit_wigner.Bprime_polynomial on exact integer points (float64 arithmetic is
    exact there) + exact interpolation, formula.Bprime_polynomial on a sympy symbol."""
    import sympy
    from tf_pwa import breit_wigner as bw
    from tf_pwa import formula
    tf_tab, sym_tab, notes = {}, {}, []
    for L in range(LMAX + 1):
        half = (L + 4) // 2
        pts = list(range(-half, half + 1))  # >= L+4 points: L+1 for the fit, the rest detect a higher degree
        vals = np.asarray(bw.Bprime_polynomial(L, np.array(pts, dtype=np.float64)))
        vals = np.broadcast_to(vals, (len(pts),))
        ys = [Fraction(float(v)) for v in vals]
        xs = [Fraction(p) for p in pts]
        co = _interp_coeffs(xs[: L + 1], ys[: L + 1])
        for x, y in zip(xs, ys):
            if sum(c * x ** (L - i) for i, c in enumerate(co)) != y:
                notes.append("breit_wigner.Bprime_polynomial(%d, z) is not a polynomial of degree <= %d in z" % (L, L))
                break
        tf_tab[L] = co
        z = sympy.Symbol("z")
        e = sympy.Poly(sympy.expand(formula.Bprime_polynomial(L, z)), z)
        cs = [Fraction(str(sympy.nsimplify(c, rational=True))) for c in e.all_coeffs()]
        cs = [Fraction(0)] * (L + 1 - len(cs)) + cs
        sym_tab[L] = cs
    return tf_tab, sym_tab, notes


def _lean_table(name, doc, tab, notes):
    lines = ["/-- %s -/" % doc, "def %s : Nat → List Nat" % name]
    for L in sorted(tab):
        ent = []
        for c in tab[L]:
            if c.denominator != 1 or c < 0:
                notes.append("%s[%d] has the coefficient %s (not a natural number); emitted as 0" % (name, L, c))
                ent.append("0")
            else:
                ent.append(str(c.numerator))
        lines.append("  | %d => [%s]" % (L, ", ".join(ent)))
    lines.append("  | _ => []")
    return "\n".join(lines)


def translate(ctx, res):
    import os
    tf_tab, sym_tab, notes = extract_tables()
    txt = ("-- GENERATED by harness/c15.py (translate) from the current tf_pwa source; do not edit\n"
           "namespace TfPwaV.BprimeTable\n%s\n%s\nend TfPwaV.BprimeTable\n" % (
               _lean_table("tfCoeff", "coefficients used by `tf_pwa.breit_wigner.Bprime_polynomial(l, z)`, highest power of z first", tf_tab, notes),
               _lean_table("symCoeff", "coefficients used by `tf_pwa.formula.Bprime_polynomial(l, z)`, highest power of z first", sym_tab, notes)))
    C.write_if_changed(os.path.join(C.GEN, "BprimeTable.lean"), txt)
    ctx.c15_tables = (tf_tab, sym_tab)
    for n in notes:
        res.notes.append(n)
    if notes:
        res.broke("translator: Bprime table not representable", notes[:5])
    info = {"BprimeTable": {"tfCoeff": {L: [str(c) for c in v] for L, v in tf_tab.items()},
                            "symCoeff": {L: [str(c) for c in v] for L, v in sym_tab.items()}}}
    import c15_x
    info.update(c15_x.translate_x(ctx, res))  # spline coefficient tables (Gen/SplineTable.lean)
    return info


# --------------------------------------------------------------------------------------------
# independent oracle (numpy, written from the docstrings)
# --------------------------------------------------------------------------------------------

def theta_abs2_coeffs(L):
    """|theta_L(i w)|^2 = theta_L(x) theta_L(-x) at x^2 = -w^2, ascending in z = w^2 (exact ints)."""
    f = math.factorial
    a = [Fraction(f(L + k), f(L - k) * f(k) * 2 ** k) for k in range(L + 1)]  # coefficient of x^(L-k)
    asc = a[::-1]  # ascending in x
    neg = [c * (-1) ** j for j, c in enumerate(asc)]
    prod = [Fraction(0)] * (2 * L + 1)
    for i, ci in enumerate(asc):
        for j, cj in enumerate(neg):
            prod[i + j] += ci * cj
    out = []
    for j in range(L + 1):
        assert prod[2 * j + 1] == 0 if 2 * j + 1 < len(prod) else True
        c = prod[2 * j] * (-1) ** j
        assert c.denominator == 1
        out.append(int(c))
    return out  # out[j] multiplies z^j


_T_CACHE = {}


def T(L, z):
    """|theta_L(i w)|^2 as a function of z = w^2 (any real z), with a conditioning estimate."""
    if L not in _T_CACHE:
        _T_CACHE[L] = theta_abs2_coeffs(L)
    co = _T_CACHE[L]
    z = np.asarray(z, dtype=np.float64)
    val = np.zeros_like(z)
    mag = np.zeros_like(z)
    for j, c in enumerate(co):
        val = val + c * z ** j
        mag = mag + abs(c) * np.abs(z) ** j
    return val, np.abs(val) / mag


def s_q(m, m1, m2):
    m = np.asarray(m, dtype=np.float64)
    return np.sqrt(np.maximum((m ** 2 - (m1 + m2) ** 2) * (m ** 2 - (m1 - m2) ** 2), 0.0)) / (2 * m)


def s_q2(m, m1, m2):
    m = np.asarray(m, dtype=np.float64)
    return (m ** 2 - (m1 + m2) ** 2) * (m ** 2 - (m1 - m2) ** 2) / (4 * m ** 2)


def s_Bprime2(L, q2, q02, d):
    """B'_L(q,q0,d)^2 = |theta_L(i q0 d)|^2 / |theta_L(i q d)|^2, returns (value, conditioning)"""
    a, ca = T(L, q02 * d * d)
    b, cb = T(L, q2 * d * d)
    return a / b, np.minimum(ca, cb)


def s_Gamma(L, m, g0, q, q0, m0, d):
    b2, _ = s_Bprime2(L, q * q, q0 * q0, d)
    return g0 * (q / q0) ** (2 * L + 1) * (m0 / m) * b2


def s_BW(m, m0, g0):
    return 1 / (m0 ** 2 - m ** 2 - 1j * m0 * g0)


def s_BWR(L, m, m0, g0, q, q0, d):
    return 1 / (m0 ** 2 - m ** 2 - 1j * m0 * s_Gamma(L, m, g0, q, q0, m0, d))


def s_Gamma2(L, m, g0, q2, q02, m0, d):
    """Gamma with (q/q0)^(2L+1) continued to q^2<0 as (q2/q02)^L sqrt(q2/q02), principal root (what the code documents)"""
    b2, cond = s_Bprime2(L, q2, q02, d)
    r = np.asarray(q2 / q02, dtype=np.complex128)
    return g0 * r ** L * np.sqrt(r) * (m0 / m) * b2, cond


def s_BWR2(L, m, m0, g0, q2, q02, d):
    g, cond = s_Gamma2(L, m, g0, q2, q02, m0, d)
    return 1 / (m0 ** 2 - m ** 2 - 1j * m0 * g), cond


def s_BWR_normal(L, m, m0, g0, q2, q02, d):
    g, cond = s_Gamma2(L, m, g0, q2, q02, m0, d)
    return np.sqrt(m0 * g) / (m0 ** 2 - m ** 2 - 1j * m0 * g), cond


def s_coupling(L, m, m0, g0, q, d, single=False):
    b2, _ = s_Bprime2(L, q * q, (1 / d) ** 2, d)
    if single:  # known variant: the constant P_L(1) evaluated in float32
        b2 = b2 * normal32(L) / T(L, 1.0)[0]
    return 1 / (m0 ** 2 - m ** 2 - 1j * m0 * g0 * (q / m) * q ** (2 * L) * b2)


def f32(x):
    return float(np.float32(x))


def normal32(L):
    """P_L(1.0) as tf.math.polyval evaluates it on float32 tensors"""
    p = np.float32(0)
    for c in theta_abs2_coeffs(L)[::-1]:
        p = np.float32(np.float32(c) + p * np.float32(1))
    return float(p)


def s_GS_full(L, m, m0, g0, q, q0, d, c2, c3, pi=math.pi):
    sm = c2 + c3
    k = lambda mm: s_q(mm, c2, c3)
    h = lambda mm: 2 / pi * k(mm) / mm * np.log((mm + 2 * k(mm)) / sm)
    k0 = k(m0)
    dh = h(m0) * (1 / (8 * k0 ** 2) - 1 / (2 * m0 ** 2)) + 1 / (2 * pi * m0 ** 2)
    f = g0 * m0 ** 2 / k0 ** 3 * (k(m) ** 2 * (h(m) - h(m0)) + (m0 ** 2 - m ** 2) * k0 ** 2 * dh)
    mpi_sq = sm * sm / 4
    D = 3 / pi * mpi_sq / k0 ** 2 * np.log((m0 + 2 * k0) / sm) + m0 / (2 * pi * k0) - mpi_sq * m0 / (pi * k0 ** 3)
    gam = s_Gamma(L, m, g0, q, q0, m0, d)
    return (1 + D * g0 / m0) / (m0 ** 2 - m ** 2 + f - 1j * m0 * gam)


def s_flatte_q(m, ma, mb):
    p = (m ** 2 - (ma + mb) ** 2) * (m ** 2 - (ma - mb) ** 2)
    return np.where(p >= 0, np.sqrt(np.abs(p)) / (2 * m) + 0j, 1j * np.sqrt(np.abs(p)) / (2 * m))


def s_Flatte(sign, m, m0, chans):
    tot = 0
    for ma, mb, g in chans:
        tot = tot + g * s_flatte_q(m, ma, mb) / m
    return 1 / (m0 ** 2 - m ** 2 + sign * 1j * m0 * tot)


def s_factor_gamma(thetas):
    out, f = [], 1.0
    for t in thetas:
        out.append(f * math.cos(t))
        f *= math.sin(t)
    out.append(f)
    return out


def s_BWR_LS(doc, ls, thetas, m, m0, g0, m1, m2, d):
    """docstring of ParticleBWRLS: R_i = g_i / (m0^2 - m^2 - i m0 G0 rho/rho0 sum g_i^2), rho = 2q/m.
    doc=False gives the variant the code computes without fix_bug1 (m/m0 instead of m0/m)."""
    q, q0 = s_q(m, m1, m2), s_q(m0, m1, m2)
    gam = s_factor_gamma(thetas)
    gi = []
    for g, l in zip(gam, ls):
        b2, _ = s_Bprime2(l, q * q, q0 * q0, d)
        gi.append(g * (q / q0) ** l * np.sqrt(b2))
    rr = (q / m) / (q0 / m0) if doc else (q / q0) * (m / m0)
    dom = m0 ** 2 - m ** 2 - 1j * m0 * g0 * rr * sum(x * x for x in gi)
    return [x / dom for x in gi], dom


# --------------------------------------------------------------------------------------------
# the implementation: particles built from the repo's own factories
# --------------------------------------------------------------------------------------------

class Built:
    pass


def build(model, cfg, J=None, P=None, dau=((0, -1), (0, -1)), parent=None, **extra):
    """particle `model` with mass/width from cfg decaying to two daughters; L is fixed by J^P -> 0- 0- (l = J)"""
    from tf_pwa.amp import get_decay, get_particle
    L = cfg.get("L", 0)
    if J is None:
        J, P = L, (1 if L % 2 == 0 else -1)
    kw = dict(extra)
    if "mass" not in kw and cfg.get("m0") is not None:
        kw["mass"] = cfg["m0"]
    if "width" not in kw and cfg.get("g0") is not None:
        kw["width"] = cfg["g0"]
    a = get_particle("R", J=J, P=P, model=model, **kw)
    b = get_particle("b", mass=cfg["m1"], J=dau[0][0], P=dau[0][1])
    c = get_particle("c", mass=cfg["m2"], J=dau[1][0], P=dau[1][1])
    out = Built()
    if parent is not None:
        A = get_particle("A", J=J, P=-P, mass=parent[0])
        D = get_particle("D", J=0, P=-1, mass=parent[1])
        out.dec0 = get_decay(A, [a, D])
    dec = get_decay(a, [b, c])
    a.init_params()
    dec.init_params()
    out.p, out.dec = a, dec
    return out


def cnum(x):
    return np.asarray(x.numpy() if hasattr(x, "numpy") else x, dtype=np.complex128)


def fl(x):
    return " ".join(C.f2h(v) for v in x)


def parse_c(line):
    v = [C.h2f(x) for x in line.split()]
    return np.array([complex(v[i], v[i + 1]) for i in range(0, len(v), 2)])


def bwr2_is_fixed():
    """observe the implementation once: sign of Im BWR2 at m = m0 (documented value +i/(m0 G0))"""
    from tf_pwa import breit_wigner as bw
    v = complex(cnum(bw.BWR2(np.array([1.0]), 1.0, 1.0, np.array([1.0]), 1.0, 0, 3.0))[0])
    return v.imag > 0


def gs_is_f32():
    """does GS use the float32-rounded pi / pion masses (tf.cast of Python floats)?"""
    from tf_pwa import breit_wigner as bw
    m, m0, g0, d = np.array([0.9]), np.array([0.77]), np.array([0.15]), 3.0
    c2, c3 = 0.13957039, 0.1349768
    q, q0 = s_q(m, c2, c3), s_q(m0, c2, c3)
    v = cnum(bw.GS(m, m0, g0, q, q0, 1, d))[0]
    a = s_GS_full(1, m, m0, g0, q, q0, d, c2, c3)[0]
    b = s_GS_full(1, m, m0, g0, q, q0, d, f32(c2), f32(c3), pi=PI32)[0]
    return abs(v - b) < abs(v - a)


def coupling_is_f32():
    from tf_pwa.amp.core import variable_scope
    cfg = {"L": 8, "m1": 0.3, "m2": 0.4, "m0": 1.5, "g0": 0.1}
    m = np.array([1.5])
    with variable_scope():
        v = cnum(build("BWR_coupling", cfg).p(m))[0]
    q = s_q(m, 0.3, 0.4)
    a = s_coupling(8, m, 1.5, 0.1, q, 3.0)[0]
    b = s_coupling(8, m, 1.5, 0.1, q, 3.0, single=True)[0]
    return abs(v - b) < abs(v - a)


def observe():
    import c15_x
    obs = {"bwr2_fixed": bwr2_is_fixed(), "gs32": gs_is_f32(), "cp32": coupling_is_f32()}
    obs.update(c15_x.observe_x())  # multibw_bw, i1d3_fixed
    import c15_e
    obs.update(c15_e.observe_e())  # kms_matvec, fg_dom_cut
    return obs


def gen_cfg(rng, L):
    m1 = float(rng.uniform(0.1, 1.0))
    m2 = float(rng.uniform(0.1, 1.0))
    if rng.random() < 0.25:
        m2 = m1
    S = m1 + m2
    m0 = S + float(rng.uniform(0.15, 1.5))
    g0 = float(rng.uniform(0.01, 0.4))
    return {"L": int(L), "m1": m1, "m2": m2, "m0": m0, "g0": g0}


def mass_grid(rng, cfg, n):
    S = cfg["m1"] + cfg["m2"]
    m0, g0 = cfg["m0"], cfg["g0"]
    fixed = [m0, S * (1 + 2e-3), S + 0.05, m0 - g0 / 2, m0 + g0 / 2, S + 3.0]
    rnd = list(S + rng.uniform(0.01, 2.5, size=max(n - len(fixed), 1)))
    g = [x for x in fixed + rnd if x > S * (1 + 1.5e-3)]
    return np.array(g, dtype=np.float64)


# ---- model table: how to evaluate the implementation, the Lean model and the documented formula ----

def cases_for(rng, quick, obs):
    """yield dicts {model, cfg, m, impl(list of complex arrays), lean(list of lines, n outputs per line), spec, key…}"""
    from tf_pwa import breit_wigner as bw
    from tf_pwa.amp.core import get_relative_p, get_relative_p2, variable_scope
    ncfg = 2 if quick else 12
    fixed = obs["bwr2_fixed"]
    fixs = "1" if fixed else "0"
    g32 = "1" if obs["gs32"] else "0"
    c32 = "1" if obs["cp32"] else "0"
    for L in range(LMAX + 1):
        for ic in range(ncfg):
            cfg = gen_cfg(rng, L)
            m = mass_grid(rng, cfg, 10 if quick else 24)
            m0, g0, m1, m2, d = cfg["m0"], cfg["g0"], cfg["m1"], cfg["m2"], 3.0
            q, q0 = s_q(m, m1, m2), s_q(m0, m1, m2)
            args = lambda mm: fl([mm, m0, g0, m1, m2, d])
            for model in ("BW", "BWR", "default", "BWR2", "BWR_normal", "BWR_coupling", "GS_rho", "one", "x"):
                if model == "GS_rho" and not (m0 > 0.2746 + 0.15):
                    continue
                with variable_scope():
                    b = build(model, cfg)
                    impl = cnum(b.p(m))
                    extra = {}
                    if model in ("BW", "BWR", "default", "BWR_coupling"):
                        extra["dom"] = sympy_dom_eval(b.p, m)
                c = {"model": model, "cfg": cfg, "m": m, "impl": [impl], "conj_key": None}
                c.update(extra)
                if model == "BW":
                    c["lean"] = ["C15 bw " + fl([mm, m0, g0]) for mm in m]
                    c["spec"] = [s_BW(m, m0, g0)]
                    c["lean_dom"] = ["C15 bwdom " + fl([mm, m0, g0]) for mm in m]
                    c["family"] = True
                elif model in ("BWR", "default"):
                    c["lean"] = ["C15 callbwr %d %s" % (L, args(mm)) for mm in m]
                    c["spec"] = [s_BWR(L, m, m0, g0, q, q0, d)]
                    c["lean_dom"] = ["C15 bwrdom %d %s" % (L, args(mm)) for mm in m]
                    c["family"] = True
                elif model == "BWR2":
                    c["lean"] = ["C15 callbwr2 %s %d %s" % (fixs, L, args(mm)) for mm in m]
                    c["spec"] = [s_BWR2(L, m, m0, g0, q * q, q0 * q0, d)[0]]
                    c["conj_key"] = KEY_BWR2
                    c["family"] = True
                elif model == "BWR_normal":
                    c["lean"] = ["C15 callbwrn %d %s" % (L, args(mm)) for mm in m]
                    c["spec"] = [s_BWR_normal(L, m, m0, g0, q * q, q0 * q0, d)[0]]
                elif model == "BWR_coupling":
                    c["lean"] = ["C15 callcoupling %s %d %s" % (c32, L, args(mm)) for mm in m]
                    c["spec"] = [s_coupling(L, m, m0, g0, q, d)]
                    c["variants"] = [(KEY_CP32, "evaluates the constant P_L(1) in float32 (Bprime_polynomial(l, 1.0) with a Python float), relative error up to 6e-8 for L >= 6", [s_coupling(L, m, m0, g0, q, d, single=True)])]
                    c["lean_dom"] = ["C15 couplingdom %d %s" % (L, args(mm)) for mm in m]
                elif model == "GS_rho":
                    c2, c3 = 0.13957039, 0.1349768
                    c["lean"] = ["C15 callgs %s %d %s" % (g32, L, fl([mm, m0, g0, m1, m2, d, c2, c3])) for mm in m]
                    c["spec"] = [s_GS_full(L, m, m0, g0, q, q0, d, c2, c3)]
                    c["variants"] = [(KEY_GS32, "uses pi and the pion masses rounded to float32 (tf.cast of Python floats), relative error ~3e-8", [s_GS_full(L, m, m0, g0, q, q0, d, f32(c2), f32(c3), pi=PI32)])]
                elif model == "one":
                    c["lean"] = ["C15 one " + fl([mm]) for mm in m]
                    c["spec"] = [np.ones_like(m) + 0j]
                elif model == "x":
                    c["lean"] = ["C15 x " + fl([mm]) for mm in m]
                    c["spec"] = [m + 0j]
                yield c

            # exp / exp_com: free parameters a, b
            for model in ("exp", "exp_com"):
                with variable_scope() as vm:
                    b = build(model, cfg)
                    pa = float(rng.uniform(-2, 2))
                    pb = float(rng.uniform(-8, 8))
                    vm.set("R_a", pa)
                    if model == "exp_com":
                        vm.set("R_b", pb)
                    impl = cnum(b.p(m))
                if model == "exp":
                    yield {"model": model, "cfg": dict(cfg, a=pa), "m": m, "impl": [impl], "conj_key": None,
                           "lean": ["C15 exp " + fl([pa, mm]) for mm in m], "spec": [np.exp(-abs(pa) * m) + 0j]}
                else:
                    yield {"model": model, "cfg": dict(cfg, a=pa, b=pb), "m": m, "impl": [impl], "conj_key": None,
                           "lean": ["C15 expcom " + fl([pa, pb, mm]) for mm in m], "spec": [np.exp(-(pa + 1j * pb) * m * m)]}

            # BWR_LS2: __call__(m, l)
            with variable_scope():
                b = build("BWR_LS2", cfg)
                impl = cnum(b.p(m, l=L)[0])
            q2i = cnum(get_relative_p2(m, m1, m2)).real
            q02i = float(cnum(get_relative_p2(np.array([m0]), m1, m2)).real[0])
            yield {"model": "BWR_LS2", "cfg": cfg, "m": m, "impl": [impl], "conj_key": KEY_LS2, "family": True,
                   "lean": ["C15 %s %d %s" % ("bwr2" if fixed else "bwr2legacy", L, fl([mm, m0, g0, qq, q02i, d])) for mm, qq in zip(m, q2i)],
                   "spec": [s_BWR2(L, m, m0, g0, s_q2(m, m1, m2), s_q2(m0, m1, m2), d)[0]]}

            # BWR_below: resonance mass below threshold, ad-hoc q0
            cb = dict(cfg)
            S = m1 + m2
            cb["m0"] = S - float(rng.uniform(0.02, 0.3)) if ic % 2 == 0 else cfg["m0"]
            m3 = float(rng.uniform(0.1, 0.5))
            M = S + 3.0 + m3 + float(rng.uniform(0.1, 1.0))
            cb["M"], cb["m3"] = M, m3
            with variable_scope():
                b = build("BWR_below", cb, parent=(M, m3))
                q2i = cnum(get_relative_p2(m, m1, m2)).real
                impl = cnum(b.p.get_amp({"m": m}, {"|q|2": q2i}))
            mmax = M - m3
            k = (mmax - S) / 2
            meff = S + k * (1 + math.tanh((cb["m0"] - (mmax + S) / 2) / (mmax - S)))
            m0q = meff if cb["m0"] < S else cb["m0"]
            yield {"model": "BWR_below", "cfg": cb, "m": m, "impl": [impl], "conj_key": KEY_BELOW,
                   "lean": ["C15 below %s %d %s" % (fixs, L, fl([mm, cb["m0"], g0, qq, m1, m2, mmax, d])) for mm, qq in zip(m, q2i)],
                   "spec": [s_BWR2(L, m, cb["m0"], g0, s_q2(m, m1, m2), s_q2(m0q, m1, m2), d)[0]]}

        # ---- once per L: multi-(l,s) models and Flatte ----
        spin_cfgs = [(1, 1, ((1, -1), (0, -1))), (2, -1, ((1, -1), (0, -1))), (2, 1, ((1, -1), (1, -1))), (3, 1, ((1, -1), (1, -1)))]
        if quick:
            spin_cfgs = [spin_cfgs[L % 4]] if L % 2 == 0 else []
        for (J, P, dau) in spin_cfgs:
            cfg = gen_cfg(rng, L)
            m = mass_grid(rng, cfg, 8 if quick else 16)
            m0, g0, m1, m2 = cfg["m0"], cfg["g0"], cfg["m1"], cfg["m2"]
            for fb in (False, True):
                with variable_scope() as vm:
                    b = build("BWR_LS", cfg, J=J, P=P, dau=dau, fix_bug1=fb)
                    th = [float(rng.uniform(0.2, 2.9)) for _ in b.p.theta]
                    for t, v in zip(b.p.theta, th):
                        vm.set(t.name, v)
                    ls = [int(l) for l, s in b.dec.get_ls_list()]
                    impl = [cnum(x) for x in b.p(m)]
                    dom = sympy_dom_eval(b.p, m)
                    dnum = cnum(b.p.get_ls_amp_frac(m, b.dec.get_ls_list(), get_relative_p2(m, m1, m2), get_relative_p2(np.full_like(m, m0), m1, m2))[0])
                cc = dict(cfg, J=J, P=P, dau=dau, ls=ls, thetas=th, fix_bug1=fb)
                spec_doc, dom_doc = s_BWR_LS(True, ls, th, m, m0, g0, m1, m2, 3.0)
                spec_code, dom_code = s_BWR_LS(fb, ls, th, m, m0, g0, m1, m2, 3.0)
                head = "%d %d %s" % (1 if fb else 0, len(ls), " ".join(map(str, ls)))
                yield {"model": "BWR_LS", "cfg": cc, "m": m, "impl": impl, "conj_key": None,
                       "lean": ["C15 callbwrls %s %s" % (head, fl([mm, m0, g0, m1, m2] + th)) for mm in m],
                       "lean_multi": len(ls), "spec": spec_doc,
                       "variants": [] if fb else [(KEY_LS, "multiplies the width by m/m0 where the documentation has rho/rho0 ~ m0/m (default fix_bug1=False)", spec_code)],
                       "dom": dom, "dom_num": dnum,
                       "lean_dom": ["C15 bwrlsdom %s %s" % (head, fl([mm, m0, g0, m1, m2, 3.0] + th)) for mm in m]}
            # MultiBWR
            nk = 2 + (L % 2)
            with variable_scope() as vm:
                ml = [m0 + 0.13 * k for k in range(nk)]
                wl = [g0 * (1 + 0.5 * k) for k in range(nk)]
                b = build("MultiBWR", cfg, J=J, P=P, dau=dau, mass=m0, width=None, mass_list=ml, width_list=wl)
                for n in list(vm.trainable_vars):
                    if "coeff" in n:
                        vm.set(n, float(rng.uniform(0.2, 1.5)))
                lss = b.dec.get_ls_list()
                ls = [int(l) for l, s in lss]
                co = cnum(b.p.coeff())
                q2i = cnum(get_relative_p2(m, m1, m2)).real
                q02 = float(cnum(get_relative_p2(np.array([m0]), m1, m2)).real[0])
                impl = [cnum(x) for x in b.p.get_ls_amp(m, lss, q2i, np.full_like(m, q02), 3.0)]
            lmin = min(ls)
            spec, spec_cj = [], []
            for i, l in enumerate(ls):
                tot, totc = 0, 0
                for k in range(nk):
                    t = s_BWR2(lmin, m, ml[k], wl[k], s_q2(m, m1, m2), s_q2(m0, m1, m2), 3.0)[0]
                    tot = tot + co[i, k] * t
                    totc = totc + co[i, k] * np.conj(t)
                b2, _ = s_Bprime2(l, s_q2(m, m1, m2), s_q2(m0, m1, m2), 3.0)
                bf = np.sqrt(s_q2(m, m1, m2) / s_q2(m0, m1, m2)) ** l * np.sqrt(b2)
                spec.append(tot * bf)
                spec_cj.append(totc * bf)
            flat = []
            for k in range(nk):
                flat += [ml[k], wl[k]]
            for i in range(len(ls)):
                for k in range(nk):
                    flat += [co[i, k].real, co[i, k].imag]
            yield {"model": "MultiBWR", "cfg": dict(cfg, J=J, P=P, dau=dau, ls=ls, mass_list=ml, width_list=wl, coeff=[[complex(x) for x in r] for r in co]),
                   "m": m, "impl": impl, "conj_key": None, "lean_multi": len(ls),
                   "variants": [(KEY_MULTI, "sums coefficient x CONJUGATE of each documented Breit-Wigner 1/(m0^2-m^2-i m0 Gamma) (it calls BWR2)", spec_cj)],
                   "lean": ["C15 mbwr %s %d %d %s %s" % (fixs, len(ls), nk, " ".join(map(str, ls)), fl([mm, qq, q02, 3.0] + flat)) for mm, qq in zip(m, q2i)],
                   "spec": spec}

        # Flatte / FlatteC: below and above the channel thresholds
        cfg = gen_cfg(rng, L)
        m0 = cfg["m0"]
        chans = [(cfg["m1"], cfg["m2"], float(rng.uniform(0.05, 0.8))),
                 (cfg["m1"] + 0.2, cfg["m2"] + 0.15, float(rng.uniform(-0.3, 0.8)))][: 1 + L % 2] + \
                ([(0.1, 0.12, float(rng.uniform(0.05, 0.8)))] if L % 3 == 0 else [])
        lo = min(a + b for a, b, g in chans)
        hi = max(a + b for a, b, g in chans)
        m = np.concatenate([[m0], rng.uniform(0.3 * lo, hi + 2.0, size=10 if quick else 40)])
        keep = np.ones_like(m, dtype=bool)
        for a, b_, g in chans:
            keep &= np.abs(m - (a + b_)) > 2e-3 * (a + b_)
            keep &= np.abs(m - abs(a - b_)) > 2e-3 * (a + b_)
        m = m[keep]
        for model, sign in (("Flatte", 1.0), ("FlatteC", -1.0)):
            with variable_scope() as vm:
                b = build(model, cfg, width=None, mass_list=[[a, b_] for a, b_, g in chans])
                for i, (a, b_, g) in enumerate(chans):
                    vm.set("R_g_%d" % i, g)
                impl = cnum(b.p(m))
                dom = sympy_dom_eval(b.p, m, sheet=(1 << len(chans)) - 1)
            flat = []
            for a, b_, g in chans:
                flat += [a, b_, g]
            yield {"model": model, "cfg": dict(cfg, chans=chans), "m": m, "impl": [impl], "conj_key": None,
                   "lean": ["C15 flatte " + fl([sign, mm, m0] + flat) for mm in m],
                   "lean_dom": ["C15 flattedom " + fl([sign, mm, m0] + flat) for mm in m],
                   "spec": [s_Flatte(sign, m, m0, chans)], "dom": dom}


def _flatten(x):
    out = []
    for i in x:
        if isinstance(i, (list, tuple)):
            out += _flatten(i)
        else:
            out.append(i)
    return out


def sympy_dom_eval(p, m, **kw):
    """Particle.get_sympy_dom evaluated numerically (numpy) at the particle's own parameter values"""
    import sympy
    var = p.get_sympy_var()
    f = p.get_sympy_dom(*var, **kw)
    names = _flatten(var)
    vals = [float(v) for v in _flatten(p.get_num_var())]
    fn = sympy.lambdify(names, f, "numpy")
    return np.asarray(fn(np.asarray(m, dtype=np.complex128), *vals), dtype=np.complex128) * np.ones(len(m))


def rel_err(a, b, scale=None):
    """|a-b| relative to |b|; with `scale` (interpolants, which pass through zero) relative to max(|b|, scale)"""
    den = np.maximum(np.abs(b), 1e-300)
    if scale is not None:
        den = np.maximum(den, scale)
    return np.abs(a - b) / den


# --------------------------------------------------------------------------------------------
# function-level cases (tf_pwa.breit_wigner.* / amp.core helpers)
# --------------------------------------------------------------------------------------------

def function_cases(rng, quick, obs):
    """returns list of (name, lines, impl_values (n x k complex/real), cond_ok mask, spec or None, key)"""
    from tf_pwa import breit_wigner as bw
    from tf_pwa.amp import core
    n = 100 if quick else 5000
    out = []
    fixed = obs["bwr2_fixed"]
    g32 = "1" if obs["gs32"] else "0"
    for L in range(LMAX + 1):
        m1 = rng.uniform(0.1, 1.0, n)
        m2 = rng.uniform(0.1, 1.0, n)
        S = m1 + m2
        m0 = S + rng.uniform(0.1, 1.5, n)
        m = S + rng.uniform(0.005, 2.5, n)
        m[:3] = m0[:3]
        g0 = rng.uniform(0.005, 0.5, n)
        d = np.where(rng.random(n) < 0.5, 3.0, rng.uniform(0.5, 5.0, n))
        q, q0 = s_q(m, m1, m2), s_q(m0, m1, m2)
        q2, q02 = s_q2(m, m1, m2), s_q2(m0, m1, m2)
        # below-threshold momenta for the q^2 based functions
        mb = S * rng.uniform(0.4, 0.995, n)
        q2b = s_q2(mb, m1, m2)
        z = np.concatenate([q2 * d * d, q2b * d * d])

        def add(name, lines, impl, spec=None, cond=None, key=None, conj_key=None, variants=()):
            out.append({"name": name, "L": L, "lines": lines, "impl": np.asarray(impl), "spec": spec,
                        "cond": cond, "key": key or ("breit_wigner." + name), "conj_key": conj_key, "variants": list(variants)})

        Tz, cz = T(L, z)
        add("Bprime_polynomial", ["C15 bp %d %s" % (L, fl([x])) for x in z],
            cnum(bw.Bprime_polynomial(L, z)).real, spec=Tz, cond=cz > COND_MIN)
        b2, _ = s_Bprime2(L, q * q, q0 * q0, d)
        add("Bprime", ["C15 bprime %d %s" % (L, fl(x)) for x in zip(q, q0, d)], cnum(bw.Bprime(L, q, q0, d)).real, spec=np.sqrt(b2))
        qq2 = np.concatenate([q2, q2b])
        qq02 = np.concatenate([q02, q02])
        dd = np.concatenate([d, d])
        mm = np.concatenate([m, mb])
        mm0 = np.concatenate([m0, m0])
        gg0 = np.concatenate([g0, g0])
        b2b, cb = s_Bprime2(L, qq2, qq02, dd)
        add("Bprime_q2", ["C15 bprimeq2 %d %s" % (L, fl(x)) for x in zip(qq2, qq02, dd)], cnum(bw.Bprime_q2(L, qq2, qq02, dd)).real,
            spec=np.sqrt(np.where(b2b > 0, b2b, 1.0)), cond=cb > COND_MIN)
        add("Gamma", ["C15 gamma %d %s" % (L, fl(x)) for x in zip(m, g0, q, q0, m0, d)], cnum(bw.Gamma(m, g0, q, q0, L, m0, d)).real,
            spec=s_Gamma(L, m, g0, q, q0, m0, d))
        g2s, cg = s_Gamma2(L, mm, gg0, qq2, qq02, mm0, dd)
        add("Gamma2", ["C15 gamma2 %d %s" % (L, fl(x)) for x in zip(mm, gg0, qq2, qq02, mm0, dd)], cnum(bw.Gamma2(mm, gg0, qq2, qq02, L, mm0, dd)),
            spec=g2s, cond=cg > COND_MIN)
        if L == 0:
            add("BW", ["C15 bw " + fl(x) for x in zip(m, m0, g0)], cnum(bw.BW(m, m0, g0)), spec=s_BW(m, m0, g0))
        add("BWR", ["C15 bwr %d %s" % (L, fl(x)) for x in zip(m, m0, g0, q, q0, d)], cnum(bw.BWR(m, m0, g0, q, q0, L, d)),
            spec=s_BWR(L, m, m0, g0, q, q0, d))
        s2, c2 = s_BWR2(L, mm, mm0, gg0, qq2, qq02, dd)
        add("BWR2", ["C15 %s %d %s" % ("bwr2" if fixed else "bwr2legacy", L, fl(x)) for x in zip(mm, mm0, gg0, qq2, qq02, dd)],
            cnum(bw.BWR2(mm, mm0, gg0, qq2, qq02, L, dd)), spec=s2, cond=c2 > COND_MIN, conj_key=KEY_BWR2)
        sn, cn = s_BWR_normal(L, mm, mm0, gg0, qq2, qq02, dd)
        add("BWR_normal", ["C15 bwrn %d %s" % (L, fl(x)) for x in zip(mm, mm0, gg0, qq2, qq02, dd)],
            cnum(bw.BWR_normal(mm, mm0, gg0, qq2, qq02, L, dd)), spec=sn, cond=cn > COND_MIN)
        if L <= 2:
            c2m, c3m = 0.13957039, 0.1349768
            mg = (c2m + c3m) + rng.uniform(0.02, 1.5, n)
            m0g = (c2m + c3m) + rng.uniform(0.2, 1.0, n)
            qg, q0g = s_q(mg, c2m, c3m), s_q(m0g, c2m, c3m)
            add("GS", ["C15 gs %s %d %s" % (g32, L, fl(list(x) + [c2m, c3m])) for x in zip(mg, m0g, g0, qg, q0g, d)],
                cnum(bw.GS(mg, m0g, g0, qg, q0g, L, d)), spec=s_GS_full(L, mg, m0g, g0, qg, q0g, d, c2m, c3m),
                variants=[(KEY_GS32, "uses pi and the pion masses rounded to float32 (tf.cast of Python floats), relative error ~3e-8",
                           s_GS_full(L, mg, m0g, g0, qg, q0g, d, f32(c2m), f32(c3m), pi=PI32))])
        if L == 0:
            mx = np.concatenate([m, mb])
            rp = cnum(core.get_relative_p(mx, np.concatenate([m1, m1]), np.concatenate([m2, m2]))).real
            rp2 = cnum(core.get_relative_p2(mx, np.concatenate([m1, m1]), np.concatenate([m2, m2]))).real
            add("get_relative_p", ["C15 relp " + fl(x) for x in zip(mx, np.concatenate([m1, m1]), np.concatenate([m2, m2]))],
                np.stack([rp, rp2], -1), key="amp.core.get_relative_p")
            mmax = S + rng.uniform(1.0, 3.0, n)
            add("_ad_hoc", ["C15 adhoc " + fl(x) for x in zip(mb, mmax, S)], cnum(core._ad_hoc(mb, mmax, S)).real,
                spec=S + (mmax - S) / 2 * (1 + np.tanh((mb - (mmax + S) / 2) / (mmax - S))), key="amp.core._ad_hoc")
    return out


# --------------------------------------------------------------------------------------------
# correspondence
# --------------------------------------------------------------------------------------------

def make_cases(seed, quick, obs):
    rng = np.random.Generator(np.random.Philox(seed))
    fcs = function_cases(rng, quick, obs)
    pcs = list(cases_for(rng, quick, obs))
    import c15_x
    pcs += c15_x.cases_x(seed, quick, obs, obs)  # round 3: the rest of the registry (own generators: earlier cases unchanged)
    import c15_e
    pcs += c15_e.cases_e(seed, quick, obs)  # round 5: KMatrixSplitLS, FlatteGen/Flatte2 sympy denominators, ... (own generators)
    fcs += c15_e.fcases_e(seed, quick, obs)
    return fcs, pcs


def correspond(ctx, res):
    obs = observe()
    ctx.c15_obs = obs
    res.notes.append("implementation observed (selects the model variant it is compared with): BWR2 returns %s; GS constants %s; BWR_coupling normalisation %s" % (
        "1/(x - i y) (documented)" if obs["bwr2_fixed"] else "(x - i y)/(x^2+y^2) (conjugate of documented)",
        "float32-rounded" if obs["gs32"] else "double", "float32" if obs["cp32"] else "double"))
    res.notes.append("MultiBW.get_ls_amp uses %s; get_matrix_interp1d3 stencil loop %s" % (
        "BW (documented)" if obs["multibw_bw"] else "BWR2 (inherited from MultiBWR; dom_fun never called)",
        "range(i-2, i+2)" if obs["i1d3_fixed"] else "range(i-1, i+3) (node i attached to the wrong intervals)"))
    res.notes.append("KMatrixSplitLS combines K_inv and P as %s; FlatteGen.get_sympy_dom %s cut_phsp" % (
        "a matrix-vector product" if obs["kms_matvec"] else "P_j x (column sum j of K_inv) (reduce_sum over axis=1)",
        "applies" if obs["fg_dom_cut"] else "ignores"))
    import c15_x
    c15_x.inventory(res)
    fcs, pcs = make_cases(ctx.seed + 15, ctx.quick, obs)
    ctx.c15_cases = (fcs, pcs)
    lines = []
    for f in fcs:
        f["o"] = len(lines)
        lines += f["lines"]
    for c in pcs:
        c["o"] = len(lines)
        lines += c["lean"]
        if "lean_dom" in c:
            c["od"] = len(lines)
            lines += c["lean_dom"]
    lines.append("C15 thetaAbsSq 8")
    out = ctx.model.query(lines)
    if any(o == "bad-op" for o in out):
        k = [i for i, o in enumerate(out) if o == "bad-op"][0]
        res.broke("model driver bad-op", lines[k][:200])
        return
    nbad, nskip, neval, worst, first = 0, 0, 0, 0.0, None
    per = {}
    perbad = {}
    worst_at = [None]

    def note(name, err, ok, detail):
        nonlocal nbad, worst, first
        e = float(np.max(np.where(ok, err, 0.0))) if len(err) else 0.0
        if e > worst:
            worst_at[0] = name
        worst = max(worst, e)
        bad = ok & ~(err < TOL_X)
        per[name] = per.get(name, 0) + int(ok.sum())
        if bad.any():
            nbad += int(bad.sum())
            perbad[name] = perbad.get(name, 0) + int(bad.sum())
            if first is None:
                i = int(np.argmax(bad))
                first = dict(detail(i), what=name, rel_err=float(err[i]))

    for f in fcs:
        n = len(f["lines"])
        rows = [[C.h2f(x) for x in out[f["o"] + i].split()] for i in range(n)]
        mv = np.array(rows)
        iv = f["impl"]
        if np.iscomplexobj(iv):
            mv = mv[:, 0] + 1j * mv[:, 1]
        elif f["name"] == "Bprime_polynomial":
            mv = mv[:, 0]
        elif mv.shape[1] == 1:
            mv = mv[:, 0]
        if f["name"] == "get_relative_p":
            err = np.max(np.abs(mv - iv) / np.maximum(np.abs(iv), 1e-12), axis=-1)
        else:
            err = np.abs(mv - iv) / np.maximum(np.abs(iv), 1e-300)
        ok = f["cond"] if f["cond"] is not None else np.ones(n, dtype=bool)
        ok = ok & np.isfinite(err)
        nskip += int(n - ok.sum())
        neval += n
        note("fn:" + f["name"], err, ok, lambda i, f=f, mv=mv, iv=iv: {"L": f["L"], "op": f["lines"][i], "impl": str(iv[i]), "model": str(mv[i])})
        if f["name"] == "Bprime_polynomial":  # sympy-side table on the same points
            sv = np.array(rows)[:, 1]
            err2 = np.abs(sv - iv) / np.maximum(np.abs(iv), 1e-300)
            note("fn:formula.Bprime_polynomial-table", err2, ok, lambda i, f=f: {"L": f["L"], "op": f["lines"][i]})
    for c in pcs:
        n = len(c["m"])
        if not c["lean"]:  # oracle-only model / configuration outside the Lean model (search only)
            continue
        k = c.get("lean_multi")
        vals = [parse_c(out[c["o"] + i]) for i in range(n)]
        for j, iv in enumerate(c["impl"]):
            mv = np.array([v[j] for v in vals])
            err = rel_err(mv, iv, c.get("tol_scale"))
            ok = np.isfinite(err)
            neval += n
            note("particle:" + c["model"], err, ok, lambda i, c=c, mv=mv, iv=iv, j=j: {"cfg": c["cfg"], "m": float(c["m"][i]), "component": j, "impl": str(iv[i]), "model": str(mv[i]), "op": c["lean"][i][:300]})
        if "lean_dom" in c:
            dv = np.array([parse_c(out[c["od"] + i])[0] for i in range(n)])
            err = rel_err(dv, c["dom"])
            neval += n
            note("sympy_dom:" + c["model"], err, np.isfinite(err), lambda i, c=c, dv=dv: {"cfg": c["cfg"], "m": float(c["m"][i]), "sympy": str(c["dom"][i]), "model": str(dv[i])})
    res.coverage.update({
        "traces_validated_against_impl": neval - nskip,
        "evaluations": neval,
        "distinct_nontrivial": int(sum(v for k_, v in per.items() if not k_.endswith((":one", ":x")))),
        "rule": "seeded random (m1,m2 in [0.1,1], m0 above threshold, Gamma0 in [0.005,0.5], d in {3, U(0.5,5)}) x L=0..8 x mass grids incl. m=m0, threshold*(1+2e-3) and below-threshold q^2<0 for the q^2-based functions; every tf_pwa.breit_wigner function and Particle.__call__/get_amp/get_ls_amp of 18 registered models + 6 sympy denominators; round 3: 7 further line shapes (FlatteGen/Flatte2 x 7 option sets x 1-3 channels x l<=4, LASS, MultiBW, Kmatrix, KMatrixSingleChannel 1-3 poles, KmatrixSimple 1-2 channels x 1-3 poles) and 12 interpolation models on uniform + non-uniform node sets (N = 5, 8 quick; 4..11 thorough) incl. the nodes themselves and points outside the range; non-trivial = all but the constant models one/x",
        "per_target": per,
        "ill_conditioned_skipped": nskip,
        "worst_rel_err": worst,
        "worst_rel_err_target": worst_at[0],
        "disagreements": nbad,
        "disagreements_per_target": perbad,
        "models": sorted({c["model"] for c in pcs}),
    })
    res.samples += [{"op": lines[k_][:160], "model": out[k_]} for k_ in (0, len(lines) // 3, len(lines) - 2)]
    if nbad:
        res.broke("correspondence LineShapeF vs tf_pwa line shapes", {"n": nbad, "first": first})


# --------------------------------------------------------------------------------------------
# search: the documented formula (numpy) against the implementation
# --------------------------------------------------------------------------------------------

_WORST = [0.0]


def judge(impl, spec, variants, conj_key, ok=None, tol=TOL_S, track=True, scale=None):
    """Compare with the documented value.  Returns None if every (well-conditioned) point agrees, otherwise
    (key_or_None, index, rel_err): key = the known variant (listed behaviour) that explains ALL deviating points,
    None when no listed variant does."""
    impl, spec = np.atleast_1d(impl), np.atleast_1d(spec)
    if ok is None:
        ok = np.ones(len(impl), dtype=bool)
    ok = ok & np.isfinite(spec)
    e = rel_err(impl, spec, scale)
    bad = ok & ~(e < tol)
    good = ok & (e < tol)
    if good.any() and not variants and not conj_key and track:
        _WORST[0] = max(_WORST[0], float(np.max(e[good])))
    if not bad.any():
        return None
    i = int(np.where(bad)[0][np.argmax(e[bad])])
    cands = list(variants)
    if conj_key:
        cands = [(conj_key, "returns the complex conjugate of the documented value", np.conj(spec))] + cands
    for key, what, alt in cands:
        ea = rel_err(impl, np.atleast_1d(alt), scale)
        if (ea[bad] < tol).all():
            return key, i, float(e[i]), what
    return None, i, float(e[i]), "differs from its documented formula"


def search(ctx, res):
    if getattr(ctx, "c15_cases", None) is None:
        ctx.c15_cases = make_cases(ctx.seed + 15, ctx.quick, observe())
    fcs, pcs = ctx.c15_cases
    if ctx.suspect:  # a proof / table / correspondence broke: search harder on fresh cases
        f2, p2 = make_cases(ctx.seed + 1515, False, observe())
        fcs, pcs = fcs + f2, pcs + p2
    nchk = 0
    reported = set()
    _WORST[0] = 0.0

    def fail(key, what, rp):
        if key in reported:
            return
        reported.add(key)
        res.fail(key, what, dict(rp, seed=ctx.seed, tier=ctx.tier, suspect=bool(ctx.suspect)))

    # (0) table: coefficients of both Bprime_polynomial implementations = |theta_L(i w)|^2
    tabs = getattr(ctx, "c15_tables", None) or extract_tables()[:2]
    for which, tab in zip(("breit_wigner.Bprime_polynomial", "formula.Bprime_polynomial"), tabs):
        for L in range(LMAX + 1):
            want = [Fraction(c) for c in theta_abs2_coeffs(L)[::-1]]
            nchk += 1
            if list(tab[L]) != want:
                fail("%s:table:L=%d" % (which, L), "%s(L=%d) uses coefficients %s, |theta_L(i w)|^2 has %s" % (which, L, [str(c) for c in tab[L]], [str(c) for c in want]),
                     {"kind": "table", "which": which, "L": L})
    # (0b) "barrier factors equal one at q = q0" also when |q0|^2 arrives as a plain Python float (how amp.core passes
    # it when all three masses of a decay are Python floats): a tf.cast of a Python float goes through float32
    import tensorflow as tf
    from tf_pwa import breit_wigner as bw
    worst32 = 0.0
    for L in range(1, 5):
        for q2v in (0.3721, 1.0 / 3.0, 2.718281828459045):
            got = float(bw.Bprime_q2(L, tf.constant(q2v, dtype=tf.float64), float(q2v), 3.0).numpy())
            nchk += 1
            worst32 = max(worst32, abs(got - 1.0))
            if abs(got - 1.0) > 1e-12:
                fail(KEY_Q032, "Bprime_q2(L=%d, q2, q02, d=3) with q02 a Python float equal to q2 = %r returns %.17g, not 1: the Python float is cast through float32 (relative error ~1e-8 in every barrier factor whose masses are Python floats)" % (L, q2v, got),
                     {"kind": "q0-python-float", "L": L, "q2": q2v})
    res.coverage["Bprime_q2_python_float_q0_worst_dev_from_1"] = worst32
    # (1) functions of tf_pwa.breit_wigner
    for f in fcs:
        if f["spec"] is None:
            continue
        r = judge(f["impl"], f["spec"], f["variants"], f["conj_key"], f["cond"])
        nchk += len(np.atleast_1d(f["impl"]))
        if r is not None:
            key, i, e, what = r
            fail(key or (f["key"] + ":value"), "%s (L=%d) %s: op %s -> impl %s, documented %s (rel %.3g)" % (
                f["key"], f["L"], what, f["lines"][i][:60], np.atleast_1d(f["impl"])[i], np.atleast_1d(f["spec"])[i], e),
                {"kind": "fn", "name": f["name"], "L": f["L"], "line": f["lines"][i]})
    # barrier factor equals one at q = q0, Gamma(m0) = Gamma0 (statement of the property, directly on the implementation)
    from tf_pwa import breit_wigner as bw
    rng2 = np.random.Generator(np.random.Philox(ctx.seed + 99))
    for L in range(LMAX + 1):
        qv = rng2.uniform(0.01, 3.0, 50)
        dv = rng2.uniform(0.5, 5.0, 50)
        b1 = cnum(bw.Bprime(L, qv, qv, dv)).real
        b2 = cnum(bw.Bprime_q2(L, qv * qv, qv * qv, dv)).real
        g = cnum(bw.Gamma(qv + 1.0, 0.1 + qv, qv, qv, L, qv + 1.0, dv)).real
        g2 = cnum(bw.Gamma2(qv + 1.0, 0.1 + qv, qv * qv, qv * qv, L, qv + 1.0, dv))
        nchk += 200
        for nm, v, want in (("Bprime", b1, np.ones(50)), ("Bprime_q2", b2, np.ones(50)), ("Gamma", g, 0.1 + qv), ("Gamma2", g2, 0.1 + qv)):
            bad = ~(np.abs(v - want) < 1e-12 * np.abs(want))
            if bad.any():
                i = int(np.argmax(bad))
                fail("breit_wigner.%s:at-q0" % nm, "%s at q = q0 = %r (m = m0), d = %r, L = %d gives %r, expected %r" % (nm, qv[i], dv[i], L, v[i], want[i]),
                     {"kind": "at-q0", "name": nm, "L": L, "q": float(qv[i]), "d": float(dv[i])})
    # (2) particle models
    for c in pcs:
        variants = list(c.get("variants", []))
        for j, (iv, sp) in enumerate(zip(c["impl"], c["spec"])):
            vj = [(k, w, alt[j]) for k, w, alt in variants]
            r = judge(iv, sp, vj, c["conj_key"], scale=c.get("tol_scale"))
            nchk += len(iv)
            if r is not None:
                key, i, e, what = r
                if key is None and c.get("any_key"):  # a model that does not follow its docstring at all (listed finding)
                    key, what = c["any_key"]
                fail(key or ("%s:value" % c["model"]), "%s %s: cfg %s m=%r component %d impl %s documented %s (rel %.3g)" % (
                    c["model"], what, c["cfg"], float(c["m"][i]), j, iv[i], sp[i], e),
                    {"kind": "particle", "model": c["model"], "cfg": c["cfg"], "m": float(c["m"][i]), "component": j})
        # extra statements on the implementation attached to a case (round 5): got = want on `sel`
        for ck in c.get("checks", []):
            sel = ck.get("sel")
            r = judge(ck["got"], ck["want"], ck.get("variants", []), None, sel, track=False)
            nchk += len(ck["got"]) if sel is None else int(np.sum(sel))
            if r is not None:
                key, i, e, what = r
                fail(key or ck["key"], "%s: %s%s: cfg %s m=%r got %s expected %s (rel %.3g)" % (
                    c["model"], ck["what"], "" if key is None else " - " + what, c["cfg"], float(c["m"][i]), ck["got"][i], ck["want"][i], e),
                    {"kind": "check", "model": c["model"], "cfg": c["cfg"], "m": float(c["m"][i]), "check": ck["key"]})
        # Breit-Wigner family claims: Im > 0 for Gamma0 > 0, value at m0 is i/(m0 Gamma0)
        if c.get("family"):
            iv = c["impl"][0]
            nchk += len(iv)
            m0g0 = c["cfg"]["m0"] * c["cfg"]["g0"]
            want = 1j / m0g0
            conj_case = c["conj_key"] and (iv.imag < 0).all() and abs(iv[0] - np.conj(want)) < 1e-11 * abs(want)
            if conj_case:
                fail(c["conj_key"], "%s returns the complex conjugate of the documented value: Im < 0 for positive width and value %s at m = m0 where i/(m0 Gamma0) = %s (cfg %s)" % (c["model"], iv[0], want, c["cfg"]),
                     {"kind": "particle", "model": c["model"], "cfg": c["cfg"], "m": float(c["m"][0])})
            else:
                if (iv.imag <= 0).any():
                    i = int(np.argmax(iv.imag <= 0))
                    fail("%s:im-sign" % c["model"], "%s has Im <= 0 for positive width: cfg %s m=%r value %s" % (c["model"], c["cfg"], float(c["m"][i]), iv[i]),
                         {"kind": "particle", "model": c["model"], "cfg": c["cfg"], "m": float(c["m"][i])})
                if not abs(iv[0] - want) < 1e-11 * abs(want):
                    fail("%s:at-m0" % c["model"], "%s at m = m0 gives %s, documented i/(m0 Gamma0) = %s (cfg %s)" % (c["model"], iv[0], want, c["cfg"]),
                         {"kind": "particle", "model": c["model"], "cfg": c["cfg"], "m": float(c["m"][0])})
        # sympy denominators are reciprocals of the numeric line shapes
        if "dom" in c:
            if c["model"] == "BWR_LS":
                lhs, rhs, what = c["dom"], c["dom_num"], "the denominator of get_ls_amp_frac"
                sel = np.ones(len(lhs), dtype=bool)
                alts = []
            else:
                lhs, rhs, what = c["dom"], 1 / c["impl"][0], "1/lineShape"
                sel = c["m"] > c["dom_above"] if "dom_above" in c else np.ones(len(lhs), dtype=bool)
                # a listed deviation of the numeric side (e.g. float32 constant) shows up here too
                alts = [(k, w, 1 / c["spec"][0]) for k, w, alt in variants]
            nchk += int(sel.sum())
            r = judge(lhs, rhs, [], None, sel, track=not variants)
            if r is not None:
                key, i, e, _ = r
                for k, w, alt in alts:
                    if (rel_err(lhs, alt)[sel] < TOL_S).all() and k in reported:
                        key = k
                if key is None:
                    fail("%s:sympy-dom" % c["model"], "get_sympy_dom of %s is not %s: cfg %s m=%r sympy %s numeric %s (rel %.3g)" % (c["model"], what, c["cfg"], float(c["m"][i]), lhs[i], rhs[i], e),
                         {"kind": "dom", "model": c["model"], "cfg": c["cfg"], "m": float(c["m"][i])})
    res.coverage["search_cases"] = int(nchk)
    res.coverage["search_worst_accepted_rel_err_models_without_listed_variant"] = _WORST[0]
    res.coverage["search_rule"] = "independent numpy evaluation of each docstring formula (third implementation) against the implementation on the same seeded cases (tol 2e-9); Im-sign, value at m0, Gamma(m0)=Gamma0, Bprime(q0,q0)=1, sympy denominators vs 1/lineShape; a deviation is attributed to a listed finding only if the listed variant (conjugate / m-over-m0 / float32 constant) reproduces the implementation at the same tolerance on every deviating point"


def replay(ctx, payload):
    """Regenerate the recorded run's cases (same seed / tier) on the current tree and report whether the recorded
    key still fails; prints the concrete input again."""
    rp = payload.get("replay") or {}
    key = payload.get("key")
    ctx.seed = int(rp.get("seed", ctx.seed))
    ctx.tier = rp.get("tier", ctx.tier)
    ctx.quick = ctx.tier == "quick"
    ctx.suspect = bool(rp.get("suspect", False))
    ctx.c15_cases = None
    res = C.Result()
    search(ctx, res)
    hit = [f for f in res.failures if f.key == key]
    for f in hit[:3]:
        print("REPRODUCED %s: %s" % (f.key, f.what))
    if not hit:
        print("not reproduced: %s (failing now: %s)" % (key, sorted({f.key for f in res.failures})))
    return 1 if hit else 0


MANIFEST = {
    "text": "Lean theorems over the reals / Mathlib complex numbers for ALL masses, widths, momenta, radii and every L<=8 (and any number of partial waves / channels / resonances / poles), stated for the functions the current tree implements (BWR2 after repository commit a7b0d13, double-precision constants after 6f9a2f7): the Blatt-Weisskopf coefficient tables of breit_wigner.py and formula.py, re-extracted by running the real functions on every run, equal |theta_L(i w)|^2 of the reverse Bessel polynomial (exact integers, decide +kernel; plus BprimePolynomial(w^2) = normSq theta_L(i w) in C); Bprime(q0,q0)=1, Bprime_q2 = Bprime above threshold and positive below, Gamma = documented formula, Gamma(m0)=Gamma0; BW, BWR, BWR2, BWR_below, BWR_normal (principal root), BWR_coupling, BWR_LS(fix_bug1), MultiBWR, Flatte, FlatteC, exp, exp_com, one, x and GS_rho (including h, dh/dm^2, D, f of its docstring; dh_dsFun = d hFun/ds as HasDerivAt for equal daughter masses) equal their docstring formula as complex numbers; Im>0 and value i/(m0 Gamma0) at m0 for BW/BWR/BWR2; line shape x sympy denominator = 1 for BW, BWR, BWR_coupling, Flatte, FlatteC (all sheet bits set, real m above and below channel thresholds) and BWR_LS_dom = numeric denominator. Kept refutations: the BWR2 of the tree before a7b0d13 is PROVED to be the complex conjugate of the documented formula (BWR2legacy_*), and BWR_LS without fix_bug1 (the default, listed finding) to differ from its documentation. ROUND 3 (Props/C15c, C15d; every other registered model): FlatteGen / Flatte2 = 1/(m0^2 - m^2 + im_sign sum_i term_i) for every option setting and any number of channels, the default term = i g (q_i/m) m0 (m0/|q_i0|)(|q_i|/|q_i0|)^(2l) B_l'^2 (L<=8), cut_phsp term = 0 below the channel threshold and code/doc condition equivalent for m > |ma-mb|; LASS = m/(q cot d_B - i q) + e^(2 i d_B) m0 G0 (m0/q0)/((m0^2-m^2) - i m0 G0 (q/m)(m0/q0)) with |e^(2 i d_B)| = 1; MultiBW of the current tree is PROVED identical to MultiBWR (running width; listed finding) and the repaired one equals sum_k c_ik/(m_k^2 - m^2 - i m_k G_k) x barrier; Kmatrix = (beta0 + sum beta_i m_i G_i/(m_i^2-m^2))/(1 - i(K+alpha)) + KNR; KMatrixSingleChannel = P/(1 - iK) with every pole of K equal to m_i Gamma_i(m)/(m_i^2-m^2) (the running width of breit_wigner.Gamma), Im R = K Re R for real production couplings (any number of poles), elastic unitarity Im T = rho |T|^2 for T = K/(1 - i rho K); KmatrixSimple: K_ij = sum_a g_ia g_ja/(m_a^2 - s - i eps), one channel R = n P/(1 - i K rho n^2), two channels R_i = n_i x_i with (1 - i K rho n^2) x = P (adjugate solution proved to solve the system), the barrier factor is (q d)^l B'_l(q,1/d,d) (the docstring's q^l is a listed finding). Interpolation family: interp_c, interp_hist, interp1d3 / interp_l3, interp_lagrange, spline_c are linear in the node values for every node list and mass (R); on 6 exact rational node sets (4..8 nodes, uniform and non-uniform, decide +kernel over core Rat): the weights at the nodes are unit vectors (the interpolant passes through every choice of node values) and vanish outside the node range, the repaired interp1d3 stencil reproduces 1, x, x^2, x^3 while the stencil of the current tree is PROVED not to reproduce constants (weights sum to 17/16; listed finding); the spline coefficient tables spline_xi_matrix(nodes) re-extracted from the tree on every run satisfy the defining equations of the not-a-knot cubic spline exactly (interpolation, C1, C2, third-derivative continuity at the 2nd and last-but-one knot) and spline_c evaluated through them passes through the nodes; linear_npy is zero outside the node range. A registry inventory on every run reports any registered particle model that is neither modelled nor on the explicit no-documented-formula list. ROUND 5 (Props/C15e, 32 theorems): KMatrixSplitLS - kmatrix_split_ls_value: for one pole and one partial wave (every l, all parameter values with a real phase-space root) the CODE evaluates m1 G1 f Re(beta)/(m1^2 - m^2 - i 1e-4 - i sqrt((p/m)(m1/p1)) G1 f^2 bf^2), bf = (p/p1)^(l/2) Bprime_q2(l, p, p1, d); kmatrix_split_ls_ne_doc: this is PROVED different from the docstring form beta m1 G1/(m1^2 - m^2 - i m1 Gamma(m)) on a real witness (code 2/(3 - (2+eps) i), docstring 2/(3 - 8 i)); for two partial waves the last line of get_ls_amp is PROVED (for every matrix and vector) to return P_j x (column sum j of the inverse) - a wave with P_j = 0 gets exactly zero amplitude - and PROVED not to solve M x = P on a witness (second listed finding with a one-token repair); the repaired variant solves M x = P for the code's M and P (any number of poles); M is symmetric. KmatrixSimple: Cramer's rule solves the 3x3 system (solve3_correct), KmatrixSimple3 = n_i x_i with (1 - i K rho n^2) x = P; one pole, one channel, no background: R = n beta g/(m_a^2 - m^2 - i eps - i g^2 rho n^2) (Breit-Wigner/Flatte reduction). KMatrixSingleChannel: 1 - iK never vanishes for real m (no pole on the real axis); one pole = beta m1 G1 x BWR (running width, L <= 8). get_sympy_dom of FlatteGen / Flatte2 (all sheet bits set, real m > 0 above and below the channel thresholds, every option setting, any number of channels, l <= 8) x numeric line shape = 1 when cut_phsp = False or when the denominator applies the cut; the denominator of the CURRENT tree is PROVED not to depend on cut_phsp at all (third listed finding; witness: numeric channel term 0, symbolic term -sqrt(3)/2). GS at/below the two-pion threshold (m0 above): hFun = 0 and GS = the documented formula with q(m) := 0 inside f(m) (the code's branch choice, not the analytic continuation). hist_idx outside the node range (every node list): below the first node the value of the LAST bin, at/above the last node the value of the FIRST bin (wrap-around); bins inside the range exact on 6 rational node sets. interp_l3: on the 6 rational node sets the weights at the mid point of bin t are the unit vector e_t (the interpolant passes through parameter t there, for every choice of parameters), zero at the last bin's mid point and outside.",
    "note": "Model = templates/LineShape.lean.in + templates/LineShapeX.lean.in (round 3, same namespace) instantiated at R (proofs) and Float (execution), templates/InterpAmp.lean.in instantiated at R, Float and core Rat. Tie to the code: (T) coefficient tables (Blatt-Weisskopf, spline_xi_matrix) extracted by running the real functions, theorems re-checked by lake build each run; (C) every tf_pwa.breit_wigner function, amp.core helpers, Particle.__call__/get_amp/get_ls_amp of 35 registered models (round 1/2: BW, BWR, default, BWR2, BWR_below, BWR_normal, BWR_coupling, BWR_LS, BWR_LS2, MultiBWR, GS_rho, Flatte, FlatteC, one, exp, exp_com, x; round 3: Flatte2, FlatteGen, LASS, MultiBW, Kmatrix, KMatrixSingleChannel, KmatrixSimple, interp, interp_c, interp_hist, hist_idx, interp1d3, interp_l3, interp_lagrange, linear_npy, linear_txt, spline_c, spline_c_idx) and 7 sympy denominators against the Float instance at 1e-10 on seeded grids (observed worst 8e-15 for the round-3 models); (S) an independent numpy/scipy evaluation of every docstring formula against the implementation at 2e-9 (scipy CubicSpline not-a-knot, PchipInterpolator, np.interp, own Lagrange / K-matrix linear solves). The harness observes which variant the tree implements (BWR2 conjugated or not, float32 constants or not, MultiBW calling dom_fun or not, interp1d3 stencil range, KmatrixSimple docstring) and compares with that Lean variant, so the same check follows the tree before and after the repairs; they are now fix commits in /repo (babc852 MultiBW dom_fun, 96ef8f5 interp1d3 stencil, 6928971 sppchip PCHIP rule, 6ef67d1 KmatrixSimple docstring, 20c9246 Bprime_q2 q0 dtype; kind 'fixed' in known_findings.jsonl, suppressing nothing: a reverted repair is reported under its own key). Round 5 (templates/LineShapeE.lean.in, harness/c15_e.py, Props/C15e): KMatrixSplitLS (the code as it is, 1-2 partial waves x 1-3 poles), KmatrixSimple with 3 channels, get_sympy_dom of FlatteGen/Flatte2, GS below 2 m_pi, interp_l3 at the bin mid points are now in the Float correspondence (1e-10; observed worst 1.5e-13) AND the oracle search; the harness observes whether get_ls_amp of KMatrixSplitLS forms a matrix-vector product and whether FlatteGen.get_sympy_dom applies cut_phsp, and drives that Lean variant (check exits 0 on the tree before and after fixes/C15-fix_kmatrix_split_ls_matvec.diff). Listed findings kept: KMatrixSplitLS:differs-from-docstring (sharpened: see kmatrix_split_ls_value; reconciling sqrt(rho), the missing m_i, q vs q^2, eps = 1e-4 and Re(beta) is a physics decision of the authors, not a small patch), NEW KMatrixSplitLS:inverse-times-P-not-matvec (patch proposed, tests green), NEW FlatteGen:sympy-dom:cut_phsp-ignored (no patch: Heaviside of a complex mass in the pole search needs a convention of the authors). Validated only (oracle, no Lean model): sppchip (scipy PchipInterpolator oracle; the three deviations were repaired by 6928971), KmatrixSimple with >= 4 channels (not generated), KMatrixSplitLS with >= 3 partial waves (not generated), the sympy expression of KMatrixSingleChannel (numpy evaluation vs get_amp). No documented closed formula and no structural claim in the docstring (only links to the AmpGen C++ sources; listed with a reason, not checked): Kpi_Swave, pipi_Swave. Not verified: Float rounding, TensorFlow kernels (linalg.inv, Bucketize, histogram_fixed_width_bins), sympy (together/cse of KMatrix_single), np.linalg.inv inside spline_xi_matrix beyond the 5 extracted node sets, how get_amp collects momenta/masses from the decay chain for BWR_below / Kmatrix (correspondence only), GS with the resonance mass m0 at/below the two-pion threshold (division by k(m0) = 0), poles at complex mass (all sympy denominators are checked for real m only).",
    "technique": "Lean 4 proof over R and C of templates instantiated at Float for differential correspondence with the implementation and at core Rat for exact decide +kernel checks; translator-extracted tables (Blatt-Weisskopf coefficients, spline matrices) checked by decide +kernel; registry inventory",
}
