"""C13 — partial-wave (l,s) selection is sound, complete and non-redundant."""
import itertools
import random

import common as C

PID = "C13"
# (the cg-matrix correspondence also uses the "C12 cg" op of TfPwaV.Model.WignerF)
DRIVER = [("C13", "TfPwaV.Model.LSX", "LSX.handle")]
LEAN_TARGETS = ["TfPwaV.Props.C13", "TfPwaV.Props.C13b", "TfPwaV.Props.C13c", "TfPwaV.Props.C13d"]
PROP_MODULES = ["TfPwaV.Props.C13", "TfPwaV.Props.C13b", "TfPwaV.Props.C13c", "TfPwaV.Props.C13d"]
ALL_MODULES = ["TfPwaV.Model.LS", "TfPwaV.Model.LSX", "TfPwaV.Model.LSGram", "TfPwaV.Props.C13", "TfPwaV.Props.C13b", "TfPwaV.Props.C13c",
               "TfPwaV.Proofs.LSCount", "TfPwaV.Proofs.LSCountP", "TfPwaV.Proofs.LSCountC", "TfPwaV.Props.C13d"] + ["TfPwaV.Proofs.LSGram%d" % i for i in range(6)]
ASSUMPTIONS = [
    "spins enter GetA2BC_LS_list as int (integer) or float k/2 (half-integer), as the config loader produces them",
    "parities/C-parities are +1/-1 or None (ls_count_parity_all and ls_count_cparity_broken carry this as hypotheses pa, pb, pc, c = 1 or -1)",
    "the count clause (#couplings = #independent helicity amplitudes) is about decays WITHOUT a C-parity request: with ca set the offered list is the ca=None list filtered by 'l+s integral and c=(-1)^(l+s)' (ls_cparity_is_filter), empty for half-integral s (ls_cparity_half_integer_empty), and for integral spins with parity not used has (helCount +- (min(2jb,2jc)+1))/2 entries (ls_count_cparity_broken; for equal daughter spins this is the number of exchange orbits, ls_count_cparity_exchange), which is not the helicity count of the property (kernel witness 1->1 1: 2 resp. 5 couplings vs 7 helicity pairs); the count with C-parity AND conserved parity together is characterised only as that filter, no closed form is proved",
    "helCount / helCountParity (Model/LS.lean) are the model's statement of 'number of independent helicity amplitudes': pairs from -j..j with |lb-lc|<=J, and orbits of (lb,lc)->(-lb,-lc) with the self-conjugate pair kept iff eta=+1; they are compared on every run with the helicities enumerated by HelicityDecay.list_helicity_inner for seeded spins up to 2j=14",
    "full column rank of the LS->helicity matrix is a theorem about the exact CG model (ls_gram_orthonormal: Gram matrix = identity for all spin triples with 2j<=5, kernel-evaluated rational arithmetic with the common surd factored out); the real get_cg_matrix is tied to it by the numeric rank / orthonormality check (numpy SVD, tol 1e-9) and by the C12 correspondence of cg_coef with the same CG model",
]


def spin(j2):
    return j2 // 2 if j2 % 2 == 0 else j2 / 2.0


def opt(x):
    return "N" if x is None else str(x)


def canon(lst):
    return " ".join("%d,%d" % (int(l), int(round(2 * s))) for l, s in lst)


def grid(maxj2, full):
    ps = [(a, b, c) for a in (1, -1) for b in (1, -1) for c in (1, -1)]
    if full:
        ps += [(None, 1, 1), (1, None, -1), (-1, 1, None)]
    for ja in range(maxj2 + 1):
        for jb in range(maxj2 + 1):
            for jc in range(maxj2 + 1):
                for (pa, pb, pc) in ps:
                    for pbk in (False, True):
                        for ca in (None, 1, -1):
                            yield (ja, jb, jc, pa, pb, pc, pbk, ca)


def oracle(ja2, jb2, jc2, pa, pb, pc, pbk, ca):
    """Independent statement of the selection rule on doubled spins -> sorted list of (l, 2s)."""
    if pa is None or pb is None or pc is None:
        pbk = True
    out = []
    for s2 in range(abs(jb2 - jc2), jb2 + jc2 + 1, 2):
        for l in range(0, (ja2 + s2) // 2 + 1):
            if not (abs(ja2 - s2) <= 2 * l <= ja2 + s2):
                continue
            if (2 * l - ja2 - s2) % 2 != 0:
                continue
            if not pbk and pa * pb * pc * (-1) ** l != 1:
                continue
            if ca is not None:
                if s2 % 2 == 1 or ca != (-1) ** (l + s2 // 2):
                    continue
            out.append((l, s2))
    return out


def n_indep_helicity(ja2, jb2, jc2, eta):
    pairs = [(lb, lc) for lb in range(-jb2, jb2 + 1, 2) for lc in range(-jc2, jc2 + 1, 2) if abs(lb - lc) <= ja2]
    if eta is None:
        return len(pairs)
    z = 1 if (0, 0) in pairs else 0
    return (len(pairs) - z) // 2 + (z if eta == 1 else 0)


def correspond_ls(ctx, res):
    from tf_pwa.particle import GetA2BC_LS_list
    maxj2 = 8
    rows = list(grid(maxj2, True))
    if ctx.quick:
        # all rows with spins <= 2 (doubled 4) + a seeded sample of the rest; thorough = whole grid
        rnd = random.Random(ctx.seed)
        small = [r for r in rows if max(r[0], r[1], r[2]) <= 5]
        rest = [r for r in rows if max(r[0], r[1], r[2]) > 5]
        rows = small + rnd.sample(rest, 12000)
    # spins beyond the grid of the kernel-decided theorems (2j = 9..14), seeded: the all-spin theorems of Props/C13c.lean are about lsList there too
    rnd2 = random.Random(ctx.seed + 17)
    ps = [(a, b, c) for a in (1, -1) for b in (1, -1) for c in (1, -1)] + [(None, 1, 1), (1, None, -1), (-1, 1, None)]
    nbig = 3000 if ctx.quick else 30000
    for _ in range(nbig):
        j3 = [rnd2.randint(0, 14) for _ in range(3)]
        j3[rnd2.randrange(3)] = rnd2.randint(9, 14)
        if rnd2.random() < 0.85 and sum(j3) % 2:
            i = rnd2.randrange(3)
            j3[i] = j3[i] - 1 if j3[i] else 1
        rows.append((j3[0], j3[1], j3[2]) + rnd2.choice(ps) + (rnd2.random() < 0.5, rnd2.choice((None, None, 1, -1))))
    lines, impl = [], []
    for (ja, jb, jc, pa, pb, pc, pbk, ca) in rows:
        lines.append("C13 ls %d %d %d %s %s %s %d %s" % (ja, jb, jc, opt(pa), opt(pb), opt(pc), int(pbk), opt(ca)))
        try:
            impl.append(canon(GetA2BC_LS_list(spin(ja), spin(jb), spin(jc), pa, pb, pc, p_break=pbk, ca=ca)))
        except Exception as e:
            impl.append("raise:" + type(e).__name__)
    model = ctx.model.query(lines)
    dis = [(r, a, b) for r, a, b in zip(rows, impl, model) if a != b]
    nontriv = len({a for a in impl if " " in a})
    res.coverage.update({
        "traces_validated_against_impl": len(rows),
        "evaluations": len(rows),
        "distinct_nontrivial": nontriv,
        "rule": "grid of doubled spins 0..8 x parity triples (incl. None) x p_break x ca; quick = all rows with 2j<=5 plus 12000 seeded rows, thorough = whole grid; plus 3000 (thorough 30000) seeded rows with a spin 2j in 9..14; non-trivial = distinct result lists with >= 2 couplings",
        "exhaustive": not ctx.quick,
        "grid_rows": len(rows),
        "disagreements": len(dis),
    })
    res.samples += [{"op": lines[i], "impl": impl[i], "model": model[i]} for i in (0, len(rows) // 3, len(rows) // 2, len(rows) - 1)]
    if dis:
        r, a, b = dis[0]
        res.broke("correspondence lsList vs GetA2BC_LS_list", {"args": r, "impl": a, "model": b, "n": len(dis)})
        ctx.hints = [d[0] for d in dis[:50]]

    # HelicityDecay.get_ls_list with l_list restriction (subset) vs model filter (python side filter of model list)
    from tf_pwa.amp import HelicityDecay, Particle
    rnd = random.Random(ctx.seed + 1)
    n_l = 0
    for _ in range(60 if ctx.quick else 600):
        ja, jb, jc = rnd.randint(0, 6), rnd.randint(0, 4), rnd.randint(0, 4)
        if (ja + jb + jc) % 2:
            continue
        pa, pb, pc = rnd.choice([1, -1]), rnd.choice([1, -1]), rnd.choice([1, -1])
        pbk = rnd.random() < 0.3
        l_list = sorted(rnd.sample(range(0, 6), rnd.randint(1, 3)))
        a = Particle("A%d" % _, J=spin(ja), P=pa)
        b = Particle("B%d" % _, J=spin(jb), P=pb)
        c = Particle("C%d" % _, J=spin(jc), P=pc)
        d = HelicityDecay(a, [b, c], p_break=pbk, l_list=l_list, disable=True)
        got = canon(d.get_ls_list())
        want = " ".join("%d,%d" % (l, s2) for l, s2 in oracle(ja, jb, jc, pa, pb, pc, pbk, None) if l in l_list)
        n_l += 1
        if got != want:
            res.fail("get_ls_list:l_list", "HelicityDecay.get_ls_list with l_list=%s for 2J=(%d,%d,%d) P=(%d,%d,%d) p_break=%s gives [%s], filtered rule gives [%s]" % (
                l_list, ja, jb, jc, pa, pb, pc, pbk, got, want), {"ja2": ja, "jb2": jb, "jc2": jc, "P": [pa, pb, pc], "p_break": pbk, "l_list": l_list})
    res.coverage["l_list_cases"] = n_l
    correspond_restrict(ctx, res)


def correspond_restrict(ctx, res):
    """User restrictions of HelicityDecay (l_list / ls_list, integer AND half-integer s, written the way a configuration
    delivers them: ints for integer values, floats for half-integers, and also 1.0-style floats) vs LS.filterL /
    LS.filterLS of the model (the definitions C13.ls_restrict is about), and the restricted LS->helicity matrix vs the
    corresponding rows of the unrestricted one."""
    import numpy as np
    from tf_pwa.amp import HelicityDecay, Particle
    rnd = random.Random(ctx.seed + 7)
    lines, impl, meta = [], [], []
    n_half = 0
    k = 0
    n_cases = 120 if ctx.quick else 1200
    while len(lines) < n_cases:
        k += 1
        ja, jb, jc = rnd.randint(0, 6), rnd.randint(0, 4), rnd.randint(0, 4)
        if (ja + jb + jc) % 2:
            continue
        pa, pb, pc = rnd.choice([1, -1]), rnd.choice([1, -1]), rnd.choice([1, -1])
        pbk = rnd.random() < 0.4
        full = oracle(ja, jb, jc, pa, pb, pc, pbk, None)
        if not full:
            continue
        mk = lambda tag: (Particle("r%s%d" % (tag, k), J=spin(ja), P=pa), [Particle("s%s%d" % (tag, k), J=spin(jb), P=pb), Particle("t%s%d" % (tag, k), J=spin(jc), P=pc)])
        a0, o0 = mk("u")
        d0 = HelicityDecay(a0, o0, p_break=pbk, disable=True)
        m0 = np.asarray(d0.get_cg_matrix(), dtype=float)
        ls0 = canon(d0.get_ls_list()).split()
        kind = rnd.choice(["ls", "ls", "l"])
        style = rnd.choice(["plain", "float"])  # 1 vs 1.0 for integer values
        num = (lambda x2: (x2 // 2 if style == "plain" else float(x2 // 2)) if x2 % 2 == 0 else x2 / 2.0)
        a1, o1 = mk("v")
        if kind == "ls":
            sel = [p for p in full if rnd.random() < 0.6] or [rnd.choice(full)]
            if rnd.random() < 0.15:  # a pair outside the rule list is simply not in the rule-filtered list
                pass
            arg = [[(l if style == "plain" else float(l)), num(s2)] for l, s2 in sel]
            try:
                d1 = HelicityDecay(a1, o1, p_break=pbk, ls_list=arg, disable=True)
                got = canon(d1.get_ls_list())
            except Exception as e:
                got = "raise:" + type(e).__name__
                d1 = None
            lines.append("C13 lss %d %d %d %d %d %d %d N %s" % (ja, jb, jc, pa, pb, pc, int(pbk), ";".join("%d,%d" % p for p in sel) or "-"))
            want_py = " ".join("%d,%d" % p for p in sel)
        else:
            ll = sorted(rnd.sample(range(0, 7), rnd.randint(1, 3)))
            arg = [(l if style == "plain" else float(l)) for l in ll]
            try:
                d1 = HelicityDecay(a1, o1, p_break=pbk, l_list=arg, disable=True)
                got = canon(d1.get_ls_list())
            except Exception as e:
                got = "raise:" + type(e).__name__
                d1 = None
            lines.append("C13 lsl %d %d %d %d %d %d %d N %s" % (ja, jb, jc, pa, pb, pc, int(pbk), ",".join(map(str, ll))))
            want_py = " ".join("%d,%d" % p for p in full if p[0] in ll)
        impl.append(got)
        n_half += (jb + jc) % 2
        what = "HelicityDecay(2J=(%d,%d,%d), P=(%d,%d,%d), p_break=%s, %s=%r)" % (ja, jb, jc, pa, pb, pc, pbk, "ls_list" if kind == "ls" else "l_list", arg)
        rp = {"kind": "restrict", "ja2": ja, "jb2": jb, "jc2": jc, "P": [pa, pb, pc], "p_break": pbk, "opt": "ls_list" if kind == "ls" else "l_list", "arg": arg}
        if got != want_py:
            res.fail("get_ls_list:" + ("ls_list" if kind == "ls" else "l_list"), "%s.get_ls_list() gives [%s], the requested allowed couplings are [%s]" % (what, got, want_py), rp)
        elif d1 is not None and got:
            m1 = np.asarray(d1.get_cg_matrix(), dtype=float)
            rows = [ls0.index(w) for w in got.split()]
            if m1.shape != m0[rows].shape or not np.allclose(m1, m0[rows], atol=1e-12):
                res.fail("get_cg_matrix:restricted", "%s.get_cg_matrix() is not the rows %s of the unrestricted LS->helicity matrix (max |diff| %s)" % (
                    what, rows, "shape %s vs %s" % (m1.shape, m0[rows].shape) if m1.shape != m0[rows].shape else "%.3g" % float(np.max(np.abs(m1 - m0[rows])))), rp)
            elif np.linalg.matrix_rank(m1.reshape(len(rows), -1)) != len(rows):
                res.fail("get_cg_matrix:restricted:rank", "%s: restricted LS->helicity matrix has rank %d < %d" % (what, int(np.linalg.matrix_rank(m1.reshape(len(rows), -1))), len(rows)), rp)
    model = ctx.model.query(lines)
    dis = [(l, a, b) for l, a, b in zip(lines, impl, model) if a != b]
    res.coverage["restrict_cases"] = len(lines)
    res.coverage["restrict_cases_half_integer_s"] = n_half
    if dis:
        res.broke("correspondence filterL/filterLS vs HelicityDecay.get_ls_list(l_list/ls_list)", {"op": dis[0][0], "impl": dis[0][1], "model": dis[0][2], "n": len(dis)})


def correspond(ctx, res):
    import c13_count
    correspond_ls(ctx, res)
    c13_count.correspond_count(ctx, res)
    correspond_cg_matrix(ctx, res)


def correspond_cg_matrix(ctx, res):
    """Every entry of the real get_cg_matrix vs sqrt((2l+1)/(2ja+1)) <jb lb; jc -lc|s d><l 0; s d|ja d> from the exact CG
    model (TfPwaV.Wigner.cgSq / sign, the model LSGram.gramCheck is about)."""
    import math
    import numpy as np
    from fractions import Fraction
    from tf_pwa.amp import HelicityDecay, Particle
    lim = 3 if ctx.quick else 5
    lines, meta = [], []
    k = 0
    for ja in range(lim + 1):
        for jb in range(lim + 1):
            for jc in range(lim + 1):
                if (ja + jb + jc) % 2:
                    continue
                k += 1
                d = HelicityDecay(Particle("gA%d" % k, J=spin(ja), P=1), [Particle("gB%d" % k, J=spin(jb), P=1), Particle("gC%d" % k, J=spin(jc), P=1)], p_break=True, disable=True)
                ls = d.get_ls_list()
                if not ls:
                    continue
                m = np.asarray(d.get_cg_matrix(), dtype=float)
                hb, hc = d.list_helicity_inner()
                for i, (l, s_) in enumerate(ls):
                    l2, s2 = int(round(2 * l)), int(round(2 * s_))
                    for ib, lb in enumerate(hb):
                        for ic, lc in enumerate(hc):
                            lb2, lc2 = int(round(2 * lb)), int(round(2 * lc))
                            dl = lb2 - lc2
                            lines.append("C12 cg %d %d %d %d %d %d" % (jb, lb2, jc, -lc2, s2, dl))
                            lines.append("C12 cg %d %d %d %d %d %d" % (l2, 0, s2, dl, ja, dl))
                            meta.append(((ja, jb, jc), (l2, s2), (lb2, lc2), float(m[i][ib][ic])))
    out = ctx.model.query(lines)

    def val(line):
        sg, sq = line.split()
        n, dnm = sq.split("/")
        return int(sg) * math.sqrt(Fraction(int(n), int(dnm)))
    bad = []
    for j, (trip, ls_, hel, impl) in enumerate(meta):
        want = math.sqrt((ls_[0] + 1) / (trip[0] + 1)) * val(out[2 * j]) * val(out[2 * j + 1])
        if not abs(impl - want) < 1e-12:
            bad.append({"2J": trip, "(2l,2s)": ls_, "(2lb,2lc)": hel, "impl": impl, "model": want})
    res.coverage["cg_matrix_entries_compared"] = len(meta)
    res.coverage["traces_validated_against_impl"] = res.coverage.get("traces_validated_against_impl", 0) + len(meta)
    if bad:
        res.broke("correspondence get_cg_matrix entries vs exact CG model", {"n": len(bad), "first": bad[:3]})


def search(ctx, res):
    """Direct check of the property statement on the implementation (independent oracle)."""
    import numpy as np
    from tf_pwa.particle import GetA2BC_LS_list
    maxj2 = 8
    n = 0
    for row in grid(maxj2, True):
        (ja, jb, jc, pa, pb, pc, pbk, ca) = row
        if ctx.quick and not ctx.suspect and max(ja, jb, jc) > 6:
            continue
        n += 1
        try:
            got = [(int(l), int(round(2 * s))) for l, s in GetA2BC_LS_list(spin(ja), spin(jb), spin(jc), pa, pb, pc, p_break=pbk, ca=ca)]
        except Exception as e:
            res.fail("ls:raises", "GetA2BC_LS_list raises %s for %s" % (type(e).__name__, row), {"args": row})
            continue
        want = oracle(*row)
        if sorted(got) != sorted(want) or len(set(got)) != len(got):
            miss = sorted(set(want) - set(got))
            extra = sorted(set(got) - set(want))
            res.fail("ls:rule", "GetA2BC_LS_list(2J=(%d,%d,%d), P=(%s,%s,%s), p_break=%s, ca=%s): missing %s, forbidden %s, duplicates %s" % (
                ja, jb, jc, pa, pb, pc, pbk, ca, miss, extra, len(got) - len(set(got))), {"args": row, "got": got, "want": want})
            if len(res.failures) > 30:
                break
            continue
        # count = number of independent helicity amplitudes (no C-parity)
        if ca is None and (ja + jb + jc) % 2 == 0:
            eff_break = pbk or None in (pa, pb, pc)
            eta = None if eff_break else pa * pb * pc * (-1) ** ((ja - jb - jc) // 2)
            if len(got) != n_indep_helicity(ja, jb, jc, eta):
                res.fail("ls:count", "count mismatch %s: %d couplings vs %d independent helicity amplitudes" % (row, len(got), n_indep_helicity(ja, jb, jc, eta)), {"args": row})
    res.coverage["search_rows"] = n

    # full-rank of the LS->helicity map on the real get_cg_matrix (spins up to 5/2; up to 4 in thorough)
    from tf_pwa.amp import HelicityDecay, Particle
    lim = 5 if (ctx.quick and not ctx.suspect) else 6
    nr = 0
    k = 0
    for ja in range(lim + 1):
        for jb in range(lim + 1):
            for jc in range(lim + 1):
                if (ja + jb + jc) % 2:
                    continue
                for pbk, p3 in ((True, (1, 1, 1)), (False, (1, 1, 1)), (False, (-1, 1, 1))):
                    k += 1
                    a = Particle("rA%d" % k, J=spin(ja), P=p3[0])
                    b = Particle("rB%d" % k, J=spin(jb), P=p3[1])
                    c = Particle("rC%d" % k, J=spin(jc), P=p3[2])
                    d = HelicityDecay(a, [b, c], p_break=pbk, disable=True)
                    ls = d.get_ls_list()
                    if len(ls) == 0:
                        continue
                    m = np.asarray(d.get_cg_matrix(), dtype=float)
                    m2 = m.reshape(len(ls), -1)  # amp.core layout: [(l,s), lambda_b, lambda_c]
                    rank = np.linalg.matrix_rank(m2, tol=1e-9)
                    nr += 1
                    # theorem ls_gram_orthonormal on the implementation: the couplings' vectors are orthonormal
                    gram = m2 @ m2.T
                    if not np.max(np.abs(gram - np.eye(len(ls)))) < 1e-9:
                        res.fail("cg_matrix:gram", "get_cg_matrix rows are not orthonormal for 2J=(%d,%d,%d) P=%s p_break=%s: max |M M^T - 1| = %.3g" % (
                            ja, jb, jc, p3, pbk, float(np.max(np.abs(gram - np.eye(len(ls)))))), {"ja2": ja, "jb2": jb, "jc2": jc, "P": p3, "p_break": pbk})
                    if rank != len(ls):
                        res.fail("cg_matrix:rank", "get_cg_matrix rank %d < %d couplings for 2J=(%d,%d,%d) P=%s p_break=%s" % (
                            rank, len(ls), ja, jb, jc, p3, pbk), {"ja2": ja, "jb2": jb, "jc2": jc, "P": p3, "p_break": pbk})
    res.coverage["rank_cases"] = nr


def replay(ctx, payload):
    from tf_pwa.particle import GetA2BC_LS_list
    r = payload.get("replay", {})
    if r.get("kind") in ("count", "count_c"):
        import c13_count
        return c13_count.replay_count(payload)
    if "args" in r:
        (ja, jb, jc, pa, pb, pc, pbk, ca) = r["args"]
        got = GetA2BC_LS_list(spin(ja), spin(jb), spin(jc), pa, pb, pc, p_break=pbk, ca=ca)
        print("impl:", got)
        print("rule:", oracle(ja, jb, jc, pa, pb, pc, pbk, ca))
        return 0 if sorted((int(l), int(round(2 * s))) for l, s in got) == oracle(ja, jb, jc, pa, pb, pc, pbk, ca) else 1
    if r.get("kind") == "restrict" or "l_list" in r:
        import numpy as np
        from tf_pwa.amp import HelicityDecay, Particle
        ja, jb, jc = r["ja2"], r["jb2"], r["jc2"]
        pa, pb, pc = r["P"]
        opt_name = r.get("opt", "l_list")
        arg = r.get("arg", r.get("l_list"))
        mk = lambda t: (Particle("rp%sA" % t, J=spin(ja), P=pa), [Particle("rp%sB" % t, J=spin(jb), P=pb), Particle("rp%sC" % t, J=spin(jc), P=pc)])
        a0, o0 = mk("u")
        d0 = HelicityDecay(a0, o0, p_break=r["p_break"], disable=True)
        a1, o1 = mk("v")
        d1 = HelicityDecay(a1, o1, p_break=r["p_break"], disable=True, **{opt_name: arg})
        full = oracle(ja, jb, jc, pa, pb, pc, r["p_break"], None)
        if opt_name == "ls_list":
            want = [(int(l), int(round(2 * s_))) for l, s_ in arg if (int(l), int(round(2 * s_))) in full]
        else:
            want = [p for p in full if p[0] in [int(x) for x in arg]]
        got = [(int(l), int(round(2 * s_))) for l, s_ in d1.get_ls_list()]
        print("impl:", got)
        print("requested allowed couplings:", want)
        if got != want:
            return 1
        ls0 = [(int(l), int(round(2 * s_))) for l, s_ in d0.get_ls_list()]
        m0 = np.asarray(d0.get_cg_matrix(), dtype=float)[[ls0.index(p) for p in got]]
        m1 = np.asarray(d1.get_cg_matrix(), dtype=float)
        ok = m1.shape == m0.shape and np.allclose(m1, m0, atol=1e-12) and (not got or np.linalg.matrix_rank(m1.reshape(len(got), -1)) == len(got))
        print("restricted LS->helicity matrix = rows of the unrestricted one, full rank:", ok)
        return 0 if ok else 1
    print(payload)
    return 0


MANIFEST = {
    "text": "Lean theorems for ALL spins (unbounded): membership in the modelled (l,s) list <-> triangle/parity/C-parity rule (ls_mem_iff), strictly sorted hence duplicate-free (ls_sorted, ls_nodup), l_list and ls_list restrictions (ls_restrict, ls_restrict_pairs; a user selection that is a sub-list of the rule list is reproduced verbatim, ls_restrict_pairs_verbatim), cut criterion; and the COUNT clause for every doubled spin triple with even sum (Props/C13c.lean, induction along (jb,jc)->(jb+1,jc+1), no grid bound): ls_count_broken_all (#couplings = #{(lb,lc): |lb-lc|<=J} when parity is violated or unknown), ls_count_parity_all (#couplings = number of orbits of (lb,lc)->(-lb,-lc) compatible with eta = pa pb pc (-1)^(ja-jb-jc), parities +-1), both without C-parity; with C-parity requested: ls_cparity_is_filter, ls_cparity_half_integer_empty, ls_count_cparity_broken (2 #couplings = helCount +- (min(2jb,2jc)+1)), ls_count_cparity_exchange (equal daughter spins: #couplings = number of orbits of (lb,lc)<->(lc,lb) compatible with H(lc,lb) = c(-1)^J H(lb,lc)) and a kernel witness that the C-restricted count is not the plain helicity count. The kernel-decided count theorems on the 2j<=8 grid are kept. Exact orthonormality of the columns of the LS->helicity matrix, hence full rank, for all spin triples with 2j<=5 (ls_gram_orthonormal). The model is tied to GetA2BC_LS_list by exact comparison over the spin/parity grid plus seeded rows with 2j up to 14 on every run; the count definitions helCount / helCountParity(etaOf) are compared with the helicities enumerated by real HelicityDecay objects (list_helicity_inner) and lsList with their get_ls_list for seeded spin triples up to 2j=14; the restriction definitions filterL / filterLS of ls_restrict with HelicityDecay.get_ls_list(l_list= / ls_list=) on seeded decays (integer and half-integer s, int and float spellings).",
    "note": "Model = TfPwaV.LS.lsList (hand-written, doubled spins) validated against the real GetA2BC_LS_list on the grid 2j<=8 x parities x p_break x ca (quick: 2j<=5 + 12000 sampled rows; thorough: whole grid) and on 3000 (thorough 30000) seeded rows with a spin 2j in 9..14. Count clause: proved for all spins about the model definitions; validated only = that helCount / helCountParity equal what the real HelicityDecay enumerates (about 220 seeded triples x 4-5 parity settings with 2j<=14 quick, all 1800 even triples thorough) and that the real list length equals that number there (search keys ls:count, ls:count:cparity). With C-parity AND conserved parity together the count is only characterised as a filter (no closed form). Full rank is proved for the exact CG model (2j<=5) and re-checked numerically on the real get_cg_matrix (2j<=5 quick, <=6 thorough); for restricted decays the matrix must be the corresponding rows of the unrestricted one (search). A user ls_list is compared in the order of the selection-rule list (the code returns the user's order verbatim; the order of couplings is not part of C13). Trusted: Lean kernel, standard axioms, harness.",
    "technique": "Lean 4 proof (unbounded membership/no-duplicate theorems; count clause by induction over all spin triples, core Lean + omega; decide +kernel count over the 2j<=8 grid kept; kernel-evaluated Gram matrices) + exhaustive grid correspondence with the implementation + seeded correspondence of the count definitions with HelicityDecay up to 2j=14",
}
