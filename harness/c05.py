"""C05 — every evaluation strategy returns the same density and likelihood.

(a) EINSUM (kind D, proved): Lean model `TfPwaV.Einsum` of tf_pwa/einsum.py (replace_ellipsis, remove_size1,
    ordered_indices, the pairwise loop over the opt_einsum path, tensor_einsum_reduce_sum) + theorems that it equals
    the reference contraction; exact correspondence on small-integer operands; search = tf_pwa.einsum.einsum vs
    numpy.einsum directly.
(b) STRATEGIES (kind R, validated): one config zoo evaluated with every `data:` option against plain eager
    evaluation (densities 1e-10, NLL / gradients 1e-8).
"""
import itertools
import os
import random
import string

import common as C

PID = "C05"
DRIVER = [("C05", "TfPwaV.Model.Einsum", "Einsum.handle"), ("C05f", "TfPwaV.Model.Factorise", "Factorise.handle"), ("C05y", "TfPwaV.Model.FactoriseY", "FactoriseY.handle")]
LEAN_TARGETS = ["TfPwaV.Props.C05", "TfPwaV.Props.C05b"]
PROP_MODULES = ["TfPwaV.Props.C05", "TfPwaV.Props.C05b"]
ALL_MODULES = ["TfPwaV.Model.Einsum", "TfPwaV.Proofs.Einsum", "TfPwaV.Proofs.EinsumStep", "TfPwaV.Proofs.EinsumOrder", "TfPwaV.Proofs.EinsumLoop", "TfPwaV.Props.C05",
               "TfPwaV.Proofs.EinsumBcast", "TfPwaV.Proofs.EinsumLoopB", "TfPwaV.Proofs.EinsumWrap", "TfPwaV.Proofs.EinsumFull", "TfPwaV.Proofs.EinsumEnd", "TfPwaV.Proofs.EinsumSizes", "TfPwaV.Props.C05b"]
ASSUMPTIONS = [
    "einsum: the contraction path returned by opt_einsum.contract_path is an INPUT of the model (any sequence of position tuples); opt_einsum's own validation of the expression is modelled by `validate` (rank, size consistency with size-1 broadcasting, output labels)",
    "einsum: TensorFlow kernels tf.transpose / tf.reshape / broadcasting `*` / tf.reduce_sum / tf.einsum are taken as their array semantics (row-major reshape, numpy broadcasting); validated by the exact correspondence on integer-valued float64 / complex128 operands",
    "einsum: the iteration order of the Python set `combined_index` inside ordered_indices (string-hash dependent) is observed by the harness in the same process and passed to the model (procOrder); when two labels of one contraction step get the same order value the model yields `tie` (no value defined) — on the unfixed tree this is known finding einsum:order-tie, on the fixed tree ordered_indices is strict and `tie` is unreachable (theorem rankFixed_injective)",
    "einsum_correct (Props/C05b.lean) covers the complete routine - ellipsis replacement, remove_size1, numpy-style size-1 broadcasting, the pairwise loop over ANY path, the final reshape - under three explicit hypotheses: (i) no operand repeats a label (otherwise the step is delegated to tf.einsum: einsum_repeated_index_delegates), (ii) consistent shapes: every axis has the size of its label or size 1, all dimensions positive (an empty tensor, dimension 0, is outside the theorem), every label full somewhere (einsum_consistent_assignment derives this from any assignment), (iii) the path is valid: non-empty, it reduces the operands to one, and the order values of the output labels increase along the output (einsum_path_ends_at_output / einsum_correct_reducing_path); (iii-b) is a statement about IEEE doubles computed by ordered_indices - Lean's Float is opaque - and is validated on every program: ordered_indices bit-for-bit against the model plus a direct monotonicity check; the harness counts how many of its programs lie inside the hypotheses (model op `hyp`, a decidable transcription of (i)-(iii) that is itself not proved equivalent to the Lean hypotheses)",
    "einsum: operands whose ellipses have different ranks are rejected by the routine (validate), so `...` is a plain substitution by fresh labels (replace_ellipsis_fresh: they cannot clash); the reference semantics for `...` is that substitution",
    "strategies (kind R): tf.function / XLA compilation and the LazyCall tf.data pipeline are runtime behaviour of TensorFlow: validated on the config zoo with tolerances 1e-10 (density) / 1e-8 (NLL, gradient), not proved; the id()-based switch of AbsPDF.__call__, the preprocessor / amplitude pipelines and cached_shape have Lean models (Props/C05d.lean) whose remaining assumptions are listed below",
    "cached-integral / cached-amplitude likelihood models are compared with the default model with all masses and widths fixed (their documented domain)",
]

import c05_factor as CF  # part B: factorised / cached strategies as algebra (Model/Factorise.lean, Props/C05c.lean)
assert CF.DRIVER_ENTRY in DRIVER
LEAN_TARGETS = LEAN_TARGETS + CF.LEAN_TARGETS_EXTRA
PROP_MODULES = PROP_MODULES + CF.PROP_MODULES_EXTRA
ALL_MODULES = ALL_MODULES + CF.ALL_MODULES_EXTRA
ASSUMPTIONS = ASSUMPTIONS + CF.ASSUMPTIONS_EXTRA

import c05_shape as CS  # part Y: cached_shape / mask_factor, id()-switch, p4_directly / cached_angle (Model/FactoriseY.lean, Props/C05d.lean)
assert CS.DRIVER_ENTRY in DRIVER
LEAN_TARGETS = LEAN_TARGETS + CS.LEAN_TARGETS_EXTRA
PROP_MODULES = PROP_MODULES + CS.PROP_MODULES_EXTRA
ALL_MODULES = ALL_MODULES + CS.ALL_MODULES_EXTRA
ASSUMPTIONS = ASSUMPTIONS + CS.ASSUMPTIONS_EXTRA

TF_LIMITS = ("UnimplementedError", "ResourceExhaustedError")  # runtime limits of TensorFlow kernels, not of the routine
LOWER = string.ascii_lowercase
UPPER = string.ascii_uppercase


# ======================================================================================================
# (a) einsum
# ======================================================================================================

def enc_term(term):
    """'...ab' -> '0,97,98' ; '' -> '-'"""
    out = []
    i = 0
    while i < len(term):
        if term.startswith("...", i):
            out.append("0")
            i += 3
        else:
            out.append(str(ord(term[i])))
            i += 1
    return ",".join(out) if out else "-"


def enc_expr(expr):
    lhs, rhs = expr.split("->")
    return ";".join(enc_term(t) for t in lhs.split(",")), enc_term(rhs)


def enc_nats(l):
    l = list(l)
    return ",".join(str(int(i)) for i in l) if l else "-"


def enc_tensor(a, kind):
    import numpy as np
    a = np.asarray(a)
    flat = a.reshape(-1)
    if kind == "Z":
        vals = [int(round(float(x.real))) for x in flat]
    else:
        vals = []
        for x in flat:
            vals += [int(round(float(complex(x).real))), int(round(float(complex(x).imag)))]
    return enc_nats(a.shape), (",".join(str(v) for v in vals) if vals else "-")


def observe_variant():
    """Which ordered_indices is in the tree: 'A' = values may tie (unfixed), 'B' = strict integer ranking (fixed)."""
    import tf_pwa.einsum as E
    vals = E.ordered_indices("abc,ca,ba->a", None)
    labs = {k: v for k, v in vals.items() if len(k) == 1}
    strict = len(set(labs.values())) == len(labs)
    allint = all(float(v) == int(v) for v in vals.values())
    if strict and allint:
        return "B"
    return "A"


def proc_order(expr2):
    """Iteration order of `combined_index` exactly as ordered_indices builds it (same construction, same process =>
    same order; the order depends on the string hash seed of the process)."""
    ein_s = expr2.split("->")
    final_index = ein_s[1]
    idx_input = ein_s[0].split(",")
    combined_index = set("".join(idx_input)) - set(final_index)
    bound_dict = {}
    for i in combined_index:
        bound_dict[i] = ([], [])
    return list(bound_dict)


class EinCase:
    """One program: expression, integer operands, (optional) forced path."""

    def __init__(self, expr, ops, kind, forced_path=None, origin="random"):
        self.expr = expr
        self.ops = ops  # list of numpy integer arrays (kind Z) or complex arrays with integer parts (kind G)
        self.kind = kind
        self.forced_path = forced_path
        self.origin = origin
        # filled by run_impl
        self.impl = None  # ("ok", ndarray) | ("raise", type name)
        self.path = None
        self.proc = None
        self.real_order = None
        self.expr2 = None

    def payload(self):
        import numpy as np
        return {"expr": self.expr, "kind": self.kind, "shapes": [list(o.shape) for o in self.ops],
                "data": [[[int(complex(x).real), int(complex(x).imag)] for x in np.asarray(o).reshape(-1)] for o in self.ops],
                "forced_path": self.forced_path, "origin": self.origin}

    @staticmethod
    def from_payload(p):
        import numpy as np
        ops = []
        for sh, d in zip(p["shapes"], p["data"]):
            if p["kind"] == "Z":
                a = np.array([x[0] for x in d], dtype=np.int64).reshape(sh)
            else:
                a = np.array([complex(x[0], x[1]) for x in d], dtype=np.complex128).reshape(sh)
            ops.append(a)
        fp = p.get("forced_path")
        return EinCase(p["expr"], ops, p["kind"], [tuple(i) for i in fp] if fp else None, p.get("origin", "replay"))


def run_impl(case):
    """Run tf_pwa.einsum.einsum on the case; records the path used and the observed set order."""
    import numpy as np
    import tensorflow as tf
    import tf_pwa.einsum as E

    dtype = np.float64 if case.kind == "Z" else np.complex128
    targs = [tf.constant(np.asarray(o).astype(dtype)) for o in case.ops]
    orig_cp = E.contract_path
    seen = {}

    def cp(expr, *shapes, **kw):
        path, info = orig_cp(expr, *shapes, **kw)  # raises exactly when the real call would
        seen["opt_path"] = [tuple(int(i) for i in p) for p in path]
        if case.forced_path is not None:
            path = [tuple(p) for p in case.forced_path]
        seen["path"] = [tuple(int(i) for i in p) for p in path]
        return path, info

    orig_oi = E.ordered_indices

    def oi(expr2, shapes):
        seen["expr2"] = expr2
        seen["proc"] = proc_order(expr2)
        r = orig_oi(expr2, shapes)
        seen["order"] = dict(r)
        return r

    E.contract_path = cp
    E.ordered_indices = oi
    try:
        try:
            r = E.einsum(case.expr, *targs)
            case.impl = ("ok", np.asarray(r.numpy()))
        except RecursionError:
            case.impl = ("raise", "RecursionError")
        except Exception as e:  # the routine declines: callers fall back to tf.einsum
            case.impl = ("raise", type(e).__name__)
    finally:
        E.contract_path = orig_cp
        E.ordered_indices = orig_oi
    case.path = seen.get("path")
    case.proc = seen.get("proc")
    case.real_order = seen.get("order")
    case.expr2 = seen.get("expr2")
    return case.impl


def model_line(case, variant):
    ins, out = enc_expr(case.expr)
    path = ";".join(enc_nats(p) for p in (case.path or [])) or "-"
    proc = enc_nats(ord(c) for c in (case.proc or []))
    toks = ["C05", "ein", "1" if variant == "B" else "0", case.kind, ins, out, path, proc]
    for o in case.ops:
        sh, d = enc_tensor(o, case.kind)
        toks += [sh, d]
    return " ".join(toks)


def parse_model(ans, kind):
    import numpy as np
    w = ans.split(" ")
    if w[0] != "ok":
        return (w[0], None)
    shape = [] if w[1] == "-" else [int(i) for i in w[1].split(",")]
    vals = [] if w[2] == "-" else [int(i) for i in w[2].split(",")]
    if kind == "Z":
        a = np.array(vals, dtype=np.int64).reshape(shape)
    else:
        a = (np.array(vals[0::2], dtype=np.float64) + 1j * np.array(vals[1::2], dtype=np.float64)).reshape(shape)
    return ("ok", a)


def oracle(case):
    """numpy.einsum on exact integers (independent of the model); None when numpy rejects the expression."""
    import numpy as np
    try:
        if case.kind == "Z":
            return np.einsum(case.expr, *[np.asarray(o).astype(np.int64) for o in case.ops])
        return np.einsum(case.expr, *[np.asarray(o).astype(np.complex128) for o in case.ops])
    except Exception:
        return None


def same_array(a, b):
    import numpy as np
    a = np.asarray(a)
    b = np.asarray(b)
    return a.shape == b.shape and bool(np.all(a == b))


def order_has_tie(order):
    if not order:
        return False
    vals = [v for k, v in order.items() if len(k) == 1]
    return len(set(vals)) != len(vals)


def random_path(rnd, n):
    """A random valid contraction path for n operands (steps of 1..3 operands)."""
    path = []
    k = n
    while k > 1:
        m = rnd.choice([2, 2, 2, 3, 1]) if k >= 3 else rnd.choice([2, 2, 1])
        m = min(m, k)
        pos = tuple(sorted(rnd.sample(range(k), m)))
        if rnd.random() < 0.3:
            pos = tuple(rnd.sample(pos, len(pos)))
        path.append(pos)
        k = k - m + 1
    if n == 1 or rnd.random() < 0.1:
        path.append((0,))
    return path


def gen_case(rnd, idx):
    import numpy as np
    kind = "G" if rnd.random() < 0.35 else "Z"
    n_ops = rnd.choice([1, 2, 2, 3, 3, 3, 4, 4, 5, 6])
    pool = rnd.sample(LOWER[:12] + UPPER[:6], rnd.randint(2, 7))
    size = {c: rnd.choice([1, 2, 2, 3, 3]) for c in pool}
    use_ell = rnd.random() < 0.6
    batch = [rnd.choice([1, 2, 3]) for _ in range(rnd.choice([0, 1, 1, 1, 2]))] if use_ell else []
    terms, shapes = [], []
    for k in range(n_ops):
        labs = rnd.sample(pool, rnd.randint(0, min(4, len(pool))))
        if rnd.random() < 0.04 and labs:
            labs.insert(rnd.randrange(len(labs) + 1), rnd.choice(labs))  # repeated index: "inner product" branch
        has_ell = use_ell and (rnd.random() < 0.9)
        t = ("..." if has_ell else "") + "".join(labs)
        sh = (list(batch) if has_ell else []) + [size[c] for c in labs]
        if rnd.random() < 0.05:  # numpy-style broadcasting of a label
            sh = [1 if (rnd.random() < 0.5) else s for s in sh]
        terms.append(t)
        shapes.append(sh)
    used = sorted(set("".join(terms)) - {"."})
    out_labs = rnd.sample(used, rnd.randint(0, len(used))) if used else []
    out = ("..." if (use_ell and rnd.random() < 0.93) else "") + "".join(out_labs)
    # malformed stream
    r = rnd.random()
    origin = "random"
    if r < 0.03 and shapes and shapes[0]:
        shapes[rnd.randrange(len(shapes))].append(2)
        origin = "malformed:rank"
    elif r < 0.05:
        out += rnd.choice(LOWER[14:20])
        origin = "malformed:outlabel"
    elif r < 0.07 and out_labs:
        out += out_labs[0]
        origin = "malformed:outdup"
    elif r < 0.09 and use_ell and n_ops > 1:
        terms[0] = terms[0].replace("...", "")
        shapes[0] = shapes[0][len(batch):] if len(shapes[0]) >= len(batch) else shapes[0]
        origin = "malformed:first-without-ellipsis"
    expr = ",".join(terms) + "->" + out
    ops = []
    for sh in shapes:
        if kind == "Z":
            ops.append(np.array([rnd.randint(-2, 2) for _ in range(int(np.prod(sh)) if sh else 1)], dtype=np.int64).reshape(sh))
        else:
            n = int(np.prod(sh)) if sh else 1
            ops.append(np.array([complex(rnd.randint(-2, 2), rnd.randint(-2, 2)) for _ in range(n)], dtype=np.complex128).reshape(sh))
    forced = random_path(rnd, n_ops) if rnd.random() < 0.5 else None
    return EinCase(expr, ops, kind, forced, origin)


def tie_family(rnd, n):
    """Relabelings of "xab,bx,ax->x": ordered_indices gives a and b the same value when b is processed first."""
    import numpy as np
    trip = list(itertools.permutations(LOWER[:10], 3))
    rnd.shuffle(trip)
    out = []
    for (x, a, b) in trip[:n]:
        expr = "%s%s%s,%s%s,%s%s->%s" % (x, a, b, b, x, a, x, x)
        sh = {x: 2, a: 3, b: 3}
        ops = [np.array([rnd.randint(-3, 3) for _ in range(int(np.prod([sh[c] for c in t])))], dtype=np.int64).reshape([sh[c] for c in t])
               for t in expr.split("->")[0].split(",")]
        out.append(EinCase(expr, ops, "Z", None, "tie-family"))
    return out


# ---- zoo of decay structures (shared by the einsum harvest and the strategies part) -------------------

def zoo_configs():
    """Small 3-body configurations: spin-0 / 1/2 / 1 / 3/2 / 2 particles, 2-3 chains, and one 4-body cascade with a shared decay object.
    Particle names are distinct between the configurations: tf_pwa caches per-decay quantities (lru_cache on methods of
    objects that compare equal by NAME), so two different models with the same names in one process are not independent
    (that is a matter of property C19, kept out of this check)."""
    z = {}
    z["vv_s"] = {  # A(1-) -> B(1-) C(1-) D(0-)   (the layout of the library's own toy)
        "order": ["B", "C", "D"],
        "decay": {"A": [["R_BC", "D"], ["R_BD", "C"], ["R_CD", "B"]], "R_BC": ["B", "C"], "R_BD": ["B", "D"], "R_CD": ["C", "D"]},
        "particle": {
            "$top": {"A": {"J": 1, "P": -1, "spins": [-1, 1], "mass": 4.6}},
            "$finals": {"B": {"J": 1, "P": -1, "mass": 2.00698}, "C": {"J": 1, "P": -1, "mass": 2.01028}, "D": {"J": 0, "P": -1, "mass": 0.13957}},
            "R_BC": {"J": 1, "Par": 1, "m0": 4.16, "g0": 0.1},
            "R_BD": {"J": 1, "Par": 1, "m0": 2.43, "g0": 0.3},
            "R_CD": {"J": 1, "Par": 1, "m0": 2.42, "g0": 0.03},
        },
    }
    z["half"] = {  # Lb(1/2+) -> p(1/2+) K(0-) Jp(1-): spin-1/2 parent, resonances 3/2 and 1/2; two chains
        "order": ["p", "K", "Jp"],
        "decay": {"Lb": [["Ls", "Jp"], ["Pc", "K"]], "Ls": ["p", "K"], "Pc": ["p", "Jp"]},
        "particle": {
            "$top": {"Lb": {"J": 0.5, "P": 1, "mass": 5.6}},
            "$finals": {"p": {"J": 0.5, "P": 1, "mass": 0.94}, "K": {"J": 0, "P": -1, "mass": 0.49}, "Jp": {"J": 1, "P": -1, "mass": 3.1}},
            "Ls": {"J": 1.5, "Par": -1, "m0": 1.52, "g0": 0.016},
            "Pc": {"J": 0.5, "Par": -1, "m0": 4.45, "g0": 0.04},
        },
    }
    z["sss"] = {  # all spin 0 with spin 1 / 2 resonances
        "order": ["pa", "pb", "Ks"],
        "decay": {"Dz": [["rho", "Ks"], ["K2", "pb"], ["Kst", "pa"]], "rho": ["pa", "pb"], "K2": ["pa", "Ks"], "Kst": ["pb", "Ks"]},
        "particle": {
            "$top": {"Dz": {"J": 0, "P": -1, "mass": 1.87}},
            "$finals": {"pa": {"J": 0, "P": -1, "mass": 0.14}, "pb": {"J": 0, "P": -1, "mass": 0.14}, "Ks": {"J": 0, "P": -1, "mass": 0.49}},
            "rho": {"J": 1, "Par": -1, "m0": 0.77, "g0": 0.15},
            "K2": {"J": 2, "Par": 1, "m0": 1.43, "g0": 0.1},
            "Kst": {"J": 1, "Par": -1, "m0": 0.89, "g0": 0.05},
        },
    }
    for tag, cp_trans in (("cc_off", False), ("cc_on", True)):
        # parity-violating decays (p_break) + events of both charges: with cp_trans False the amplitude flips the
        # helicities of the charge -1 events (allow_cc, needs data["charge_conjugation"]); with cp_trans True (default)
        # the momenta of those events are parity-transformed by the preprocessor instead.
        x = "f" if cp_trans else "n"  # distinct particle names per configuration
        A, B, Cc, D, R1, R2, R3 = ("%s%s" % (n, x) for n in ("Y", "Vb", "Vc", "Pd", "Rbc", "Rbd", "Rcd"))
        z[tag] = {
            "order": [B, Cc, D],
            "charges": True,
            "bg": True,
            "base_data": {"cp_trans": cp_trans},
            "decay": {A: [[R1, D, {"p_break": True}], [R2, Cc, {"p_break": True}], [R3, B]],
                      R1: [B, Cc, {"p_break": True}], R2: [B, D], R3: [Cc, D, {"p_break": True}]},
            "particle": {
                "$top": {A: {"J": 1, "P": -1, "spins": [-1, 1], "mass": 4.6}},
                "$finals": {B: {"J": 1, "P": -1, "mass": 2.00698}, Cc: {"J": 1, "P": -1, "mass": 2.01028}, D: {"J": 0, "P": -1, "mass": 0.13957}},
                R1: {"J": 1, "Par": 1, "m0": 4.16, "g0": 0.1},
                R2: {"J": 1, "Par": 1, "m0": 2.43, "g0": 0.3},
                R3: {"J": 1, "Par": 1, "m0": 2.42, "g0": 0.03},
            },
        }
    z["cas4"] = {  # 4-body cascade: the decay Qa -> Qx Fe is ONE object shared by both chains (state kept on a decay object,
        # e.g. mask_factor of temp_total_gls_one, is visited once per chain); it has two partial waves, the second one free
        "order": ["Fb", "Fc", "Fd", "Fe"],
        "decay": {"Qa": [["Qx", "Fe"]], "Qx": [["Qbc", "Fd"], ["Qbd", "Fc"]], "Qbc": ["Fb", "Fc"], "Qbd": ["Fb", "Fd"]},
        "particle": {
            "$top": {"Qa": {"J": 1, "P": -1, "mass": 5.3}},
            "$finals": {"Fb": {"J": 1, "P": -1, "mass": 0.5}, "Fc": {"J": 0, "P": -1, "mass": 0.3},
                        "Fd": {"J": 0, "P": -1, "mass": 0.2}, "Fe": {"J": 0, "P": -1, "mass": 0.14}},
            "Qx": {"J": 1, "Par": 1, "m0": 3.5, "g0": 0.3},
            "Qbc": {"J": 1, "Par": 1, "m0": 1.5, "g0": 0.2},
            "Qbd": {"J": 1, "Par": 1, "m0": 1.4, "g0": 0.25},
        },
    }
    z["interleave"] = {  # chains of two topologies declared INTERLEAVED (Ya, Yb, Ya', Yb'): get_chains_map groups the chains by
        # topology, every per-chain list a strategy builds must still follow the chain order (seeded change C05-04)
        "order": ["Gb", "Gc", "Gd"],
        "decay": {"Ga": [["Ybc1", "Gd"], ["Ybd1", "Gc"], ["Ybc2", "Gd"], ["Ybd2", "Gc"]],
                  "Ybc1": ["Gb", "Gc"], "Ybc2": ["Gb", "Gc"], "Ybd1": ["Gb", "Gd"], "Ybd2": ["Gb", "Gd"]},
        "particle": {
            "$top": {"Ga": {"J": 0, "P": -1, "mass": 3.0}},
            "$finals": {"Gb": {"J": 0, "P": -1, "mass": 0.5}, "Gc": {"J": 0, "P": -1, "mass": 0.3}, "Gd": {"J": 0, "P": -1, "mass": 0.2}},
            "Ybc1": {"J": 1, "Par": -1, "m0": 1.2, "g0": 0.2},
            "Ybc2": {"J": 1, "Par": -1, "m0": 1.9, "g0": 0.15},
            "Ybd1": {"J": 1, "Par": -1, "m0": 1.4, "g0": 0.25},
            "Ybd2": {"J": 1, "Par": -1, "m0": 2.1, "g0": 0.1},
        },
    }
    return z


ZOO_META = ("order", "charges", "bg", "base_data")


def build_config(cfg_dic, data_opts=None):
    """ConfigLoader from a dict (a deep copy, so that nothing is shared between strategies)."""
    import copy
    from tf_pwa.config_loader import ConfigLoader
    d = copy.deepcopy(cfg_dic)
    order = d["order"]
    base_data = d.get("base_data", {})
    for k in ZOO_META:
        d.pop(k, None)
    d.setdefault("data", {})
    d["data"].update(copy.deepcopy(base_data))
    d["data"].setdefault("dat_order", list(order))
    if data_opts:
        d["data"].update(copy.deepcopy(data_opts))
    return ConfigLoader(d)


def gen_p4(cfg_dic, n, seed):
    """Phase-space momenta for the zoo config, from a seeded generator (numpy arrays keyed by final-state name)."""
    import numpy as np
    from tf_pwa.phasespace import PhaseSpaceGenerator
    import tensorflow as tf
    part = cfg_dic["particle"]
    m0 = list(part["$top"].values())[0]["mass"]
    ms = [part["$finals"][k]["mass"] for k in cfg_dic["order"]]
    tf.random.set_seed(1000 + seed)
    np.random.seed(1000 + seed)
    ps = PhaseSpaceGenerator(m0, ms)
    p = ps.generate(n)
    return [np.asarray(i) for i in p]


def harvest_expressions(ctx):
    """Wrap tf_pwa.amp.core.einsum while evaluating the zoo: the expressions/shapes the amplitude builder emits."""
    import tf_pwa.amp.core as core
    rec = []
    orig = core.einsum

    def wrapped(expr, *args, **kw):
        rec.append((expr, tuple(tuple(int(i) for i in a.shape) for a in args), tuple(a.dtype.name for a in args)))
        return orig(expr, *args, **kw)

    core.einsum = wrapped
    n_ev = 5
    try:
        for name, cfg in sorted(zoo_configs().items()):
            if cfg.get("charges") and ctx.quick and not ctx.suspect:
                continue  # same expression families as vv_s; harvested in the thorough tier
            for opts in (({}, {"align_ref": "center_mass"}) if (ctx.quick and not ctx.suspect) else ({}, {"align_ref": "center_mass"}, {"only_left_angle": True}, {"center_mass": True, "random_z": False})):
                try:
                    c = build_config(cfg, opts)
                    p4 = gen_p4(cfg, n_ev, ctx.seed)
                    data = c.data.cal_angle(p4)
                    c.get_amplitude()(data)
                except Exception as e:  # an option not applicable to this structure
                    C.log("[C05] harvest %s %s: %s %s" % (name, opts, type(e).__name__, str(e)[:100]))
    finally:
        core.einsum = orig
    uniq = sorted(set(rec))
    return uniq, n_ev


def harvested_cases(ctx, rnd, uniq, n_ev, per):
    import numpy as np
    cases = []
    for (expr, shapes, dtypes) in uniq:
        for rep in range(per):
            nb = rnd.choice([1, 2, 3])
            shp = [[nb if (i == 0 and s == n_ev) else s for i, s in enumerate(sh)] for sh in shapes]
            kind = "G" if (rep % 2 == 0 and any("complex" in d for d in dtypes)) else "Z"
            ops = []
            for sh in shp:
                n = int(np.prod(sh)) if sh else 1
                if kind == "Z":
                    ops.append(np.array([rnd.randint(-2, 2) for _ in range(n)], dtype=np.int64).reshape(sh))
                else:
                    ops.append(np.array([complex(rnd.randint(-2, 2), rnd.randint(-1, 1)) for _ in range(n)], dtype=np.complex128).reshape(sh))
            forced = random_path(rnd, len(shp)) if rep >= 2 and rep % 2 == 1 else None
            cases.append(EinCase(expr, ops, kind, forced, "harvested"))
    return cases


def einsum_cases(ctx):
    rnd = random.Random(ctx.seed * 7919 + 5)
    uniq, n_ev = harvest_expressions(ctx)
    n_rand = 260 if ctx.quick else 20000
    per = 4 if ctx.quick else 16
    cases = harvested_cases(ctx, rnd, uniq, n_ev, per)
    cases += [gen_case(rnd, i) for i in range(n_rand)]
    cases += tie_family(rnd, 24 if ctx.quick else 120)
    return cases, uniq


def classify_fail(case):
    """Stable key of a wrong value returned by tf_pwa.einsum.einsum."""
    if order_has_tie(case.real_order):
        return "einsum:order-tie"
    return "einsum:wrong-value"


_EIN_CACHE = {}


def einsum_run(ctx):
    """Runs every case on the implementation once (shared by correspond and search)."""
    key = (ctx.seed, ctx.tier)
    if key not in _EIN_CACHE:
        cases, uniq = einsum_cases(ctx)
        for c in cases:
            run_impl(c)
        _EIN_CACHE[key] = (cases, uniq)
    return _EIN_CACHE[key]


def correspond_einsum(ctx, res):
    import numpy as np
    cases, uniq = einsum_run(ctx)
    variant = observe_variant()
    lines = [model_line(c, variant) for c in cases]
    # ordered_indices itself, wherever the implementation got that far
    ord_idx = [i for i, c in enumerate(cases) if c.real_order is not None]
    for i in ord_idx:
        c = cases[i]
        ins, out = enc_expr(c.expr2)
        lines.append("C05 ord %s %s %s %s" % ("1" if variant == "B" else "0", ins, out, enc_nats(ord(ch) for ch in c.proc)))
    # which programs lie inside the hypotheses of C05b.einsum_correct (decidable form `hypCheck` of the model)
    n_main = len(lines)
    lines += [model_line(c, variant).replace("C05 ein ", "C05 hyp ", 1) for c in cases]
    ans_all = ctx.model.query(lines)
    ans = ans_all[:n_main]
    hyp_ans = ans_all[n_main:]
    hyp_hist = {}
    hyp_in_ok = 0
    hyp_dis = []
    for c, a, hans in zip(cases, ans[:len(cases)], hyp_ans):
        hyp_hist[hans] = hyp_hist.get(hans, 0) + 1
        if hans == "in" and c.impl[0] == "ok":
            hyp_in_ok += 1
        if hans == "out:final-order" and a.startswith("ok"):
            # the model returns a tensor although the last operand is not laid out along the output labels: the order
            # values of the output labels do not increase along the output (hypothesis `hend` of einsum_correct)
            hyp_dis.append((c, hans))
    # the order values of the output labels must increase along the output (what makes every reducing path end at
    # the output layout): checked on the real ordered_indices of every program that reaches it
    mono_bad = []
    for c in cases:
        if c.real_order is None or c.expr2 is None:
            continue
        outl = c.expr2.split("->")[1]
        vals = [c.real_order[ch] for ch in outl]
        if any(not (vals[i] < vals[i + 1]) for i in range(len(vals) - 1)):
            mono_bad.append((c, vals))
    n_ok = n_raise = n_tie = n_tflimit = 0
    dis = []
    shapes_seen = set()
    for c, a in zip(cases, ans[:len(cases)]):
        tag, arr = parse_model(a, c.kind)
        if tag == "tie":
            n_tie += 1
            continue
        if tag == "bad-op":
            dis.append((c, "model: bad-op", c.impl[0]))
            continue
        if c.impl[0] == "raise" and c.impl[1] in TF_LIMITS:
            n_tflimit += 1  # a TensorFlow kernel limitation (e.g. broadcasting above 5 axes): the routine declines
            continue
        if c.impl[0] == "raise":
            n_raise += 1
            if tag != "raise":
                dis.append((c, "model: %s" % tag, "impl raises %s" % c.impl[1]))
            continue
        if tag != "ok":
            dis.append((c, "model: %s" % tag, "impl returns a value"))
            continue
        n_ok += 1
        shapes_seen.add((c.expr, tuple(tuple(o.shape) for o in c.ops)))
        if not same_array(arr, c.impl[1]):
            dis.append((c, "model value %s" % np.asarray(arr).tolist(), "impl value %s" % np.asarray(c.impl[1]).tolist()))
    n_ord = 0
    ord_dis = []
    for i, a in zip(ord_idx, ans[len(cases):]):
        c = cases[i]
        n_ord += 1
        real = {(ord(k) if len(k) == 1 else (1 if k == "_min" else 2)): float(v) for k, v in c.real_order.items()}
        if not a.startswith("ok"):
            ord_dis.append((c.expr2, a, real))
            continue
        mod = {}
        for tok in a.split(" ")[1:]:
            k, bits = tok.split(":")
            mod[int(k)] = C.h2f(bits)
        if mod != real:
            ord_dis.append((c.expr2, mod, real))
    res.coverage.update({
        "programs": len(cases),
        "traces_validated_against_impl": len(cases) + n_ord,
        "evaluations": len(cases) + n_ord,
        "distinct_nontrivial": len(shapes_seen),
        "rule": "einsum programs = every expression/shape harvested from DecayChain.get_amp over the config zoo (batch size varied, integer data, opt_einsum path and random valid paths) + seeded random expressions (1-6 operands, ellipsis, size-1 axes, upper-case labels, repeated labels, broadcasting, malformed stream) + the relabelings of 'xab,bx,ax->x'; non-trivial = distinct (expression, shapes) on which model and implementation both return a tensor; ordered_indices compared bit-for-bit on every program that reaches it",
        "exhaustive": False,
        "einsum_variant_observed": {"A": "ordered_indices may tie (unfixed tree)", "B": "ordered_indices strict (fixed tree)"}[variant],
        "einsum_harvested_expressions": [u[0] for u in uniq],
        "einsum_model_ok": n_ok, "einsum_impl_raises": n_raise, "einsum_model_tie_skipped": n_tie, "einsum_impl_declines_tf_kernel_limit": n_tflimit,
        "einsum_ordered_indices_compared": n_ord,
        "einsum_disagreements": len(dis) + len(ord_dis),
        "einsum_programs_inside_einsum_correct_hypotheses": hyp_hist.get("in", 0),
        "einsum_programs_inside_hypotheses_and_impl_returns": hyp_in_ok,
        "einsum_hypotheses_histogram": dict(sorted(hyp_hist.items())),
        "einsum_output_order_monotone_violations": len(mono_bad),
    })
    if mono_bad:
        c, vals = mono_bad[0]
        res.broke("ordered_indices: order values of the output labels do not increase along the output (hypothesis of einsum_correct)",
                  {"expr2": c.expr2, "values": [float(v) for v in vals], "n": len(mono_bad), "case": c.payload()})
    if hyp_dis:
        c, hans = hyp_dis[0]
        res.broke("einsum: the loop ends with an operand that is not laid out along the output labels, yet a tensor is returned",
                  {"expr": c.expr, "shapes": [list(o.shape) for o in c.ops], "path": c.path, "n": len(hyp_dis), "case": c.payload()})
    for c in cases[:2] + cases[len(cases) // 2:len(cases) // 2 + 2]:
        res.samples.append({"expr": c.expr, "shapes": [list(o.shape) for o in c.ops], "path": c.path, "impl": c.impl[0], "origin": c.origin})
    for c, m, i in dis[1:6]:
        C.log("[C05] einsum disagreement: %s %s path=%s proc=%s | %s | %s" % (c.expr, [list(o.shape) for o in c.ops], c.path, c.proc, str(m)[:200], str(i)[:200]))
    if dis:
        c, m, i = dis[0]
        res.broke("correspondence einsumCustom vs tf_pwa.einsum.einsum", {"expr": c.expr, "shapes": [list(o.shape) for o in c.ops], "path": c.path, "proc": c.proc, "model": str(m)[:400], "impl": str(i)[:400], "n": len(dis), "case": c.payload()})
    if ord_dis:
        e, m, r = ord_dis[0]
        res.broke("correspondence orderedIndices vs tf_pwa.einsum.ordered_indices", {"expr2": e, "model": str(m)[:600], "impl": str(r)[:600], "n": len(ord_dis)})


def search_einsum(ctx, res):
    """The property itself: tf_pwa.einsum.einsum returns numpy.einsum's value or raises."""
    cases, uniq = einsum_run(ctx)
    extra = []
    if ctx.suspect:
        rnd = random.Random(ctx.seed * 104729 + 11)
        extra = [gen_case(rnd, i) for i in range(600 if ctx.quick else 3000)]
        extra += harvested_cases(ctx, rnd, uniq, 5, 8)
        for c in extra:
            run_impl(c)
    n = 0
    for c in list(cases) + extra:
        if c.impl[0] != "ok":
            continue
        want = oracle(c)
        if want is None:
            continue
        n += 1
        if not same_array(c.impl[1], want):
            import numpy as np
            res.fail(classify_fail(c), "tf_pwa.einsum.einsum(%r) on integer operands of shapes %s (path %s) returns %s, numpy.einsum gives %s" % (
                c.expr, [list(o.shape) for o in c.ops], c.path, np.asarray(c.impl[1]).reshape(-1).tolist()[:12], np.asarray(want).reshape(-1).tolist()[:12]),
                {"kind": "einsum", "case": c.payload()})
    res.coverage["einsum_search_vs_numpy"] = n


def replay_einsum(payload, key=None):
    import numpy as np
    p = payload["case"]
    base = EinCase.from_payload(p)
    # the defect class depends on the string-hash seed through set iteration: try the stored labels first, then
    # every relabeling of the expression from a fixed pool (the structure is what fails, not the letters)
    letters = sorted(set(base.expr) - set(".,->"))
    tried = 0
    pools = [tuple(letters)]
    pool_src = [c for c in LOWER + UPPER]
    rnd = random.Random(12345)
    for _ in range(400):
        pools.append(tuple(rnd.sample(pool_src, len(letters))))
    for new in pools:
        mp = dict(zip(letters, new))
        expr = "".join(mp.get(ch, ch) for ch in base.expr)
        c = EinCase(expr, base.ops, base.kind, base.forced_path, "replay")
        run_impl(c)
        tried += 1
        if c.impl[0] != "ok":
            continue
        want = oracle(c)
        if want is not None and not same_array(c.impl[1], want):
            if key is not None and classify_fail(c) != key:
                continue  # a failure of another class (listed separately)
            print("still failing: tf_pwa.einsum.einsum(%r) = %s, numpy.einsum = %s" % (expr, np.asarray(c.impl[1]).reshape(-1).tolist()[:12], np.asarray(want).reshape(-1).tolist()[:12]))
            return 1
    print("einsum replay: %d relabelings of %r agree with numpy.einsum (or decline)" % (tried, base.expr))
    return 0


# ======================================================================================================
# (b) evaluation strategies (kind R: validated on the implementation)
# ======================================================================================================

DENSITY_TOL = 1e-10
NLL_TOL = 1e-8

DENSITY_STRATEGIES = {
    # name: (data options, needs tracing = slow)
    "cached_amp": ({"amp_model": "cached_amp", "preprocessor": "cached_amp"}, False),
    "cached_amp+no_p4+no_angle": ({"amp_model": "cached_amp", "preprocessor": "cached_amp", "no_p4": True, "no_angle": True}, False),
    "cached_shape": ({"amp_model": "cached_shape", "preprocessor": "cached_shape"}, False),
    "base_factor": ({"amp_model": "base_factor"}, False),
    "base_factor+cached_angle": ({"amp_model": "base_factor", "preprocessor": "cached_angle"}, False),
    "p4_directly": ({"amp_model": "p4_directly", "preprocessor": "p4_directly"}, False),
    "lazy_call": ({"lazy_call": True}, False),
    "lazy_call+cached_amp": ({"lazy_call": True, "amp_model": "cached_amp", "preprocessor": "cached_amp"}, False),
    "use_tf_function": ({"use_tf_function": True}, True),
    "use_tf_function+no_id_cached": ({"use_tf_function": True, "no_id_cached": True}, True),
    "use_tf_function+jit_compile": ({"use_tf_function": True, "jit_compile": True}, True),
    "cached_amp+use_tf_function": ({"amp_model": "cached_amp", "preprocessor": "cached_amp", "use_tf_function": True}, True),
}

NLL_STRATEGIES = {
    # name: (data options, baseline name)
    "cached_int": ({"cached_int": True}, "default"),
    "cached_amp(nll)": ({"cached_amp": True}, "default"),
    "lazy_call(nll)": ({"lazy_call": True}, "default"),
    "use_tf_function(nll)": ({"use_tf_function": True}, "default"),
    "cfit_cached": ({"model": "cfit", "bg_frac": 0.2, "cached_amp": True}, "cfit"),
    "cfit+lazy_call": ({"model": "cfit", "bg_frac": 0.2, "lazy_call": True}, "cfit"),
}
NLL_BASE = {"default": {}, "cfit": {"model": "cfit", "bg_frac": 0.2}}


class quiet_stdout:
    """tf_pwa prints progress on stdout; the check's stdout carries only VIOLATION / KNOWN-FINDING lines."""

    def __enter__(self):
        import sys
        self._old = sys.stdout
        sys.stdout = open(os.devnull, "w")

    def __exit__(self, *a):
        import sys
        sys.stdout.close()
        sys.stdout = self._old


class StratEnv:
    """Files + parameters for one zoo configuration (everything derived from the seed)."""

    def __init__(self, name, seed, n_data=10, n_phsp=40):
        import tempfile
        import numpy as np
        self.name = name
        self.seed = seed
        self.cfg = zoo_configs()[name]
        self.tmp = tempfile.mkdtemp(prefix="c05_")
        self.n_data, self.n_phsp = n_data, n_phsp
        rng = np.random.default_rng(seed * 131 + 7)
        for tag, n, s in (("data", n_data, seed), ("phsp", n_phsp, seed + 500)):
            p4 = gen_p4(self.cfg, n, s)
            np.savetxt(os.path.join(self.tmp, tag + ".dat"), np.stack(p4, axis=1).reshape(-1, 4))
            np.savetxt(os.path.join(self.tmp, tag + "_bg_value.dat"), rng.uniform(0.5, 1.5, size=n))
            np.savetxt(os.path.join(self.tmp, tag + "_eff_value.dat"), rng.uniform(0.5, 1.5, size=n))
            np.savetxt(os.path.join(self.tmp, tag + "_weight.dat"), rng.uniform(0.5, 1.5, size=n))
            ch = rng.choice([1.0, -1.0], size=n)
            ch[0], ch[1] = 1.0, -1.0  # both charges always present
            np.savetxt(os.path.join(self.tmp, tag + "_charge.dat"), ch)
            if tag == "data":
                self.data_charge = ch
        n_bg = max(4, n_data // 2)
        np.savetxt(os.path.join(self.tmp, "bg.dat"), np.stack(gen_p4(self.cfg, n_bg, seed + 900), axis=1).reshape(-1, 4))
        np.savetxt(os.path.join(self.tmp, "bg_weight.dat"), rng.uniform(0.5, 1.5, size=n_bg))
        np.savetxt(os.path.join(self.tmp, "bg_charge.dat"), rng.choice([1.0, -1.0], size=n_bg))
        self.has_charges = bool(self.cfg.get("charges"))
        self.has_bg = bool(self.cfg.get("bg"))
        self.rng = rng
        self.params = None
        self.cache = {}

    def data_section(self, opts):
        d = {"dat_order": list(self.cfg["order"]), "data": [os.path.join(self.tmp, "data.dat")], "phsp": [os.path.join(self.tmp, "phsp.dat")]}
        d.update(opts)
        for tag in ("data", "phsp"):  # non-trivial event weights: a strategy that loses them changes the NLL
            d[tag + "_weight"] = os.path.join(self.tmp, tag + "_weight.dat")
        if self.has_charges:  # events of both charges, supplied the way ConfigLoader reads them
            for tag in ("data", "phsp"):
                d[tag + "_charge"] = os.path.join(self.tmp, tag + "_charge.dat")
        if d.get("model") == "cfit":
            for tag in ("data", "phsp"):
                d[tag + "_bg_value"] = os.path.join(self.tmp, tag + "_bg_value.dat")
                d[tag + "_eff_value"] = os.path.join(self.tmp, tag + "_eff_value.dat")
        elif self.has_bg:  # a background sample subtracted with weight -bg_weight (its own weights and charges)
            d["bg"] = [os.path.join(self.tmp, "bg.dat")]
            d["bg_weight"] = 0.3
            d["bg_charge"] = os.path.join(self.tmp, "bg_charge.dat")
        return d

    def config(self, opts):
        c = build_config(self.cfg, self.data_section(opts))
        if self.params is None:
            amp = c.get_amplitude()
            params = {k: float(v) for k, v in amp.get_params().items()}
            for k in amp.vm.trainable_vars:
                params[k] = float(self.rng.uniform(-1.5, 1.5))
            self.params = params
        c.set_params(dict(self.params))
        return c

    def close(self):
        import shutil
        shutil.rmtree(self.tmp, ignore_errors=True)


def density(env, opts, calls=2):
    """Density of the data events under the options: list of arrays, one per call on the same data object
    (the 2nd call takes the id()-cached / tf.function path of AbsPDF.__call__)."""
    import numpy as np
    with quiet_stdout():
        c = env.config(opts)
        amp = c.get_amplitude()
        d = c.get_data("data")[0]
        return [np.asarray(amp(d)) for _ in range(calls)]


def nll_grad(env, opts):
    import numpy as np
    with quiet_stdout():
        c = env.config(opts)
        fcn = c.get_fcn()
        nll, g = fcn.nll_grad({})
        return float(nll), np.asarray(g, dtype=float), list(fcn.vm.trainable_vars)


def rel_dev(a, b):
    import numpy as np
    a = np.asarray(a, dtype=float)
    b = np.asarray(b, dtype=float)
    if a.shape != b.shape:
        return float("inf")
    if not (np.all(np.isfinite(a)) and np.all(np.isfinite(b))):
        return float("inf")
    return float(np.max(np.abs(a - b) / np.maximum(np.abs(b), 1e-300))) if a.size else 0.0


def strategy_one(env, kind, name):
    """Returns (deviation, detail) of one strategy against plain eager evaluation; raises if not applicable."""
    import numpy as np
    if kind == "density":
        if "density" not in env.cache:
            env.cache["density"] = density(env, {}, calls=1)[0]
        ref = env.cache["density"]
        vals = density(env, DENSITY_STRATEGIES[name][0])
        dev = max(rel_dev(v, ref) for v in vals)
        detail = {"ref": ref[:4].tolist(), "got": vals[-1][:4].tolist()}
        if env.has_charges:
            ch = env.data_charge
            detail["per_charge"] = {"+1": max(rel_dev(v[ch > 0], ref[ch > 0]) for v in vals),
                                    "-1": max(rel_dev(v[ch < 0], ref[ch < 0]) for v in vals)}
            detail["charges"] = ch[:4].tolist()
        return dev, detail
    opts, base = NLL_STRATEGIES[name]
    if base not in env.cache:
        env.cache[base] = nll_grad(env, NLL_BASE[base])
    n0, g0, v0 = env.cache[base]
    n1, g1, v1 = nll_grad(env, opts)
    if v0 != v1:
        return float("inf"), {"trainable_vars": [v0, v1]}
    scale = max(1.0, float(np.max(np.abs(g0)))) if g0.size else 1.0
    dev = max(abs(n1 - n0) / max(1.0, abs(n0)), float(np.max(np.abs(g1 - g0))) / scale if g0.size else 0.0)
    if not np.isfinite(dev):
        dev = float("inf")
    return dev, {"nll": [n0, n1], "grad_ref": g0[:4].tolist(), "grad": g1[:4].tolist()}


def wrapfun_probe(res):
    """Designer's observation: WrapFun keys its cache of traced functions by the NUMBER of leaves of the argument."""
    import numpy as np
    from tf_pwa.experimental.wrap_function import WrapFun

    def f(d):
        return d["x"] * d.get("c", 1.0) + 0.0 * d.get("w", 0.0)

    x = np.arange(1.0, 4.0)
    d1 = {"x": x, "w": np.ones(3) * 5}
    d2 = {"x": x, "c": -np.ones(3)}
    g = WrapFun(f)
    g(d1)
    try:
        got = np.asarray(g(d2))
        if rel_dev(got, np.asarray(f(d2))) > DENSITY_TOL:
            res.fail("WrapFun:cache-key:leaf-count", "WrapFun(f) called on {'x','w'} and then on {'x','c'} (same number of leaves) evaluates the second dict with the keys of the first: got %s, eager f gives %s" % (
                got.tolist(), np.asarray(f(d2)).tolist()), {"kind": "wrapfun", "case": "leaf-count"})
    except Exception as e:  # declining is not a different value
        res.notes.append("WrapFun leaf-count probe raises %s" % type(e).__name__)
    h = WrapFun(lambda d: d["x"] * d["s"])
    h({"x": x, "s": 2.0})
    try:
        got = np.asarray(h({"x": x, "s": 3.0}))
        if rel_dev(got, x * 3.0) > DENSITY_TOL:
            res.fail("WrapFun:cache-key:non-tensor-leaf", "WrapFun(f) called with the Python scalar leaf s=2.0 and then s=3.0 reuses the traced function with s=2.0: got %s, eager f gives %s" % (
                got.tolist(), (x * 3.0).tolist()), {"kind": "wrapfun", "case": "non-tensor-leaf"})
    except Exception as e:
        res.notes.append("WrapFun scalar-leaf probe raises %s" % type(e).__name__)


QUICK_SECONDARY = ("cached_amp", "cached_shape", "base_factor+cached_angle", "p4_directly", "lazy_call")
QUICK_SKIP_PRIMARY = ("use_tf_function+no_id_cached", "lazy_call+cached_amp", "cached_amp+use_tf_function")
QUICK_PRIMARY_NLL = ("lazy_call(nll)", "use_tf_function(nll)")  # the cached likelihood models run on cc_off in the quick tier
# charge-conjugation structures: the strategies that build per-event tensors ahead of the amplitude call
QUICK_CC = {
    "cc_off": (("cached_amp", "cached_shape", "base_factor", "base_factor+cached_angle", "p4_directly", "lazy_call", "cached_amp+use_tf_function"),
               ("cached_int", "cached_amp(nll)", "cfit_cached")),
    "cc_on": (("cached_amp", "cached_shape", "base_factor+cached_angle", "p4_directly"), ()),
}


def strategy_plan(ctx):
    """(config, kind, strategy) triples of the tier: quick = every strategy family on the richest structure (vv_s), the
    cheap cached / factorised / p4 / lazy strategies on the other structures and the pre-cached strategies (densities
    and likelihoods) on the charge-conjugation structures; thorough = everything everywhere."""
    plan = []
    names = sorted(zoo_configs())
    for cn in names:
        if ctx.quick and cn in QUICK_CC:
            plan += [(cn, "density", sn) for sn in QUICK_CC[cn][0]] + [(cn, "nll", sn) for sn in QUICK_CC[cn][1]]
            continue
        primary = (cn == "vv_s") or not ctx.quick
        for sn, (opts, slow) in DENSITY_STRATEGIES.items():
            if not ctx.quick:
                plan.append((cn, "density", sn))
            elif primary and sn not in QUICK_SKIP_PRIMARY:
                plan.append((cn, "density", sn))
            elif not primary and sn in QUICK_SECONDARY:
                plan.append((cn, "density", sn))
        if primary:
            for sn in NLL_STRATEGIES:
                if not ctx.quick or sn in QUICK_PRIMARY_NLL:
                    plan.append((cn, "nll", sn))
    return plan


def search_strategies(ctx, res):
    import time
    plan = strategy_plan(ctx)
    envs = {}
    done = []
    worst = {}
    per_charge = {}
    t0 = time.time()
    try:
        for (cn, kind, sn) in plan:
            if cn not in envs:
                envs[cn] = StratEnv(cn, ctx.seed)
            env = envs[cn]
            try:
                dev, detail = strategy_one(env, kind, sn)
            except C.InfraError:
                raise
            except Exception as e:
                res.fail("strategy:%s:raises" % sn, "strategy %s (%s) on zoo config %s raises %s: %s" % (sn, kind, cn, type(e).__name__, str(e)[:300]),
                         {"kind": "strategy", "config": cn, "what": kind, "strategy": sn, "seed": ctx.seed})
                continue
            done.append((cn, kind, sn, dev))
            worst[sn] = max(worst.get(sn, 0.0), dev)
            if isinstance(detail, dict) and "per_charge" in detail:
                per_charge.setdefault(cn, {})[sn] = {k: float("%.3g" % v) for k, v in detail["per_charge"].items()}
            tol = DENSITY_TOL if kind == "density" else NLL_TOL
            if not dev <= tol:
                res.fail("strategy:%s" % sn, "strategy %s on zoo config %s: %s deviates from plain eager evaluation by %.3g (tolerance %g): %s" % (
                    sn, cn, kind, dev, tol, detail), {"kind": "strategy", "config": cn, "what": kind, "strategy": sn, "seed": ctx.seed})
    finally:
        for e in envs.values():
            e.close()
    wrapfun_probe(res)
    res.coverage["strategy_comparisons"] = len(done)
    res.coverage["strategy_configs"] = sorted(envs)
    res.coverage["strategy_worst_relative_deviation"] = {k: float("%.3g" % v) for k, v in sorted(worst.items())}
    res.coverage["strategy_per_charge_residuals"] = per_charge
    res.coverage["strategy_per_event_extras"] = {
        "weight": "data_weight / phsp_weight files, uniform(0.5,1.5): every NLL comparison; bg sample with its own weights on cc_off / cc_on",
        "charge_conjugation": "data_charge / phsp_charge / bg_charge files with both signs on cc_off (cp_trans False: helicity flip inside the amplitude) and cc_on (cp_trans True: parity-transformed momenta); all decays but one p_break",
        "eff_value / bg_value": "data_* / phsp_* files, uniform(0.5,1.5): cfit vs cfit_cached",
    }
    res.coverage["strategy_tolerances"] = {"density": DENSITY_TOL, "nll_and_gradient": NLL_TOL}
    res.coverage["strategy_wall_s"] = round(time.time() - t0, 1)
    res.samples.append({"strategy": done[0][2], "config": done[0][0], "relative_deviation": done[0][3]} if done else {"strategy": "none run"})


def replay_strategy(ctx, r):
    env = StratEnv(r["config"], int(r.get("seed", 0)))
    try:
        try:
            dev, detail = strategy_one(env, r["what"], r["strategy"])
        except Exception as e:
            print("still failing: strategy %s raises %s: %s" % (r["strategy"], type(e).__name__, str(e)[:300]))
            return 1
    finally:
        env.close()
    tol = DENSITY_TOL if r["what"] == "density" else NLL_TOL
    print("strategy %s on %s: deviation %.3g (tolerance %g) %s" % (r["strategy"], r["config"], dev, tol, detail))
    return 0 if dev <= tol else 1


def replay_wrapfun(r):
    res = C.Result()
    wrapfun_probe(res)
    for f in res.failures:
        print("still failing:", f.what)
    return 1 if any(f.replay.get("case") == r.get("case") for f in res.failures) else 0


# ======================================================================================================
# driver entry points
# ======================================================================================================

def correspond(ctx, res):
    correspond_einsum(ctx, res)
    CF.correspond_factor(ctx, res)
    CS.correspond_shape(ctx, res)


def search(ctx, res):
    search_einsum(ctx, res)
    search_strategies(ctx, res)
    CF.search_factor(ctx, res)
    CS.search_shape(ctx, res)


def replay(ctx, payload):
    r = payload.get("replay") or {}
    if r.get("kind") == "einsum":
        return replay_einsum(r, payload.get("key"))
    if r.get("kind") == "strategy":
        return replay_strategy(ctx, r)
    if r.get("kind") == "wrapfun":
        return replay_wrapfun(r)
    if r.get("kind") == "factor":
        return CF.replay_factor(ctx, r, payload.get("key"))
    if r.get("kind") == "shape":
        return CS.replay_shape(ctx, r, payload.get("key"))
    if payload.get("key") is None:
        print("replay file names a broken obligation, not a failing input: %s" % str(payload.get("broken"))[:3000])
        return 1
    return C.rerun_search_replay(__import__("c05"), ctx, payload)


MANIFEST = {
    "text": "Lean theorems about an executable, step-by-step model of tf_pwa/einsum.py over an arbitrary commutative semiring. FULL routine (Props/C05b.lean): einsum_correct - for every expression (ellipsis included), every list of operands whose shapes are consistent up to numpy-style size-1 broadcasting, every contraction path that reduces the operands to one, both variants of ordered_indices: whenever einsum(expr, *args) returns a tensor it IS the reference contraction (sum over the non-output indices of the product of entries), same shape and same row-major data. Its ingredients, each for all inputs: einsum_step_correct(_bcast) - one call of tensor_einsum_reduce_sum (transpose, reshape with 1's, broadcast product, reduce_sum) equals the reference of its sub-expression, also when an index has dimension 1 in one operand and n in another; einsum_contract_early / einsum_loop_correct(_bcast) - induction over ANY path; einsum_remove_size1_reindex + einsum_removed_labels_have_size1 - remove_size1 and the final reshape are a re-indexing; replace_ellipsis_fresh - the substituted symbols cannot clash; einsum_consistent_assignment - the routine's size_map recovers every consistent size assignment; einsum_path_ends_at_output - a non-empty reducing path ends at the output layout when the order values increase along the output labels; declining cases: invalid expressions, order ties (impossible with the strict ranking: einsum_fixed_order_never_ties), a repeated index inside an operand is delegated to tf.einsum, never mis-computed (einsum_repeated_index_delegates). Factorised / cached strategies as algebra (Model/Factorise.lean, Props/C05c.lean, any commutative ring with conjugation, any sizes): params_vector_row_major, cached_eq_direct (+ helicity sum), factor_eq_direct / factor_total_eq_direct / factor_eq_cached - the cached_amp / base_factor forms equal the direct multilinear expression sum_chains prod_decays (sum_ls g_ls part_ls); cached_int_eq_direct - the cached integral sum_ab p_a conj(p_b) M_ab equals sum_events w |A|^2 GIVEN the cached tensors do not depend on the varied parameters (explicit hypothesis = fixed line-shape parameters; counterexample without it), cached_int_self_conjugate, int_matrix_entry_batch_additive. The models are tied to the code by exact comparison on integer-valued float64/complex128 tensors: einsum over every expression the amplitude builder emits for a zoo of decay structures plus seeded random expressions (ordered_indices bit-for-bit in IEEE doubles), build_params_vector / build_angle_amp_matrix / cached_amp / build_amp2s / FactorAmplitudeModel.get_amp_list / build_int_matrix / cached_int_mc / ModelCachedInt driven on a stub decay group; tf_pwa.einsum.einsum is compared with numpy.einsum directly and the cached functions with a numpy evaluation of the direct expressions. The remaining strategies (Model/FactoriseY.lean, Props/C05d.lean): mask_all_then_restore - temp_total_gls_one (save all flags, set all, restore all) leaves the mask_factor flag of EVERY object unchanged for any visiting sequence with repetitions (decay objects shared by several chains) and any body, masked_during_body, mask_part_visits; fused_final_flags - the one-loop variant (seeded change C05-03) leaves exactly the objects visited at least twice masked, hence fused_restores_without_sharing and fused_breaks_on_shared; cached_shape_eq_direct - for any commutative ring, any decay table with any sharing pattern, any number of chains / decays / ls terms, any couplings and totals at caching time, any chains_idx / cached_shape_idx without repeated entries: CachedShapeAmplitudeModel.pdf on the tensors stored by CachedShapePreProcessor (params vector under the mask times the angular cache; couplings-only vector from get_all_factor at evaluation) equals plain evaluation sum_chains sum_k pv_k ang_k GIVEN barrier factors and propagators of the cached chains are the same at caching and at evaluation time (counter-example without; duplicate-entry branch shown); cached_shape_eq_multilinear - for product-form angular caches that value is sum_chains total rs prod_decays sum_ls g_ls bf_ls part_ls; cache_independent_of_couplings - the cached tensor is the amplitude with every coupling of every chain and decay set to one; cached_shape_session - caching then evaluating with whatever flags the protocol left = plain evaluation (false for the fused loop on the 4-body cascade, kernel-checked); call_value_independent_of_history - the id()-switch of AbsPDF.__call__ as a state machine over calls (any object identities incl. reuse, set_params and chain selections in between, no_id_cached): every call returns pdf(current parameters, data) provided cached_fun and pdf agree as functions, switch_selects_impl says which implementation runs, stale-closure counter-example; p4_directly_eq_default (same cal_angle, same parity map, same resolved cp_trans: identical pipelines; p4_directly_eq_default_config: cp_trans resolved from the same data: entry with the same default on both sides; the bare preprocessor default differs - witness), cp_flip_commutes_with_batching, cached_angle_eq_base_factor (+ the parameter-dependent variant with its hypothesis and counter-example). Tied to the code by exact comparison, on integer-valued tensors, of the real temp_total_gls_one, CachedShapePreProcessor.build_cached, CachedShapeAmplitudeModel.get_cached_shape_idx / pdf (stub decay groups with shared decay objects running the real HelicityDecay.get_g_ls / set_ls and DecayChain.get_amp_total / get_all_factor; couplings changed after caching, floating chains, partial and reordered selections, user cached_shape_idx) and of the real AbsPDF.__init__ / __call__ / set_params (with and without the real WrapFun) with the Lean model; numpy oracle for the direct multilinear expression; the real CachedShapeAmplitudeModel on the 4-body cascade with ALL couplings (and a floating mass / width next to the cached chain) changed after the cache was built. Every data: strategy (cached_amp, cached_shape, base_factor, cached_angle, p4_directly, lazy_call, use_tf_function, jit_compile, no_id_cached, cached_int / cached_amp / cfit cached likelihoods) is compared with plain eager evaluation on the zoo (1e-10 densities, 1e-8 NLL and gradient).",
    "note": "Proved for all inputs: the complete einsum routine (hypotheses: no repeated index inside an operand; consistent positive shapes; valid path), the algebra of the cached / factorised amplitude and of the cached integral. Still validated only: (einsum) that the order values of ordered_indices increase along the output indices - a fact about IEEE doubles, Lean's Float is opaque - checked bit-for-bit and by a direct monotonicity test on every program; empty tensors (a dimension 0); that opt_einsum's path reduces the operands to one; TensorFlow kernels as array semantics. (strategies) the list model of Factorise.lean against TensorFlow reshape / broadcasting is validated by exact correspondence on a stub decay group; that the real DecayGroup serves tensors with the documented axes (m_dep = [g_ls*bf per decay ..., total*propagators], angular cache in split_gls order), factorAmp additivity over inner helicities; for cached_shape the hypothesis 'fixed line shape' is the code's own is_fixed_shape test (validated on the cascade with one floating resonance); for the id()-switch that WrapFun(pdf) equals pdf as a function (TensorFlow tracing; the real WrapFun runs in the correspondence) and LazyCall.eval; for p4_directly / cached_angle that the real stages are the functions of the composition lemmas (the theorems there are wiring identities: which stage may depend on the parameters, how cp_trans is resolved); tf.function / XLA equals eager, the LazyCall pipeline, the cached-integral and cached-amplitude likelihood objects - runtime behaviour of TensorFlow, checked on a zoo of five 3-body structures and the 4-body cascade (spin 0, 1/2, 1, 3/2, 2; two of them with parity-violating decays and events of both charges, once with cp_trans False = helicity flip inside the amplitude and once with cp_trans True = parity-transformed momenta), with non-trivial per-event extras everywhere a strategy could drop them (event weights, background sample, charge_conjugation, eff_value / bg_value); per-charge residuals are recorded in the evidence. Known findings reproduced on every run until their patches land: einsum order ties (wrong tensor, hash-seed dependent), Model_cfit_cached ignoring the efficiency in the normalisation integral, WrapFun cache key. Trusted: Lean kernel, standard axioms, the harness, opt_einsum paths as inputs.",
    "technique": "Lean 4 proof (finite-sum algebra over a commutative semiring / ring with conjugation, induction over operand lists and contraction paths, row-major layout and re-indexing lemmas, fold invariants for size_map) + exact differential correspondence with the implementation on integer tensors (einsum; cached / factorised builders on a stub decay group; cached_shape preprocessor + model and the mask protocol on stub groups with shared decay objects; AbsPDF.__call__ histories) + state-machine induction (flag table, call histories) + direct oracle search (numpy.einsum; numpy evaluation of the direct multilinear expression; eager evaluation for the strategies)",
}
