"""C18 — structured event data operations are lossless (split/merge/mask/index/batch_call, file layouts, LazyCall)."""
import os
import random
import shutil
import tempfile

import common as C

PID = "C18"
DRIVER = [("C18", "TfPwaV.Model.Data", "Data.handle"), ("C18b", "TfPwaV.Model.DataX", "DataX.handle"),
          ("C18c", "TfPwaV.Model.DataY", "DataY.handle"), ("C18d", "TfPwaV.Model.DataZ", "DataZ.handle")]
LEAN_TARGETS = ["TfPwaV.Props.C18", "TfPwaV.Props.C18b", "TfPwaV.Props.C18c", "TfPwaV.Props.C18d"]
PROP_MODULES = ["TfPwaV.Props.C18", "TfPwaV.Props.C18b", "TfPwaV.Props.C18c", "TfPwaV.Props.C18d"]
ALL_MODULES = ["TfPwaV.Model.Data", "TfPwaV.Proofs.Data", "TfPwaV.Props.C18",
               "TfPwaV.Model.DataX", "TfPwaV.Proofs.DataX", "TfPwaV.Props.C18b",
               "TfPwaV.Model.DataY", "TfPwaV.Proofs.DataY", "TfPwaV.Props.C18c",
               "TfPwaV.Model.DataZ", "TfPwaV.Proofs.DataZ", "TfPwaV.Props.C18d"]
ASSUMPTIONS = [
    "leaves are arrays with >= 1 axis whose leading axis is the event axis (axis=0 of data_split/data_merge); 0-d leaves raise in _data_split and are outside the model",
    "a leaf is modelled by the list of its rows; inner shape and dtype are carried by numpy/tf slicing and concat unchanged (validated by the numpy oracle, not modelled)",
    "dict keys are str or BaseParticle (written @name); a Python dict has no repeated key (WF hypothesis of the theorems)",
    "key order of data_merge results comes out of a Python set: compared after sorting keys; the model keeps the order of the first piece",
    "generators are modelled by the list of the values they yield (every branch of the unfixed _gen is finite); after fix_data_generator_empty.diff by 'finite list | repeat v'; the harness observes which variant the tree implements",
    "load_dat_file: order is (1,0,2) [default] or (0,1,2); other transposes are only checked against numpy, not modelled",
    "event-wise functions for batch_call / LazyCall in the correspondence are the 4 functions testF 0..3; the theorems quantify over every f commuting with row windows",
    "np.savetxt/np.loadtxt/np.save/np.load reproduce float64 values exactly (checked on integer-valued data)",
    "LazyCall batches are consumed by iteration (for ... in L, as batch_call does); list(L) additionally calls LazyCall.__len__ = data_shape(eval of x), which raises for an x without arrays (not part of the model)",
    "LazyCall: the plain and the nested (x is a LazyCall) branches of __iter__ are modelled (fixed code: _split_extra); the HeavyCall branch ({**i, **j} over cached_batch[batch_size], populated by as_dataset) is compared with the same model lazyIterF on dict-only data (correspondence) and with the eager value {**f(x), **extra} by the search (plain iteration, data_split+data_merge, batch_call, eval; alone, via data_replace, inside and around plain LazyCalls; extras colliding with output keys and not)",
    "outside the model (parameters, only exercised): tf.data itself (Dataset.from_tensor_slices(...).batch(b).map(f) is taken to yield f on the row windows, prefetch/AUTOTUNE order-preserving), tf.function tracing of the heavy function, tf.data's Dataset.cache itself (taken to replay an existing complete cache file and to write one on the first complete pass: model TfPwaV.DataZ.readThrough; the NAMING of the cache per batch size is modelled and proved to separate batch sizes, C18d.cache_key_separates_batch_sizes, compared with the files as_dataset creates, and the re-reading with other batch sizes / from a second object is exercised by the search, harness/c18_z.py), tf.data.Dataset.from_generator of LazyFile (taken to yield what the generator yields) and numpy memory maps (mmap_mode='r' slices = array slices: exercised on real npy files), LazyCall.merge of HeavyCall objects, lists inside x of a HeavyCall (from_tensor_slices turns a list into one tensor)",
    "C18b (model TfPwaV.DataX): data_cut is modelled for one comparison 'v <cmp> c' on one addressed 1-d array (var_map path); the sympy parsing / lambdify of the expression is a parameter (validated on the 4 comparison operators)",
    "C18b: flatten_dict_data keys are modelled as strings ('#i' = Python int i, '@name' = key object printing as name; str() of a key = strKey); the theorem flatten_lossless assumes that no two assignments of the loop use the same key (NoColl) -- the colliding case is a proved and observed loss (flatten_collision_loses), reported as a limitation of the function, not as a violation of C18",
    "C18b: a LazyCall object is modelled by (x, extra, batch_size) in a pure model: object identity / aliasing (copy() must not share the extra dict) is checked by the search only; cached_batch, cached_file, name, prefetch are not modelled",
    "C18b: LazyFile is modelled as the LazyCall of the identity with eval() = x (its tf.data.Dataset.from_generator pipeline is built but not consumed by plain iteration; mmap_mode is numpy's); dict-only x (tf output signatures do not accept lists)",
    "C18b: SimpleData methods get_dat_order / savetxt / load_p4 / load_weight_file / load_extra_var are run on a SimpleData object created without the amplitude machinery (object.__new__ + the attributes they read); the full ConfigLoader path (load_data, get_n_data, lazy_call) is exercised by the search on a 3-body decay",
    "C18b: check_nan correspondence encodes NaN as the integer 99999; save_data / load_data / save_dataz (numpy pickling) are validated as identity incl. key order, not modelled",
    "C18c (model TfPwaV.DataY): a particle is modelled by its name (BaseParticle equality is (name, _id), config particles have _id 0; str() is taken to be injective on the particles of one decay); get_particle(name) of a name that is not a final particle gives a particle outside decay_struct.outs (assign = len(outs))",
    "C18c: the SimpleData / MultiData methods get_dat_order (standard False / True), load_p4, cal_angle(list), load_extra_var, load_data, get_weight_sign, MultiData.get_data, get_n_data, get_data_index('p' / 'mass') are run on objects built without the amplitude machinery: object.__new__ + the attributes they read, or the real __init__ with create_preprocessor replaced by a stub (so re_map is built by the library); decay_struct is a stub with outs / get_chains_map / topology_structure; the preprocessor is the stub {'particle': {name: {'p': p4}}, 'n_extra': ...} (the parameter `pre` of the model); weight_smear, lazy_call / lazy_file modes, cached_data, process_scale (weight_scale), get_data_index('angle' / 'aligned_angle') are not modelled",
    "C18c: the items (s, l) of get_chains_map() are a parameter of the model (name pairs in iteration order); DecayGroup.get_chains_map / topology_map themselves are not modelled here",
    "C18c: data_cut expressions: grammar & | ~, < <= > >=, + - *, unary minus, integer literals, names; every variable addresses a 1-d array of integer-valued float64; sympy.sympify / lambdify are parameters (validated on every generated expression); expressions in which sympify eliminates a variable or folds to a constant are skipped and counted (the real data_cut raises NameError there: free_symbols are taken from the simplified expression, lambdify gets the string); Eq/Ne, ^, /, ** are not in the grammar; variable arrays of different sizes (TF broadcasting) are outside the model",
    "C18c: LazyCall objects with identities: x and the attached values are opaque identities, the heap holds the extra dicts; batch_size / cached_batch / cached_file / name / prefetch are not in the heap model; LazyCall.merge (fresh x and extra) is not an operation of the heap model",
    "C18c/C18d: data_merge of arbitrary LazyCalls (ops lmerge, lmiter): eval() / iteration of the merged object and data_merge / data_split of the eager values are computed by the model and compared with the code; their equality is PROVED (C18d.lazy_merge_eq_eager_merge, merged_iter_eq_split_eager) key by key (Python dict equality; the key order of data_merge comes out of a set) under: data_merge of the x and of the extras succeeds (matching structures / inner shapes), f returns dicts and f(merge of x) = merge of the f(x_i), outputs and extras are dicts without repeated keys, and an attached key that is an output key of f for some operand is attached to all operands or to none (outside it the two sides do differ: C18d.lazy_merge_excluded_differs; counted by the search as lazy_merge_excluded_differs, not a C18 violation); tf.concat of an array with an empty Python list is outside the model",
    "C18d (model TfPwaV.DataZ): save_data / save_dataz / load_data are modelled at the level of what np.save / np.savez store (np.asanyarray: a dict becomes a 0-d object array holding the pickled object, an array stays an array) and of the try / except IndexError / except ValueError chain of load_data; pickling itself (structure, container types, key order, values of the object) is numpy's and is validated on real files, not modelled; a list / tuple at top level (np.asanyarray stacks it into one array or raises) is outside the model; the harness observes whether load_data is the code before or after fixes/C18-fix_load_data_bare_array.diff and drives the matching model variant",
    "C18d: flat npz files: np.savez(file, **flatten_dict_data(d)) needs str keys at the top level of d (BaseParticle keys below are str()-ed by the flattening); keys of the file = keys of the flat dict in order; tf_pwa has no function rebuilding the containers from a flat file -- dataz_roundtrip states that reading by joined key returns the addressed array (what NpzData.load_data does with npz[str(k)]), not a rebuild; empty containers are not recorded in the file",
    "C18d: LazyCall(HeavyCall(g), LazyFile(x)): the cached pipeline is modelled as (data_split(x, b)).map(g); g in the correspondence is testF 0 / 3 on dict-only x (tf output signatures), x in memory or memory-mapped from an npy file through load_dat_file(mmap_mode='r')",
    "C18d: cache: one sample name per directory in the correspondence; the store is a map cache-file name -> batches of the first complete pass; partial passes (tf.data writes the cache only when the pass completes) and concurrent writers are outside the model; str(batch) is Nat.repr (decimal), the concatenation cached_file + name + '_' + str(batch) is proved injective in the batch size for fixed directory and name (injectivity in the PAIR (name, batch) -- the decimal digits contain no '_' -- is not proved; merged LazyCalls get the name name0_name1_..., not covered)",
    "the theorems named without suffix F describe the generator before fix 15c726c (kept: they state exactly what the MAX_ITER branch lost); the suffix-F theorems describe the code now in /repo; the harness observes the variant and compares with the matching model",
]

KEYS = ["a", "b", "c", "p", "w", "m", "x1", "x"]
SHAPES = [(), (2,), (3,), (4,), (2, 3)]


# ----------------------------------------------------------------------------- trees
def _np():
    import numpy as np
    return np


def gen_tree(rnd, n, depth=3, p_empty=0.15, nonuniform=0.0, top=True, want_leaf=True):
    """random nested dict/list/tuple of integer-valued arrays with n rows"""
    np = _np()
    r = rnd.random()
    if depth == 0 or (not top and r < 0.45):
        m = n
        if nonuniform and rnd.random() < nonuniform:
            m = max(0, n + rnd.choice([-2, -1, 1, 3]))
        sh = rnd.choice(SHAPES)
        dt = np.float64 if rnd.random() < 0.8 else np.int64
        vals = [rnd.randint(-60, 60) for _ in range(m * int(np.prod(sh, dtype=int)))]
        return np.array(vals, dtype=dt).reshape((m,) + sh)
    kind = rnd.choice("DDDST")
    if not top and rnd.random() < p_empty:
        k = 0
    else:
        k = rnd.randint(1, 3)
    kids = [gen_tree(rnd, n, depth - 1, p_empty, nonuniform, False) for _ in range(k)]
    if top and want_leaf and not any(has_leaf(x) for x in kids):
        kids.append(gen_tree(rnd, n, 0, 0, 0, False))
    if kind == "D":
        from tf_pwa.particle import BaseParticle
        ks = rnd.sample(KEYS, len(kids))
        out = {}
        for kk, v in zip(ks, kids):
            if rnd.random() < 0.2:
                kk = BaseParticle(kk)
            out[kk] = v
        return out
    if kind == "S":
        return list(kids)
    return tuple(kids)


def gen_dict_tree(rnd, n, depth=2):
    """dict-only tree of float arrays with n rows (a structure tf.data.Dataset.from_tensor_slices keeps as it is)"""
    np = _np()
    out = {}
    for k in rnd.sample(KEYS, rnd.randint(1, 3)):
        if depth > 0 and rnd.random() < 0.35:
            out[k] = gen_dict_tree(rnd, n, depth - 1)
        else:
            sh = rnd.choice(SHAPES)
            out[k] = np.array([rnd.randint(-30, 30) for _ in range(n * int(np.prod(sh, dtype=int)))], dtype=float).reshape((n,) + sh)
    return out


def has_leaf(t):
    if isinstance(t, dict):
        return any(has_leaf(v) for v in t.values())
    if isinstance(t, (list, tuple)):
        return any(has_leaf(v) for v in t)
    return True


def leaves(t):
    if isinstance(t, dict):
        for v in t.values():
            yield from leaves(v)
    elif isinstance(t, (list, tuple)):
        for v in t:
            yield from leaves(v)
    else:
        yield t


def has_empty(t, kinds):
    if isinstance(t, (dict, list, tuple)):
        if len(t) == 0 and isinstance(t, kinds):
            return True
        vs = t.values() if isinstance(t, dict) else t
        return any(has_empty(v, kinds) for v in vs)
    return False


def n_nodes(t):
    if isinstance(t, dict):
        return 1 + sum(n_nodes(v) for v in t.values())
    if isinstance(t, (list, tuple)):
        return 1 + sum(n_nodes(v) for v in t)
    return 1


def keystr(k):
    from tf_pwa.particle import BaseParticle
    if isinstance(k, BaseParticle):
        return "@" + str(k)
    return str(k)


def enc(t, sort=False):
    """canonical token list of a tree (same grammar as TfPwaV.Data.parseTree/showTree)"""
    np = _np()
    if isinstance(t, dict):
        items = [(keystr(k), v) for k, v in t.items()]
        if sort:
            items.sort(key=lambda kv: kv[0])
        out = ["D", str(len(items))]
        for k, v in items:
            out.append(k)
            out += enc(v, sort)
        return out
    if isinstance(t, (list, tuple)):
        out = ["S" if isinstance(t, list) else "T", str(len(t))]
        for v in t:
            out.append("-")
            out += enc(v, sort)
        return out
    if hasattr(t, "numpy"):
        t = t.numpy()
    a = np.asarray(t)
    if a.ndim == 0:
        raise ValueError("0-d leaf")
    n = a.shape[0]
    w = int(np.prod(a.shape[1:], dtype=int)) if n > 0 else 0
    flat = a.reshape(-1)
    ints = flat.astype(np.int64)
    if not np.array_equal(ints.astype(np.float64), flat.astype(np.float64)):
        raise ValueError("non-integer value in leaf")
    return ["L", str(n), str(w)] + [str(int(x)) for x in ints]


def encs(t, sort=False):
    return " ".join(enc(t, sort))


def pack(t):
    """tree for a replay file: token string, zlib+base64 when long"""
    import base64
    import zlib
    s = encs(t)
    if len(s) <= 400:
        return s
    return "z:" + base64.b64encode(zlib.compress(s.encode())).decode()


def unpack(s):
    import base64
    import zlib
    if s.startswith("z:"):
        s = zlib.decompress(base64.b64decode(s[2:])).decode()
    return dec(s.split())


def show_opt(fn, sort):
    """run fn(); 'ok <tree>' or 'none' when the code raises"""
    try:
        r = fn()
    except Exception as e:  # noqa: BLE001 - any exception of the code under test is the 'none' outcome
        return "none", type(e).__name__
    if r is None:
        return "none", "None"
    return "ok " + encs(r, sort), None


def show_list(ts):
    return "ok %d ; %s" % (len(ts), " ; ".join(encs(x) for x in ts))


def tree_equal(a, b):
    """independent oracle: same structure (dict keys as sets), numpy-equal leaves incl. shape"""
    np = _np()
    if isinstance(a, dict):
        if not isinstance(b, dict) or set(a.keys()) != set(b.keys()):
            return False
        return all(tree_equal(a[k], b[k]) for k in a)
    if isinstance(a, (list, tuple)):
        if type(a) is not type(b) or len(a) != len(b):
            return False
        return all(tree_equal(x, y) for x, y in zip(a, b))
    if isinstance(b, (dict, list, tuple)):
        return False
    a = a.numpy() if hasattr(a, "numpy") else np.asarray(a)
    b = b.numpy() if hasattr(b, "numpy") else np.asarray(b)
    return a.shape == b.shape and np.array_equal(a, b)


def tree_map(t, f):
    if isinstance(t, dict):
        return {k: tree_map(v, f) for k, v in t.items()}
    if isinstance(t, list):
        return [tree_map(v, f) for v in t]
    if isinstance(t, tuple):
        return tuple(tree_map(v, f) for v in t)
    return f(t)


def test_f(fid):
    """the event-wise functions of TfPwaV.Data.testF"""
    if fid == 0:
        return lambda d: d
    if fid == 1:
        return lambda d: {"y": tree_map(d, lambda x: 2 * x + 1), "e": []}
    if fid == 2:
        return lambda d: (tree_map(d, lambda x: -x), {"k": d})
    return lambda d: {"y": tree_map(d, lambda x: 3 * x - 2)}


def observe_variant():
    """which data_generator does the working tree implement? (0 = MAX_ITER for empty containers, 1 = after the fix)"""
    np = _np()
    from tf_pwa.data import data_split
    try:
        a = len(list(data_split({"a": np.arange(1001.0), "e": {}}, 1)))
        b = len(list(data_split({"a": np.arange(3.0), "t": ()}, 1)))
        c = len(list(data_split({"a": np.arange(1001.0), "e": [[]]}, 1)))
    except Exception:  # noqa: BLE001
        return 0
    return 1 if (a, b, c) == (1001, 3, 1001) else 0


def lazy_variant():
    np = _np()
    from tf_pwa.data import LazyCall
    try:
        L = LazyCall(lambda x: {"y": x["x"]}, {"x": np.arange(1001.0)})
        L.as_dataset(1)
        return 1 if len(list(L)) == 1001 else 0
    except Exception:  # noqa: BLE001
        return 0


SIZES_Q = [1, 2, 3, 7, 16, 64]
SIZES_BIG = [1001, 2500]


def pick_b(rnd, n):
    return rnd.choice([1, 2, 3, max(1, n - 1), n, n + 5, max(1, n // 2), max(1, n // 3)])


# ----------------------------------------------------------------------------- correspondence
def correspond(ctx, res):
    np = _np()
    from tf_pwa import data as D
    rnd = random.Random(1000 + ctx.seed)
    V = observe_variant()
    LV = lazy_variant()
    res.notes.append("observed data_generator variant: %s; LazyCall.__iter__ variant: %s" % (
        ["unfixed (MAX_ITER for empty containers)", "fixed"][V], ["unfixed", "fixed"][LV]))
    ctx.variant = V
    scale = 1 if ctx.quick else 50
    lines, impl, meta = [], [], []

    def add(line, got, kind, tree=None, extra=None):
        lines.append("C18 " + line)
        impl.append(got)
        meta.append((kind, tree, extra))

    def numpy_tree(x):
        return D.data_to_numpy(x)

    nontriv = set()
    # --- split / merge∘split ---------------------------------------------------------------
    cases = []
    for _ in range(260 * scale):
        n = rnd.choice(SIZES_Q)
        t = gen_tree(rnd, n, depth=rnd.choice([1, 2, 3, 4]), p_empty=0.2,
                     nonuniform=0.3 if rnd.random() < 0.25 else 0.0, want_leaf=rnd.random() < 0.93)
        cases.append((t, pick_b(rnd, n)))
    for n in SIZES_BIG:  # > MAX_ITER batches, with and without empty containers
        for _ in range(2 * scale):
            t = gen_tree(rnd, n, depth=2, p_empty=0.3)
            cases.append((t, rnd.choice([1, 2, n - 1, n + 5])))
        cases.append(({"a": np.arange(float(n)), "e": {}}, 1))
        cases.append(({"a": np.arange(float(n)), "e": [[], {}]}, 2))
        cases.append(([np.arange(float(2 * n)).reshape(n, 2), {"k": np.arange(n)}], 1))
    cases += [({}, 1), ([], 3), ((), 2), ({"e": {}}, 1), ({"t": ()}, 1), ([{}, []], 1),
              ({"a": np.arange(5.0), "t": ()}, 2), ({"a": np.arange(5.0), "t": [()]}, 2),
              ({"a": np.zeros((0,))}, 2), ({"a": np.zeros((0, 3)), "b": np.arange(4.0)}, 2)]
    for t, b in cases:
        tl = encs(t)
        try:
            pieces = list(D.data_split(t, b))
            got = show_list(pieces)
        except Exception as e:  # noqa: BLE001
            pieces, got = None, "raise:" + type(e).__name__
        add("split %d %d %s" % (V, b, tl), got, "split", tl, b)
        if pieces is not None:
            got, _ = show_opt(lambda: numpy_tree(D.data_merge(*pieces)), True)
            add("msplit %d %d %s" % (V, b, tl), got, "msplit", tl, b)
            if n_nodes(t) >= 4 and len(pieces) >= 2:
                nontriv.add(tl)

    # --- data_merge of arbitrary pieces (key intersection, zip truncation, kind mismatch) ------
    def perturb(t):
        r = rnd.random()
        if isinstance(t, dict) and t:
            ks = list(t.keys())
            if r < 0.25:
                drop = rnd.choice(ks)
                return {k: v for k, v in t.items() if k is not drop}
            if r < 0.35:
                t2 = dict(t)
                t2["zz"] = np.arange(2.0)
                return t2
            if r < 0.45:
                rnd.shuffle(ks)
                return {k: t[k] for k in ks}
            return {k: perturb(v) for k, v in t.items()}
        if isinstance(t, (list, tuple)) and len(t) > 0:
            if r < 0.2:
                return type(t)(list(t)[:-1])
            if r < 0.25:
                return tuple(t) if isinstance(t, list) else list(t)
            return type(t)([perturb(v) for v in t])
        if isinstance(t, (dict, list, tuple)):
            return t
        if r < 0.03:
            return {"q": t}
        return t

    for _ in range(120 * scale):
        n = rnd.choice([1, 2, 3, 5])
        t = gen_tree(rnd, n, depth=rnd.choice([1, 2, 3]), p_empty=0.2)
        k = rnd.choice([1, 2, 3])
        ps = [t] + [tree_map(perturb(t) if rnd.random() < 0.6 else t, lambda x: x + 1) for _ in range(k - 1)]
        got, _ = show_opt(lambda: numpy_tree(D.data_merge(*ps)), True)
        add("merge %d %s" % (k, " ".join(encs(p) for p in ps)), got, "merge")

    # --- data_mask ---------------------------------------------------------------------------
    for _ in range(100 * scale):
        n = rnd.choice(SIZES_Q)
        t = gen_tree(rnd, n, depth=rnd.choice([1, 2, 3]), p_empty=0.2, nonuniform=0.3 if rnd.random() < 0.1 else 0)
        m = n if rnd.random() < 0.9 else n + rnd.choice([-1, 1])
        p = rnd.choice([0.0, 0.2, 0.5, 0.9, 1.0])
        bits = [rnd.random() < p for _ in range(max(m, 0))]
        if not bits:
            continue
        got, _ = show_opt(lambda: numpy_tree(D.data_mask(t, np.array(bits, dtype=bool))), False)
        add("mask %s %s" % ("".join("1" if x else "0" for x in bits), encs(t)), got, "mask")

    # --- data_index ---------------------------------------------------------------------------
    from tf_pwa.particle import BaseParticle
    for _ in range(150 * scale):
        t = gen_tree(rnd, rnd.choice([1, 2]), depth=rnd.choice([2, 3, 4]), p_empty=0.15)
        path, cur = [], t
        for _step in range(rnd.randint(1, 4)):
            if isinstance(cur, dict):
                ks = list(cur.keys())
                r = rnd.random()
                if ks and r < 0.75:
                    k = rnd.choice(ks)
                    r2 = rnd.random()
                    if r2 < 0.3:  # address through the other spelling: str <-> key object
                        k2 = str(k) if isinstance(k, BaseParticle) else BaseParticle(k)
                    elif r2 < 0.4 and isinstance(k, BaseParticle):
                        k2 = BaseParticle(str(k))  # equal but not identical object
                    else:
                        k2 = k
                    path.append(k2)
                    cur = cur[k]
                elif r < 0.9:
                    r3 = rnd.random()
                    if ks and r3 < 0.5:   # near misses: prefix / extension of an existing key
                        k0 = str(rnd.choice(ks))
                        path.append(k0[:-1] if (len(k0) > 1 and rnd.random() < 0.6) else k0 + "1")
                    else:
                        path.append(rnd.choice(KEYS + ["nokey"]))
                    break
                else:
                    path.append(rnd.randint(0, 2))
                    break
            elif isinstance(cur, (list, tuple)):
                r = rnd.random()
                if r < 0.85:
                    i = rnd.randint(0, len(cur) + (1 if r < 0.1 else 0))
                    path.append(i)
                    if i < len(cur):
                        cur = cur[i]
                    else:
                        break
                else:
                    path.append(rnd.choice(KEYS))
                    break
            else:
                break
        if not path:
            continue
        toks = ["#%d" % k if isinstance(k, int) else keystr(k) for k in path]
        key = path if (len(path) > 1 or rnd.random() < 0.5) else path[0]
        if rnd.random() < 0.5 and isinstance(key, list):
            key = tuple(key)
        nr = rnd.random() < 0.3
        got, _ = show_opt(lambda: D.data_index(t, key, no_raise=nr), False)
        add("index %d %s %s" % (len(toks), " ".join(toks), encs(t)), got, "index")

    # --- batch_call -----------------------------------------------------------------------------
    for _ in range(120 * scale):
        n = rnd.choice(SIZES_Q)
        t = gen_tree(rnd, n, depth=rnd.choice([1, 2, 3]), p_empty=0.2)
        b = pick_b(rnd, n)
        fid = rnd.randint(0, 3)
        got, _ = show_opt(lambda: numpy_tree(D.batch_call(test_f(fid), t, b)), True)
        add("bcall %d %d %d %s" % (V, fid, b, encs(t)), got, "bcall")
        if rnd.random() < 0.4:
            c = rnd.randint(-5, 5)
            cc = c if rnd.random() < 0.5 else float(c)
            got, _ = show_opt(lambda: numpy_tree(D.batch_call(lambda x: cc, t, b)), True)
            add("bscalar %d %d %d %s" % (V, c, b, encs(t)), got, "bscalar")
    for n in SIZES_BIG[:1]:
        t = {"a": np.arange(float(n)), "e": []}
        got, _ = show_opt(lambda: numpy_tree(D.batch_call(test_f(1), t, 1)), True)
        add("bcall %d 1 1 %s" % (V, encs(t)), got, "bcall")

    # --- LazyCall ---------------------------------------------------------------------------------
    for _ in range(80 * scale):
        n = rnd.choice(SIZES_Q)
        x = gen_tree(rnd, n, depth=rnd.choice([1, 2]), p_empty=0.15)
        b = pick_b(rnd, n)
        fid = rnd.choice([1, 3, 1, 3, 2])
        r = rnd.random()
        extra = {}
        if r < 0.7:
            for k in rnd.sample(["weight", "y", "c", "e"], rnd.randint(1, 3)):
                extra[k] = gen_tree(rnd, n, depth=rnd.choice([0, 0, 1]), p_empty=0.3, top=False)
        lazy_case(D, x, extra, fid, b, LV, add)
    for n in SIZES_BIG[:1]:
        lazy_case(D, {"x": np.arange(float(n))}, {}, 3, 1, LV, add)
        lazy_case(D, {"x": np.arange(float(n))}, {"weight": np.arange(n), "o": {}}, 3, 1, LV, add)

    # --- HeavyCall function: first branch of __iter__ ({**i, **j} over the cached tf.data pipeline); the model is the
    #     same lazyIter (tf.data batching of an event-wise map = the row windows), dict-only uniform x, colliding extras
    for hi in range(10 * min(scale, 8)):
        n = rnd.choice([1, 2, 3, 7])
        x = gen_dict_tree(rnd, n)
        extra = {}
        if rnd.random() < 0.7:
            extra["y"] = gen_dict_tree(rnd, n) if rnd.random() < 0.5 else np.array([rnd.randint(-9, 9) for _ in range(n)], dtype=float)
        if rnd.random() < 0.5:
            extra["weight"] = np.array([rnd.randint(-9, 9) for _ in range(n)], dtype=float)
        lazy_case(D, x, extra, 3, [1, 2, n + 5, max(1, n - 1)][hi % 4], LV, add, heavy=True)

    # --- nested LazyCall(g, LazyCall(f, x)) (second branch of __iter__; modelled for the fixed code) -----------
    if LV == 1:
        for _ in range(40 * scale):
            n = rnd.choice(SIZES_Q)
            x = gen_tree(rnd, n, depth=rnd.choice([1, 2]), p_empty=0.15)
            b = pick_b(rnd, n)
            fid, gid = rnd.choice([1, 3, 1, 3, 2]), rnd.choice([0, 1, 3, 3, 2])
            es = []
            for _e in range(2):
                extra = {}
                if rnd.random() < 0.6:
                    for k in rnd.sample(["weight", "y", "c", "e"], rnd.randint(1, 2)):
                        extra[k] = gen_tree(rnd, n, depth=rnd.choice([0, 0, 1]), p_empty=0.3, top=False)
                es.append(extra)
            lazy_nest_case(D, x, es[0], es[1], gid, fid, b, add)
        lazy_nest_case(D, {"x": np.arange(1001.0)}, {}, {}, 3, 3, 1, add)
        lazy_nest_case(D, {"x": np.arange(1001.0), "o": [()]}, {"weight": np.arange(1001), "e": {}}, {"e": []}, 1, 3, 1, add)

    # --- load_dat_file / savetxt layouts through real files ------------------------------------------
    tmp = tempfile.mkdtemp(prefix="c18_")
    try:
        file_cases(ctx, rnd, D, tmp, add, 70 * scale)
    finally:
        shutil.rmtree(tmp, ignore_errors=True)

    model = ctx.model.query(lines)
    dis = [(l, a, b, m) for l, a, b, m in zip(lines, impl, model, meta) if canon_ans(a) != canon_ans(b)]
    kinds = {}
    for k, _, _ in meta:
        kinds[k] = kinds.get(k, 0) + 1
    res.coverage.update({
        "traces_validated_against_impl": len(lines),
        "evaluations": len(lines),
        "distinct_nontrivial": len(nontriv),
        "rule": "random nested dict/list/tuple trees (depth<=4, empty containers, str and BaseParticle keys, 1-3-d leaves, uniform and non-uniform sizes) x batch sizes {1,2,3,n-1,n,n+5,n/2,n/3}, n in {1,2,3,7,16,64} plus n in {1001,2500} (> MAX_ITER batches); ops by kind: %s; non-trivial = distinct trees with >= 4 nodes split into >= 2 batches" % kinds,
        "exhaustive": False,
        "ops_by_kind": kinds,
        "disagreements": len(dis),
        "variant": V,
    })
    for i in (0, len(lines) // 3, len(lines) // 2, len(lines) - 1):
        res.samples.append({"op": lines[i][:300], "impl": impl[i][:300], "model": model[i][:300]})
    if dis:
        l, a, b, m = dis[0]
        res.broke("correspondence %s (model TfPwaV.Data vs tf_pwa.data)" % m[0],
                  {"op": l[:1500], "impl": a[:1500], "model": b[:1500], "n_disagree": len(dis),
                   "kinds": sorted({d[3][0] for d in dis})})
        ctx.hints = dis[:20]
    import c18_x
    c18_x.correspond(ctx, res)      # round 2: the rest of data.py + dat_order / side-file plumbing (model TfPwaV.DataX)
    import c18_y
    c18_y.correspond(ctx, res)      # round 4: config_loader/data.py plumbing, data_cut expressions, LazyCall identities (model TfPwaV.DataY)
    import c18_d
    c18_d.correspond(ctx, res)      # round 6: merged-LazyCall iteration, save/load files, flat npz, LazyFile under HeavyCall, cache naming (model TfPwaV.DataZ)


def canon_ans(s):
    # a raising split and an (impossible in the model) 'none' are the same outcome
    if s.startswith("raise:"):
        return "raise"
    return s


def lazy_case(D, x, extra, fid, b, LV, add, heavy=False):
    f = D.HeavyCall(test_f(fid)) if heavy else test_f(fid)

    def mk():
        L = D.LazyCall(f, x)
        for k, v in extra.items():
            L[k] = v
        return L

    def it():
        L = mk()
        L.as_dataset(b)
        return D.data_to_numpy(D.data_merge(*[p for p in L]))

    got, _ = show_opt(it, True)
    add("lazyiter %d %d %d %s %s" % (LV, fid, b, encs(x), encs(extra)), got, "lazyiter")
    got, _ = show_opt(lambda: D.data_to_numpy(mk().eval()), True)
    add("lazyeval %d %s %s" % (fid, encs(x), encs(extra)), got, "lazyeval")


def lazy_nest_case(D, x, e1, e2, gid, fid, b, add):
    def mk():
        L1 = D.LazyCall(test_f(fid), x)
        for k, v in e1.items():
            L1[k] = v
        L2 = D.LazyCall(test_f(gid), L1)
        for k, v in e2.items():
            L2[k] = v
        return L2

    def it():
        L = mk()
        L.as_dataset(b)
        return D.data_to_numpy(D.data_merge(*[p for p in L]))

    a, _ = show_opt(it, True)
    e, _ = show_opt(lambda: D.data_to_numpy(mk().eval()), True)
    add("lazynest %d %d %d %s %s %s" % (gid, fid, b, encs(x), encs(e1), encs(e2)), a + " | " + e, "lazynest")


def write_rows(np, path, rows):
    if path.endswith(".npy"):
        np.save(path, rows)
    elif path.endswith(".npz"):
        np.savez(path, rows)
    else:
        np.savetxt(path, rows)


def file_cases(ctx, rnd, D, tmp, add, ncases):
    np = _np()
    exts = [".dat", ".npy", ".npz", ".txt"]
    for ci in range(ncases):
        n = rnd.randint(1, 5)
        N = rnd.choice([1, 2, 3, 5, 8])
        r = rnd.random()
        swap = rnd.random() < 0.7
        order = (1, 0, 2) if swap else (0, 1, 2)
        if swap and rnd.random() < 0.5:
            order = None
        files, split = [], None
        if r < 0.45:      # well-formed: particles split over 1..3 files, N events each
            nf = rnd.randint(1, min(3, n))
            cuts = sorted(rnd.sample(range(1, n), nf - 1)) if nf > 1 else []
            groups = [b - a for a, b in zip([0] + cuts, cuts + [n])]
            for g in groups:
                files.append(np.array([rnd.randint(-99, 99) for _ in range(N * g * 4)], dtype=float).reshape(-1, 4))
            if not swap:
                split = [N] * len(groups)   # order (0,1,2): reshape(-1, size, 4) needs size = events
            elif rnd.random() < 0.4:
                split = groups
        else:             # arbitrary sizes (remainders, too many/few rows, explicit split)
            nf = rnd.randint(1, 3)
            for _ in range(nf):
                rows = rnd.randint(1, 12)
                files.append(np.array([rnd.randint(-99, 99) for _ in range(rows * 4)], dtype=float).reshape(-1, 4))
            if rnd.random() < 0.5:
                split = [rnd.randint(0, 4) for _ in range(nf + rnd.choice([0, 0, 1, -1]))]
                split = split if split else None
        paths = []
        for fi, rows in enumerate(files):
            p = os.path.join(tmp, "f%d_%d%s" % (ci, fi, rnd.choice(exts)))
            write_rows(np, p, rows)
            paths.append(p)
        parts = ["p%d" % i for i in range(n)]
        arg = paths if (len(paths) > 1 or rnd.random() < 0.5) else paths[0]
        try:
            ret = D.load_dat_file(arg, parts, split=split, order=order)
            # arrays in the order of assignment to particles (dict insertion order)
            got = show_list([np.asarray(v) for v in ret.values()])
            if list(ret.keys()) != parts[:len(ret)]:
                got = "keys:" + ",".join(ret.keys())
        except Exception as e:  # noqa: BLE001
            got = "none"
        sp = "-" if split is None else ",".join(str(s) for s in split)
        add("load %d %d %s %d %s" % (n, int(swap), sp, len(files), " ".join(encs(f) for f in files)), got, "load")
        # savetxt layout: np.stack(pi).transpose((1,0,2)).reshape((-1,4)) as written by CalAngleData.savetxt / SimpleData.savetxt
        if r < 0.45 and ci % 2 == 0:
            ps = [np.array([rnd.randint(-99, 99) for _ in range(N * 4)], dtype=float).reshape(N, 4) for _ in range(n)]
            out = np.stack(ps).transpose((1, 0, 2)).reshape((-1, 4))
            add("save %d %s" % (n, " ".join(encs(p) for p in ps)), encs(out), "save")


# ----------------------------------------------------------------------------- search (model-independent oracles)
K_MAXITER = "data_generator:MAX_ITER:empty-container"
K_TUPLE = "data_generator:empty-tuple"
K_LAZY = "LazyCall.__iter__:MAX_ITER:empty-extra"


def classify_split_failure(t, nb):
    if has_empty(t, (tuple,)):
        return K_TUPLE
    if has_empty(t, (dict, list)) and nb > 1000:
        return K_MAXITER
    return "data_split/data_merge:roundtrip"


def check_roundtrip(D, res, t, b, n, stats):
    """merge(split(t, b)) == t, piece sizes; t uniform with n >= 1 rows (or without arrays)"""
    np = _np()
    nb = -(-n // b)
    payload = {"op": "split_merge", "tree": pack(t), "b": b}
    try:
        pieces = list(D.data_split(t, b))
        back = D.data_merge(*pieces)
    except Exception as e:  # noqa: BLE001
        res.fail(classify_split_failure(t, nb), "data_merge(*data_split(t, %d)) raises %s for t=%s" % (b, type(e).__name__, encs(t)[:200]), payload)
        return
    stats["roundtrip"] += 1
    if not tree_equal(t, back):
        lens = sorted({int(x.shape[0]) for x in leaves(back)})
        res.fail(classify_split_failure(t, nb),
                 "data_merge(*data_split(t, %d)) != t: %d batches, leaf sizes after round trip %s instead of %d; t=%s" % (
                     b, len(pieces), lens, n, encs(t)[:200]), payload)
        return
    if has_leaf(t):
        if len(pieces) != nb:
            res.fail("data_split:count", "data_split gives %d batches, expected ceil(%d/%d)" % (len(pieces), n, b), payload)
            return
        for j, p in enumerate(pieces):
            want = b if j < nb - 1 else n - b * (nb - 1)
            if any(x.shape[0] != want for x in leaves(p)):
                res.fail("data_split:piece-size", "batch %d of data_split(t, %d) has leaf sizes %s, expected %d" % (
                    j, b, sorted({x.shape[0] for x in leaves(p)}), want), payload)
                return


def np_event_f(rnd):
    """a random event-wise function on trees (numpy oracle applies it to the whole sample)"""
    a, c = rnd.randint(-3, 3), rnd.randint(-4, 4)
    mode = rnd.randint(0, 3)

    def f(d):
        ls = list(leaves(d))
        x0 = ls[0]
        s = x0.reshape(x0.shape[0], -1).sum(axis=1) * a + c      # one number per event
        if mode == 0:
            return s
        if mode == 1:
            return {"s": s, "d": tree_map(d, lambda x: x * a), "n": []}
        if mode == 2:
            return (s, [tree_map(d, lambda x: x + c)])
        return [x * a + c for x in ls]
    return f


def search(ctx, res):
    np = _np()
    from tf_pwa import data as D
    rnd = random.Random(77 + ctx.seed)
    hard = (not ctx.quick) or ctx.suspect
    mult = 20 if not ctx.quick else (3 if ctx.suspect else 1)
    stats = {"roundtrip": 0, "batch_call": 0, "mask": 0, "files": 0, "lazy": 0, "save_load": 0}

    # 1. split/merge round trip + sizes
    det = [({"a": np.arange(1500.0), "e": {}}, 1, 1500), ({"a": np.arange(2001.0), "l": [np.arange(2001), []]}, 2, 2001),
           ({"a": np.arange(5.0), "t": ()}, 2, 5), ({"a": np.arange(1001.0)}, 1, 1001),
           ([np.arange(6.0).reshape(3, 2), {"k": (np.arange(3),)}], 2, 3), ({}, 1, 1), ({"e": {}, "f": [[]]}, 4, 1)]
    for t, b, n in det:
        check_roundtrip(D, res, t, b, n, stats)
    for _ in range(250 * mult):
        n = rnd.choice(SIZES_Q + [5, 10, 33])
        t = gen_tree(rnd, n, depth=rnd.choice([1, 2, 3, 4]), p_empty=0.2, want_leaf=rnd.random() < 0.95)
        check_roundtrip(D, res, t, pick_b(rnd, n), n, stats)
    for _ in range(4 * mult):
        n = rnd.choice(SIZES_BIG + [1000, 1002])
        t = gen_tree(rnd, n, depth=2, p_empty=0.0)
        t = tree_map(t, lambda x: x)  # no empty container: must round-trip for any number of batches
        if has_empty(t, (dict, list, tuple)):
            continue
        check_roundtrip(D, res, t, rnd.choice([1, 2]), n, stats)

    # 2. batch_call(f) == f(whole sample)
    for _ in range(120 * mult):
        n = rnd.choice(SIZES_Q)
        t = gen_tree(rnd, n, depth=rnd.choice([1, 2, 3]), p_empty=0.15)
        if has_empty(t, (tuple,)):
            continue
        b = pick_b(rnd, n)
        f = np_event_f(rnd)
        payload = {"op": "batch_call", "tree": pack(t), "b": b}
        try:
            got = D.data_to_numpy(D.batch_call(f, t, b))
        except Exception as e:  # noqa: BLE001
            res.fail("batch_call:raises", "batch_call raises %s (b=%d) on %s" % (type(e).__name__, b, encs(t)[:200]), payload)
            continue
        stats["batch_call"] += 1
        if not tree_equal(got, f(t)):
            res.fail("batch_call:whole-sample", "batch_call(f, t, %d) differs from f(t) for event-wise f; t=%s" % (b, encs(t)[:200]), payload)
        c = float(rnd.randint(-3, 3))
        got = D.data_to_numpy(D.batch_call(lambda x: c, t, b))
        if not (got.shape == (n,) and np.all(got == c)):
            res.fail("batch_call:scalar", "batch_call of a constant gives shape %s for %d events" % (got.shape, n), payload)

    # 3. data_mask keeps exactly the selected rows, in order, in every leaf
    for _ in range(100 * mult):
        n = rnd.choice(SIZES_Q)
        t = gen_tree(rnd, n, depth=rnd.choice([1, 2, 3]), p_empty=0.2)
        p = rnd.choice([0.0, 0.3, 0.5, 1.0])
        sel = np.array([rnd.random() < p for _ in range(n)], dtype=bool)
        idx = [i for i in range(n) if sel[i]]
        try:
            got = D.data_to_numpy(D.data_mask(t, sel))
        except Exception as e:  # noqa: BLE001
            res.fail("data_mask:raises", "data_mask raises %s" % type(e).__name__, {"op": "mask", "tree": pack(t), "sel": sel.tolist()})
            continue
        stats["mask"] += 1
        want = tree_map(t, lambda x: np.stack([x[i] for i in idx]) if idx else x[:0])
        if not tree_equal(got, want):
            res.fail("data_mask:rows", "data_mask(t, sel) is not t[sel] leaf by leaf; sel=%s t=%s" % (sel.astype(int).tolist(), encs(t)[:200]),
                     {"op": "mask", "tree": pack(t), "sel": sel.tolist()})

    # 3b. data_index returns the addressed sub-tree (exact key first, then equal str())
    stats["index"] = 0
    for _ in range(200 * mult):
        t = gen_tree(rnd, 1, depth=rnd.choice([2, 3, 4]), p_empty=0.1)
        path, cur, want = [], t, "?"
        for _step in range(rnd.randint(1, 4)):
            if isinstance(cur, dict) and cur:
                ks = list(cur.keys())
                k = rnd.choice(ks)
                r = rnd.random()
                if r < 0.6:
                    q = k
                elif r < 0.8:
                    q = str(k) if not isinstance(k, str) else k
                else:
                    k0 = str(k)
                    q = k0[:-1] if (len(k0) > 1 and rnd.random() < 0.6) else k0 + "1"
                path.append(q)
                hit = [kk for kk in ks if type(kk) is type(q) and kk == q] or [kk for kk in ks if str(kk) == str(q)]
                if not hit:
                    want = None
                    break
                cur = cur[hit[0]]
            elif isinstance(cur, (list, tuple)) and len(cur) > 0:
                i = rnd.randrange(len(cur))
                path.append(i)
                cur = cur[i]
            else:
                break
        if not path:
            continue
        if want == "?":
            want = cur
        try:
            got = D.data_index(t, list(path), no_raise=True)
        except Exception as e:  # noqa: BLE001
            got = "raise:" + type(e).__name__
        stats["index"] += 1
        ok = (got is None) if want is None else (not isinstance(got, str) and got is not None and tree_equal(got, want))
        if not ok:
            res.fail("data_index:addressed-subtree", "data_index(t, %s) does not return the addressed sub-tree (expected %s); t=%s" % (
                [keystr(k) if not isinstance(k, int) else k for k in path], "None" if want is None else encs(want)[:80], encs(t)[:200]),
                {"op": "index", "tree": pack(t), "path": [k if isinstance(k, int) else keystr(k) for k in path]})

    # 4. files: momenta written by the save functions and read back, any particle count / order / file kind
    tmp = tempfile.mkdtemp(prefix="c18s_")
    try:
        search_files(ctx, res, rnd, D, tmp, stats, hard, mult)
    finally:
        shutil.rmtree(tmp, ignore_errors=True)

    # 5. lazy == eager
    search_lazy(ctx, res, rnd, D, stats, hard, mult)
    res.coverage["search"] = stats
    import c18_x
    c18_x.search(ctx, res)
    import c18_y
    c18_y.search(ctx, res)
    import c18_d
    c18_d.search(ctx, res)


def search_files(ctx, res, rnd, D, tmp, stats, hard, mult):
    np = _np()
    from tf_pwa.cal_angle import CalAngleData
    for ci in range(40 * min(mult, 10)):
        n = rnd.randint(1, 6)
        N = rnd.choice([1, 2, 3, 7, 20])
        names = ["P%d" % i for i in range(n)]
        p4 = {k: np.array([rnd.randint(-99, 99) for _ in range(4 * N)], dtype=float).reshape(N, 4) for k in names}
        order = list(names)
        rnd.shuffle(order)
        payload = {"op": "files", "n": n, "N": N, "order": order, "p4": {k: v.tolist() for k, v in p4.items()}}
        # (a) CalAngleData.savetxt(order) -> load_dat_file(particles=order)
        cad = CalAngleData({"particle": {k: {"p": v} for k, v in p4.items()}})
        f1 = os.path.join(tmp, "a%d.dat" % ci)
        cad.savetxt(f1, order=order)
        back = D.load_dat_file(f1, order)
        stats["files"] += 1
        if list(back.keys()) != order or not all(np.array_equal(back[k], p4[k]) for k in order):
            res.fail("savetxt/load_dat_file:roundtrip", "load_dat_file(CalAngleData.savetxt(order=%s)) does not give the momenta back (n=%d particles, N=%d events)" % (order, n, N), payload)
        # (b) same rows as npy / npz, default order, and particle-major file with order=(0,1,2), split=[N]
        rows = np.stack([p4[k] for k in order]).transpose((1, 0, 2)).reshape((-1, 4))
        for ext in (".npy", ".npz"):
            f2 = os.path.join(tmp, "b%d%s" % (ci, ext))
            write_rows(np, f2, rows)
            back = D.load_dat_file([f2], order)
            stats["files"] += 1
            if not all(np.array_equal(back[k], p4[k]) for k in order):
                res.fail("load_dat_file:" + ext, "load_dat_file(%s) differs from the text file content" % ext, payload)
        f3 = os.path.join(tmp, "c%d.dat" % ci)
        np.savetxt(f3, np.stack([p4[k] for k in order]).reshape((-1, 4)))
        back = D.load_dat_file(f3, order, order=(0, 1, 2), split=[N])
        stats["files"] += 1
        if not all(np.array_equal(back[k], p4[k]) for k in order):
            res.fail("load_dat_file:order012", "particle-major file read with order=(0,1,2), split=[N] differs", payload)
        # (c) particles distributed over several files (the multi-file convention of load_dat_file)
        if n >= 2:
            cut = rnd.randint(1, n - 1)
            fs = []
            for gi, grp in enumerate((order[:cut], order[cut:])):
                f4 = os.path.join(tmp, "d%d_%d.dat" % (ci, gi))
                np.savetxt(f4, np.stack([p4[k] for k in grp]).transpose((1, 0, 2)).reshape((-1, 4)))
                fs.append(f4)
            back = D.load_dat_file(fs, order)
            stats["files"] += 1
            if list(back.keys()) != order or not all(np.array_equal(back[k], p4[k]) for k in order):
                res.fail("load_dat_file:multi-file", "particles split over two files (%d+%d) are not assigned to the same particles" % (cut, n - cut), payload)
        # (d) structured data: save_data / save_dataz / load_data
        t = gen_tree(rnd, N, depth=rnd.choice([1, 2, 3]), p_empty=0.2)
        if not isinstance(t, dict):
            t = {"t": t}
        f5 = os.path.join(tmp, "e%d.npy" % ci)
        D.save_data(f5, t)
        b1 = D.load_data(f5)
        f6 = os.path.join(tmp, "e%d.npz" % ci)
        D.save_dataz(f6, t)
        b2 = D.load_data(f6)
        stats["save_load"] += 2
        if not tree_equal(t, b1) or not tree_equal(t, b2):
            res.fail("save_data/load_data:roundtrip", "load_data(save_data(t)) != t for t=%s" % encs(t)[:200], {"op": "save_load", "tree": pack(t)})
    search_config_files(ctx, res, rnd, tmp, stats, hard)


CONFIG = {
    "data": {"dat_order": ["B", "C", "D"]},
    "decay": {"A": [["R_BC", "D"], ["R_CD", "B"]], "R_BC": ["B", "C"], "R_CD": ["C", "D"]},
    "particle": {"$top": {"A": {"J": 0, "P": -1, "mass": 5.0}},
                 "$finals": {"B": {"J": 0, "P": -1, "mass": 0.5}, "C": {"J": 0, "P": -1, "mass": 0.4}, "D": {"J": 0, "P": -1, "mass": 0.3}},
                 "R_BC": {"J": 1, "P": -1, "mass": 2.0, "width": 0.1}, "R_CD": {"J": 1, "P": -1, "mass": 2.5, "width": 0.1}},
}


def search_config_files(ctx, res, rnd, tmp, stats, hard):
    """ConfigLoader data modes: savetxt -> load_p4 for every dat_order, text and npy; cached_data file"""
    np = _np()
    import copy
    import itertools
    from tf_pwa.config_loader import ConfigLoader
    from tf_pwa.phasespace import PhaseSpaceGenerator
    orders = list(itertools.permutations(["B", "C", "D"]))
    if not hard:
        orders = [orders[i] for i in sorted(rnd.sample(range(6), 3))]
    for oi, order in enumerate(orders):
        cfg = copy.deepcopy(CONFIG)
        cfg["data"]["dat_order"] = list(order)
        N = rnd.choice([3, 8])
        # physical momenta (the amplitude pre-processing needs them); values are arbitrary doubles: exact text round trip is part of the claim
        p = PhaseSpaceGenerator(5.0, [0.5, 0.4, 0.3]).generate(N)
        p4 = {k: np.asarray(v) for k, v in zip(["B", "C", "D"], p)}
        for ext in (".dat", ".npy"):
            f0 = os.path.join(tmp, "cfg%d%s" % (oi, ext))
            c1 = ConfigLoader(copy.deepcopy(cfg))
            dm = c1.data
            dm.savetxt(f0, [p4[k] for k in order])
            back = dm.load_p4([f0])
            names = [str(k) for k in back.keys()]
            stats["files"] += 1
            payload = {"op": "config_files", "order": list(order), "N": N, "ext": ext}
            if names != list(order) or not all(np.array_equal(np.asarray(v), p4[str(k)]) for k, v in back.items()):
                res.fail("SimpleData.savetxt/load_p4:roundtrip", "config data.savetxt + load_p4 with dat_order=%s (%s) does not reproduce the momenta of each particle" % (list(order), ext), payload)
                continue
            # full load_data through the data mode: momenta stored in the processed data belong to the named particle
            cfg2 = copy.deepcopy(cfg)
            cfg2["data"]["data"] = [f0]
            c2 = ConfigLoader(cfg2)
            data = c2.get_data("data")[0]
            for k in order:
                got = np.asarray(c2.data_index(data, ("particle", k, "p"))) if hasattr(c2, "data_index") else None
                if got is None:
                    from tf_pwa.data import data_index
                    got = np.asarray(data_index(data, ("particle", k, "p")))
                if not np.array_equal(got, p4[k]):
                    res.fail("load_data:particle-assignment", "get_data: momentum of %s differs from the file column for dat_order=%s" % (k, list(order)), payload)
                    break
            # dict form of savetxt (reads ("particle", i, "p") in dat_order)
            f1 = os.path.join(tmp, "cfgb%d%s" % (oi, ext))
            c2.data.savetxt(f1, data)
            again = c2.data.load_p4([f1])
            stats["files"] += 1
            if not all(np.array_equal(np.asarray(v), p4[str(k)]) for k, v in again.items()):
                res.fail("SimpleData.savetxt(dict)/load_p4:roundtrip", "savetxt(processed data) + load_p4 differs, dat_order=%s" % (list(order),), payload)


def search_lazy(ctx, res, rnd, D, stats, hard, mult):
    np = _np()
    det = [({"x": np.arange(1500.0)}, {}, 1, 1500), ({"x": np.arange(1500.0)}, {"weight": np.arange(1500.0)}, 1, 1500)]
    cases = list(det)
    for _ in range(50 * min(mult, 10)):
        n = rnd.choice(SIZES_Q)
        x = gen_tree(rnd, n, depth=rnd.choice([1, 2]), p_empty=0.0)
        extra = {}
        for k in rnd.sample(["weight", "c", "s"], rnd.randint(0, 2)):
            extra[k] = np.array([rnd.randint(-9, 9) for _ in range(n)], dtype=float)
        cases.append((x, extra, pick_b(rnd, n), n))
    for x, extra, b, n in cases:
        if has_empty(x, (tuple,)):
            continue
        f = np_event_f(random.Random(rnd.random()))
        f1 = (lambda g: (lambda d: g(d) if isinstance(g(d), dict) else {"r": g(d)}))(f)
        payload = {"op": "lazy", "x": pack(x), "extra": pack(extra), "b": b}

        def mk(h=D.LazyCall, fn=f1):
            L = h(fn, x) if h is D.LazyCall else D.LazyCall(D.HeavyCall(fn), x)
            for k, v in extra.items():
                L[k] = v
            return L
        want = dict(f1(x))
        want.update(extra)
        nb = -(-n // b)
        key = K_LAZY if (not extra and nb > 1000) else "LazyCall:lazy-vs-eager"
        try:
            ev = D.data_to_numpy(mk().eval())
            L = mk()
            L.as_dataset(b)
            it = D.data_to_numpy(D.data_merge(*[p for p in L]))
            bc = D.data_to_numpy(D.batch_call(lambda d: d, mk(), b))
            L2 = D.LazyCall(lambda d: {"z": tree_map(d, lambda q: q + 1)}, mk())   # LazyCall of a LazyCall
            L2.as_dataset(b)
            it2 = D.data_to_numpy(D.data_merge(*[p for p in L2]))
        except Exception as e:  # noqa: BLE001
            res.fail("LazyCall:raises", "LazyCall iteration/eval raises %s: %s" % (type(e).__name__, str(e)[:100]), payload)
            continue
        stats["lazy"] += 1
        if not tree_equal(ev, want):
            res.fail("LazyCall.eval", "LazyCall.eval() differs from f(x) updated with extra", payload)
        elif not tree_equal(it, want) or not tree_equal(bc, want):
            szs = sorted({int(v.shape[0]) for v in leaves(it)})
            res.fail(key, "merged batches of LazyCall (batch %d, %d events, extra keys %s) differ from eval(): leaf sizes %s" % (b, n, sorted(extra), szs), payload)
        elif not tree_equal(it2, {"z": tree_map(want, lambda q: q + 1)}):
            res.fail(K_LAZY if nb > 1000 else "LazyCall:nested", "LazyCall(g, LazyCall(f, x)) batches differ from g(f(x)) (outer extra empty, %d batches)" % nb, payload)
    search_lazy_heavy(ctx, res, rnd, D, stats, mult)
    import c18_z
    c18_z.search_cache(ctx, res, stats)  # cache file / in-memory cache of a HeavyCall read with several batch sizes


K_HEAVY = "LazyCall:HeavyCall:extra-override"


def heavy_g(a, c):
    """event-wise function usable on tf tensors (inside Dataset.map) and on numpy (oracle)"""
    def g(d):
        return {"y": d["a"] * a + c, "w": d["b"]["c"] - c, "s": {"q": d["a"] + 1.0}}
    return g


def heavy_build(D, cfg):
    """construct the LazyCall of a heavy case from its description; returns (L, numpy oracle of the eager value)"""
    np = _np()
    g = heavy_g(cfg["a"], cfg["c"])
    x, e1, e2, kind = cfg["x"], cfg["e1"], cfg["e2"], cfg["kind"]

    def upd(base, extra):
        out = dict(base)
        out.update(extra)
        return out

    if kind == "heavy":
        L = D.LazyCall(D.HeavyCall(g), x)
        for k, v in e2.items():
            L[k] = v
        want = upd(g(x), e2)
    elif kind == "replace":       # extras attached through data_replace (copy of the LazyCall), cache of the original populated first
        L = D.LazyCall(D.HeavyCall(g), x)
        L.as_dataset(cfg["b"])
        for k, v in e2.items():
            L = D.data_replace(L, k, v)
        want = upd(g(x), e2)
    elif kind == "plain_around_heavy":
        h = lambda d: {"z": d["y"] + 1.0, "w": d["w"], "s": d["s"]}  # noqa: E731
        L1 = D.LazyCall(D.HeavyCall(g), x)
        for k, v in e1.items():
            L1[k] = v
        L = D.LazyCall(h, L1)
        for k, v in e2.items():
            L[k] = v
        want = upd(h(upd(g(x), e1)), e2)
    else:                         # heavy_around_plain: x of the HeavyCall is itself a (plain) LazyCall with extras
        f0 = lambda d: {"a": d["a"] * 2.0, "b": {"c": d["b"]["c"] + 3.0}}  # noqa: E731
        L1 = D.LazyCall(f0, x)
        for k, v in e1.items():
            L1[k] = v
        L = D.LazyCall(D.HeavyCall(g), L1)
        for k, v in e2.items():
            L[k] = v
        want = upd(g(upd(f0(x), e1)), e2)
    L.prefetch = cfg["prefetch"]
    return L, want


def heavy_run(D, cfg):
    """all consumers of one heavy case -> list of (consumer, result-or-exception)"""
    out = []
    b = cfg["b"]
    L, want = heavy_build(D, cfg)
    cached = None

    def run(name, fn):
        try:
            out.append((name, D.data_to_numpy(fn())))
        except Exception as e:  # noqa: BLE001
            out.append((name, "raise:%s: %s" % (type(e).__name__, str(e)[:120])))

    def plain_iter():
        L.as_dataset(b)
        return D.data_merge(*[p for p in L])

    run("iteration", plain_iter)
    if isinstance(L.f, D.HeavyCall):
        cached = b in L.cached_batch    # the first branch of __iter__ (cached tf.data pipeline) was taken
    run("data_split+data_merge", lambda: D.data_merge(*[p for p in D.data_split(L, b)]))
    run("batch_call", lambda: D.batch_call(lambda d: d, L, b))
    L2, _ = heavy_build(D, cfg)
    run("batch_call(fresh object)", lambda: D.batch_call(lambda d: d, L2, b))
    L3, _ = heavy_build(D, cfg)
    run("eval", lambda: L3.eval())
    return out, want, cached


def heavy_cfg(rnd, i):
    np = _np()
    n = rnd.choice([1, 2, 3, 7, 16])
    k = rnd.choice([1, 2, 4])

    def arr(shape):
        return np.array([rnd.randint(-20, 20) for _ in range(int(np.prod(shape)))], dtype=float).reshape(shape)

    x = {"a": arr((n, k)), "b": {"c": arr((n,))}}

    def extras(keys_collide, shapes):
        e = {}
        r = rnd.random()
        if r < 0.75:
            for kk in rnd.sample(keys_collide, rnd.randint(1, len(keys_collide))):
                e[kk] = {"q": arr((n, k))} if kk in ("s", "b") and shapes[kk] == "dict" else arr(shapes[kk])
        if rnd.random() < 0.6:
            for kk in rnd.sample(["weight", "charge_conjugation"], rnd.randint(1, 2)):
                e[kk] = arr((n,))
        return e

    kind = ["heavy", "replace", "plain_around_heavy", "heavy_around_plain"][i % 4]
    out_shapes = {"y": (n, k), "w": (n,), "s": "dict"}
    if kind in ("heavy", "replace"):
        e1, e2 = {}, extras(["y", "w", "s"], out_shapes)
    elif kind == "plain_around_heavy":
        e1, e2 = extras(["y", "w", "s"], out_shapes), extras(["z", "w"], {"z": (n, k), "w": (n,)})
    else:
        e1 = extras(["a"], {"a": (n, k)})      # overrides an input of the heavy function
        e2 = extras(["y", "w", "s"], out_shapes)
    bs = [1, max(1, n - 1) if n % max(1, n - 1) else 2, n + 5, 3, n]
    return {"kind": kind, "a": float(rnd.randint(-3, 3)), "c": float(rnd.randint(-4, 4)), "x": x, "e1": e1, "e2": e2,
            "b": bs[(i // 4) % len(bs)], "prefetch": rnd.choice([-1, 0, 2])}


def heavy_payload(cfg):
    return {"op": "lazy_heavy", "kind": cfg["kind"], "a": cfg["a"], "c": cfg["c"], "b": cfg["b"], "prefetch": cfg["prefetch"],
            "x": pack(cfg["x"]), "e1": pack(cfg["e1"]), "e2": pack(cfg["e2"])}


def heavy_check(D, res, cfg, stats):
    outs, want, cached = heavy_run(D, cfg)
    g_keys = {"y", "w", "s"} if cfg["kind"] != "plain_around_heavy" else {"z", "w", "s"}
    collide = sorted(set(cfg["e2"]) & g_keys) + sorted(set(cfg["e1"]) & ({"y", "w", "s"} if cfg["kind"] == "plain_around_heavy" else {"a"}))
    if cached is not None:
        stats["heavy_cached_branch"] += int(bool(cached))
        if not cached:
            res.fail("LazyCall:HeavyCall:cache-not-populated", "as_dataset(%d) of a HeavyCall LazyCall left cached_batch empty (kind %s)" % (cfg["b"], cfg["kind"]), heavy_payload(cfg))
    stats["heavy"] += 1
    stats["heavy_colliding"] += int(bool(collide))
    for name, got in outs:
        if isinstance(got, str):
            res.fail("LazyCall:HeavyCall:raises", "HeavyCall LazyCall (%s, batch %d, %s): %s" % (cfg["kind"], cfg["b"], name, got), heavy_payload(cfg))
            return
        if not tree_equal(got, want):
            bad = sorted(k for k in want if k not in got or not tree_equal(got[k], want[k])) if isinstance(got, dict) else ["<structure>"]
            over = [k for k in bad if k in collide]
            key = K_HEAVY if over else "LazyCall:HeavyCall"
            res.fail(key, "LazyCall with a HeavyCall function (%s, %d events, batch %d): %s differs from the eager value {**f(x), **extra} in keys %s%s" % (
                cfg["kind"], len(cfg["x"]["b"]["c"]), cfg["b"], name, bad,
                "; attached extra %s does not override the same-named output of the function" % over if over else ""), heavy_payload(cfg))
            return


def search_lazy_heavy(ctx, res, rnd, D, stats, mult):
    """lazy vs eager for LazyCalls whose function is a HeavyCall (cached tf.data branch of __iter__), also nested
    inside / around plain ones, with extras that collide with output keys and extras that do not"""
    stats.update({"heavy": 0, "heavy_colliding": 0, "heavy_cached_branch": 0})
    for i in range(24 * min(mult, 6)):
        heavy_check(D, res, heavy_cfg(rnd, i), stats)


# ----------------------------------------------------------------------------- replay
def dec(tokens):
    """inverse of enc (keys: str, @name -> BaseParticle)"""
    np = _np()
    from tf_pwa.particle import BaseParticle
    t = tokens.pop(0)
    if t == "L":
        n, w = int(tokens.pop(0)), int(tokens.pop(0))
        vals = [int(tokens.pop(0)) for _ in range(n * w)]
        a = np.array(vals, dtype=float)
        return a.reshape(n, w) if w > 1 else a.reshape(n)
    c = int(tokens.pop(0))
    kids = []
    for _ in range(c):
        k = tokens.pop(0)
        kids.append((k, dec(tokens)))
    if t == "D":
        return {(BaseParticle(k[1:]) if k.startswith("@") else k): v for k, v in kids}
    return [v for _, v in kids] if t == "S" else tuple(v for _, v in kids)


def replay(ctx, payload):
    np = _np()
    from tf_pwa import data as D
    r = payload.get("replay") or {}
    op = r.get("op")
    if op == "x_search":
        import c18_x
        return c18_x.replay(ctx, payload)
    if op == "lazy_heavy_cache":
        import c18_z
        return c18_z.replay(r)
    if op == "y_search":
        import c18_y
        return c18_y.replay(ctx, payload)
    if op == "d_search":
        import c18_d
        return c18_d.replay(ctx, payload)
    if op == "split_merge":
        t = unpack(r["tree"])
        b = r["b"]
        try:
            pieces = list(D.data_split(t, b))
            back = D.data_merge(*pieces)
        except Exception as e:  # noqa: BLE001
            print("raises", type(e).__name__, e)
            return 1
        ok = tree_equal(t, back)
        print("batches:", len(pieces), "round trip equal:", ok)
        return 0 if ok else 1
    if op == "mask":
        t = unpack(r["tree"])
        sel = np.array(r["sel"], dtype=bool)
        got = D.data_to_numpy(D.data_mask(t, sel))
        ok = tree_equal(got, tree_map(t, lambda x: x[sel]))
        print("mask equal:", ok)
        return 0 if ok else 1
    if op == "lazy":
        x = unpack(r["x"])
        extra = unpack(r["extra"])
        L = D.LazyCall(lambda d: {"r": tree_map(d, lambda q: q)}, x)
        for k, v in extra.items():
            L[k] = v
        L.as_dataset(r["b"])
        it = D.data_to_numpy(D.data_merge(*[p for p in L]))
        ev = D.data_to_numpy(L.eval())
        ok = tree_equal(it, ev)
        print("lazy == eager:", ok)
        return 0 if ok else 1
    if op == "lazy_heavy":
        cfg = dict(r)
        for k in ("x", "e1", "e2"):
            cfg[k] = unpack(r[k])
        outs, want, cached = heavy_run(D, cfg)
        rc = 0
        print("cached tf.data branch taken:", cached)
        for name, got in outs:
            ok = (not isinstance(got, str)) and tree_equal(got, want)
            print("%-28s == eager {**f(x), **extra}: %s" % (name, ok if not isinstance(got, str) else got))
            if not ok:
                rc = 1
                if isinstance(got, dict):
                    print("   differing keys:", sorted(k for k in want if k not in got or not tree_equal(got[k], want[k])))
        return rc
    if op == "index":
        t = unpack(r["tree"])
        from tf_pwa.particle import BaseParticle
        path = [k if isinstance(k, int) else (BaseParticle(k[1:]) if k.startswith("@") else k) for k in r["path"]]
        print("data_index ->", D.data_index(t, path, no_raise=True))
        return 0
    if op == "batch_call":
        t = unpack(r["tree"])
        f = lambda d: tree_map(d, lambda x: 2 * x)  # noqa: E731
        ok = tree_equal(D.data_to_numpy(D.batch_call(f, t, r["b"])), f(t))
        print("batch_call == whole sample:", ok)
        return 0 if ok else 1
    print(payload)
    return 0


MANIFEST = {
    "text": "Lean theorems over ALL nested dict/list/tuple data trees (structural induction, arbitrary depth and row type), all batch sizes b>0 and all event counts: the batches of data_split are exactly the row windows [j*b,(j+1)*b) of every leaf and their number is the minimum over the tree of ceil(n/b) (leaf), MAX_ITER (empty dict/list), 0 (empty tuple) (split_eq, split_count, split_sizes); data_merge of the batches is the data cut after (number of batches)*b rows (merge_split_general), hence equals the data when no empty container limits the iteration or ceil(n/b) <= MAX_ITER (merge_split) and provably loses rows otherwise (merge_split_truncated, split_empty_tuple); batch_call f = f(whole sample) for every f commuting with row windows, and the scalar broadcast rule (batch_call_eq, batch_call_scalar); data_mask keeps exactly the selected rows of every leaf in order (mask_leaf); load_dat_file(savetxt(p)) = p for every particle count / event count / number of files holding disjoint particle groups (load_multi_file, load_save_roundtrip); merged LazyCall batches = eval() (lazy_eq_eager); data_index hit/fallback/path rules. For the code after the fix (15c726c, now in /repo) every statement is proved with NO guard on empty containers, empty extra or the number of batches: splitF_batches, splitF_get, merge_splitF, batch_call_eqF, batch_call_scalarF, lazyIterF_batches, lazy_eq_eagerF (plain LazyCall, _split_extra) and lazy_nested_eq_eagerF (LazyCall of a LazyCall). Round 2 (Props/C18b over the model Model/DataX, same quantifiers): a mask and its complement partition the events of every array -- re-interleaving gives the array back, sizes add up (mask_partition), data_merge(data_mask(d,sel), data_mask(d,~sel)) is d with the same row permutation in every array (cut_then_merge), data_cut keeps exactly the events whose addressed entry satisfies the predicate (cut_rows); data_replace sets one key and keeps every other value and the key order (replace_keeps_others, replace_non_dict); data_strip removes the keys at every depth, is idempotent, is the identity on trees without them and keeps the other arrays in order (strip_idempotent, strip_unchanged); data_map functor laws, hence data_to_numpy / data_to_tensor keep structure and values (data_map_id, data_map_comp, data_map_leaves); data_shape = leading size of the first array, all_list in data_map order (data_shape_first, data_shape_uniform); flatten_dict_data holds every array exactly once in order when no joined key collides (flatten_lossless) and provably loses one otherwise (flatten_collision_loses); batch_sum(f) = f(whole sample) for every f additive over row prefixes, no algebraic law on + needed (batch_sum_eq_sum, batch_sum_no_batch); data_index(d, p+q) = data_index(data_index(d,p), q) (index_append); check_nan keeps the structure and flags exactly the arrays with a NaN (check_nan_shape); LazyCall object: L[k]=v; L[k'] (lazy_getitem_set), copy / as_dataset keep x and items (lazy_copy_getitem), L[k] is the value found under k in L.eval() and overrides a same-named output (lazy_getitem_eq), data_replace(L,k,v).eval() differs from L.eval() exactly at k (lazy_replace_eval), data_merge of LazyCalls holding pieces of one sample concatenates x and every attached item in the same piece order (lazy_merge_pieces), LazyCall(g, LazyFile(x)): merged batches = eval() (lazy_file_eq_eager), EvalLazy (eval_lazy_eq); file conventions: SimpleData.savetxt + load_p4 under the same dat_order return every particle its own momenta for EVERY duplicate-free order list, i.e. every permutation and sub-list of the final particles (dat_order_roundtrip, dat_order_independent), particle-major files with order=(0,1,2), split=[N] (load_order012); side files: entry i of the concatenated weight/charge files belongs to event i and masks, batches and merges act on (event, weight) pairs (weights_follow_rows, weights_default). Round 4 (Props/C18c over the model Model/DataY, same kind of quantifiers): the file column -> particle assignment of load_p4 is determined by the card alone, is the identity without dat_order and a permutation of the final particles for every dat_order listing them (dat_order_is_permutation); for ANY files, under a duplicate-free dat_order the array stored under order[idx] is column idx of what load_dat_file cut out, and cal_angle(list) makes the same assignment (load_column_to_particle); get_dat_order(standard=True) (first match) and the re_map of __init__ (last assignment) agree for consistent chain maps, so get_data_index('p', name) addresses the standard name (standard_eq_remap, with the inconsistent case exhibited), and standard names translate back to the order list for injective maps (standard_order_roundtrip); MultiData.get_data returns one data set per sample and sample i is load_data(files[i], **kwargs_i) with kwargs_i[name] = entry i of a per-sample list / the single card value / None (multi_sample_plumbing, multi_flat_files); data_cut with a compound expression (& | ~, < <= > >=, + - *, literals, names) as an AST: the mask computed by whole-array operations, one per node, is the event-wise value of the expression and data_cut keeps exactly the events where it is true (cut_mask_eq_eval), data_cut(e) and data_cut(~e) partition the events and merge back to a row permutation of the data (cut_complement_merge); LazyCall objects with identities: in every heap reachable by any history of LazyCall(...) / L[k]=v / copy() / data_replace two objects never share an extra dict, a copy has the same x and items, and an assignment through one object is invisible through every other (copy_independent). Round 6 (Props/C18d over the model Model/DataZ): data_merge(L0, L1, ...) of ARBITRARY LazyCalls: its eval() equals data_merge of the eager values key by key, for every operand list, under the stated hypothesis that an attached key which is an output key of f is attached to all operands or to none (lazy_merge_eq_eager_merge; the counter-example outside it: lazy_merge_excluded_differs), and iterating the merged object with any batch size yields batch by batch what data_split of the eager merge yields (merged_iter_eq_split_eager); load_data(save_data(d)) = load_data(save_dataz(d)) = d for every dict d through the try/except chain of load_data (save_load_roundtrip), bare arrays: returned unless they have exactly one element / are in an npz file (load_bare_array, load_bare_array_one: the boundary behaviour reported as a finding); np.savez(**flatten_dict_data(d)) read back by key: keys in loop order, every array once, and npz[joined key of a path] = the array that path addresses, for every path, under the no-collision guard, where the addressed array is the one data_index returns (dataz_roundtrip, index_exact_is_data_index; dataz_collision_loses outside the guard); LazyCall(HeavyCall(g), LazyFile(x)): the batches are the row windows of eval() (lazy_file_batches); the cache file name of as_dataset is injective in the batch size and, for every history of batch sizes read by new objects over a consistent store, every pass sees its own batches (cache_name_injective, cache_key_separates_batch_sizes), whereas the name without the batch size replays stale batches (cache_without_batch_size_replays_stale = seeded change C18-03). All models are tied to tf_pwa.data / config_loader.data by exact comparison on random trees, real files, LazyCall objects and SimpleData objects on every run; numpy / path oracles test the statements directly on the implementation, incl. the real ConfigLoader with weight and charge side files in eager and lazy_call mode.",
    "note": "Models = TfPwaV.Data, TfPwaV.DataX, TfPwaV.DataY and TfPwaV.DataZ (hand-written; generators = lists of yielded values with the MAX_ITER branch and zip truncation mirrored; fixed variant 'finite list | repeat' selected by observing the tree). Validated, not proved: numpy/tf slicing, concat and boolean_mask act row-wise and keep inner shape/dtype; np.savetxt/loadtxt/save/load exactness; save_data/load_data/save_dataz pickling incl. key order; tf.data (HeavyCall) batching; LazyFile's from_generator pipeline; LazyCall.merge: proved for arbitrary operands only under the hypotheses listed in the assumptions (f event-wise on the operands, output keys attached to all or none) and key by key (dict equality, not key order); sympy.sympify / lambdify of data_cut expressions (every generated expression is run through the real data_cut and compared with the AST model; expressions that sympy simplifies to fewer variables are skipped -- data_cut raises NameError on them); load_extra_var / load_data / get_n_data / get_weight_sign are modelled and compared (ops extravar, multi) without theorems of their own beyond multi_sample_plumbing; the full ConfigLoader path with the real preprocessor (cal_angle, lazy_call mode: search on a 3-body decay, every dat_order in the thorough tier), DecayGroup.get_chains_map behind get_dat_order(standard=True), get_data_index('angle'/'aligned_angle'), weight_smear, process_scale; text/npy/npz round trips: numpy's pickling of the object inside the file (structure, container types incl. nested tuples / lists, key order, values) is compared on real files on every run (ops fileio, flatnpz, search) but is numpy's, not modelled; no rebuild of containers from a flat npz is proved -- tf_pwa has none; tf.data (from_generator, cache) and numpy memory maps are parameters of the model, exercised on real files; root files: root_io.save_dict_to_root / load_root_data are exercised by the search when uproot imports (two trees, two files, event concatenation), not modelled; the root_lhcb data mode (config_loader/data_root_lhcb.py) is not covered. Proposed finding of round 6 (fixes/C18-fix_load_data_bare_array.diff, keys load_data:bare-array:one-element / load_data:bare-array:npz): load_data returns a Python scalar for a saved bare array with ONE element and raises for a bare array saved with save_dataz; dicts are not affected; the model has both variants and the harness observes which one the tree implements. Observed, not a C18 violation: flatten_dict_data silently overwrites on colliding joined keys and drops empty containers; load_extra_var does not check that a side file has at least n_data entries. Finding of this check, repaired in /repo (15c726c, kind 'fixed' in known_findings.jsonl; the unrepaired variant stays in the model as refutation theorems and is reported under its own key if the fix is reverted): an empty dict/list stopped the iteration after 1000 batches, an empty tuple made data_split yield nothing, LazyCall with empty extra stopped after 1000 batches.",
    "technique": "Lean 4 proof by structural induction over nested data trees (unbounded sizes) + exact differential correspondence with tf_pwa.data / config_loader.data on random trees, real files, random data_cut expressions, histories of LazyCall object operations, SimpleData / MultiData objects, merged LazyCalls, npy / npz / memory-mapped files and tf.data cache files + numpy/path-oracle search on the implementation",
}
