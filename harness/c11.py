"""C11 — kinematic transformations are mutually inverse."""
import math

import numpy as np

import common as C

PID = "C11"
LEAN_TARGETS = ["TfPwaV.Props.C11", "TfPwaV.Gen.KinF"]
PROP_MODULES = ["TfPwaV.Props.C11"]
ALL_MODULES = ["TfPwaV.Proofs.Kin", "TfPwaV.Props.C11", "TfPwaV.Proofs.ScalarR"]
ASSUMPTIONS = [
    "IEEE double evaluation of the same formula text (Lean Float vs TensorFlow) agrees to 1e-11 relative to the scale gamma^2*|p|; cases with gamma > 1e4 are counted as ill-conditioned and skipped",
    "theorems hold over the reals in the regular branch eps < |v|^2 < 1; the guard branch (|v|^2 <= 1e-14) has its own statements",
]


def gen_cases(rng, n):
    """Structured four-vectors + velocities: physical particles, at rest, collinear, tiny and large beta."""
    out = []
    for i in range(n):
        kind = i % 8
        m = float(rng.choice([0.0, 0.139, 0.5, 1.0, 3.1, 5.3]))
        p3 = rng.normal(size=3) * float(rng.choice([0.01, 0.3, 1.0, 5.0]))
        if kind == 1:
            p3 = np.zeros(3)
        e = math.sqrt(m * m + float(p3 @ p3))
        if kind == 2:  # arbitrary (space-like allowed) four-vector
            e = float(rng.normal())
        d = rng.normal(size=3)
        d /= np.linalg.norm(d)
        beta = float(rng.choice([0.0, 1e-9, 5e-8, 1e-6, 1e-3, 0.1, 0.5, 0.9, 0.99, 0.999]))
        if kind == 3:
            beta = float(rng.uniform(0, 0.95))
        v = d * beta
        if kind == 4 and np.linalg.norm(p3) > 0:  # collinear
            v = p3 / np.linalg.norm(p3) * beta
        if kind == 5:
            v = np.array([beta, 0.0, 0.0])
        out.append(([e, *p3], list(v)))
    return out


def correspond(ctx, res):
    import tensorflow as tf
    from tf_pwa.angle import LorentzVector as lv
    rng = np.random.Generator(np.random.Philox(ctx.seed + 11))
    n = 3000 if ctx.quick else 60000
    cases = gen_cases(rng, n)
    P = np.array([c[0] for c in cases])
    V = np.array([c[1] for c in cases])
    Q = np.roll(P, 1, axis=0) * 1.0
    Q[:, 1:] += 0.25
    # a massive "frame" vector for rest_vector / boost_matrix
    Mf = np.abs(rng.normal(size=n)) + 0.2
    F3 = V / np.sqrt(np.maximum(1 - np.sum(V * V, -1, keepdims=True), 1e-300)) * Mf[:, None]
    Fr = np.concatenate([np.sqrt(Mf[:, None] ** 2 + np.sum(F3 * F3, -1, keepdims=True)), F3], -1)
    impl = {
        "boost": lv.boost(tf.constant(P), tf.constant(V)).numpy(),
        "rest": lv.rest_vector(tf.constant(Fr), tf.constant(P)).numpy(),
        "bmat": tf.einsum("...ij,...j->...i", lv.boost_matrix(tf.constant(Fr)), tf.constant(P)).numpy(),
        "dot": lv.Dot(tf.constant(P), tf.constant(Q)).numpy()[:, None],
        "mass": lv.M(tf.constant(P)).numpy()[:, None],
    }
    lines = []
    order = []
    for i in range(n):
        for op, args in (("boost", list(P[i]) + list(V[i])), ("rest", list(Fr[i]) + list(P[i])),
                         ("bmat", list(Fr[i]) + list(P[i])), ("dot", list(P[i]) + list(Q[i])), ("mass", list(P[i]))):
            lines.append("C11 %s %s" % (op, " ".join(C.f2h(x) for x in args)))
            order.append((op, i))
    out = ctx.model.query(lines)
    nbad, nskip, worst = 0, 0, 0.0
    first = None
    for (op, i), line in zip(order, out):
        if line == "bad-op":
            res.broke("model driver bad-op", lines[0])
            return
        mv = np.array([C.h2f(x) for x in line.split()])
        iv = impl[op][i]
        b2 = float(V[i] @ V[i]) if op == "boost" else float(F3[i] @ F3[i] / Fr[i, 0] ** 2)
        g = 1 / math.sqrt(max(1 - b2, 1e-300))
        if g > 1e4:
            nskip += 1
            continue
        scale = (g * g if op in ("boost", "rest", "bmat") else 1.0) * (np.abs(P[i]).sum() + (np.abs(Q[i]).sum() if op == "dot" else 0) + 1e-30)
        if op == "dot":
            scale = np.abs(P[i]).sum() * np.abs(Q[i]).sum() + 1e-30
        if op == "mass":
            scale = np.abs(P[i]).sum() + 1e-15
            # sqrt|m2| near light-like: compare squared
            err = abs(mv[0] ** 2 - iv[0] ** 2) / (scale * scale)
        else:
            err = float(np.max(np.abs(mv - iv))) / scale
        worst = max(worst, err)
        if not (err < 1e-11):
            nbad += 1
            if first is None:
                first = {"op": op, "p": list(P[i]), "v": list(V[i]), "frame": list(Fr[i]), "impl": list(map(float, iv)), "model": list(map(float, mv)), "rel_err": err}
    res.coverage.update({
        "traces_validated_against_impl": len(lines) - nskip,
        "evaluations": len(lines),
        "distinct_nontrivial": int(np.sum(np.sum(V * V, -1) > 1e-14)),
        "rule": "seeded structured four-vectors (on-shell masses 0..5.3, at rest, off-shell, collinear) x velocities beta in {0,1e-9,...,0.999}+uniform; ops boost/rest_vector/boost_matrix/Dot/M; non-trivial = velocity in the regular branch |v|^2>1e-14",
        "ill_conditioned_skipped": nskip,
        "worst_rel_err": worst,
        "disagreements": nbad,
    })
    res.samples += [{"op": lines[k], "model": out[k]} for k in (0, 7, len(lines) // 2)]
    if nbad:
        res.broke("correspondence KinF vs tf_pwa.angle.LorentzVector", {"n": nbad, "first": first})
        ctx.hint = first


def search(ctx, res):
    """Direct statement of the property on the implementation."""
    import tensorflow as tf
    from tf_pwa.angle import LorentzVector as lv
    rng = np.random.Generator(np.random.Philox(ctx.seed + 111))
    n = 4000 if (ctx.quick and not ctx.suspect) else 80000
    cases = gen_cases(rng, n)
    P = np.array([c[0] for c in cases])
    V = np.array([c[1] for c in cases])
    Q = np.roll(P, 3, axis=0) + 0.125
    b2 = np.sum(V * V, -1)
    g = 1 / np.sqrt(1 - b2)
    ok = g < 1e3
    tP, tV, tQ = tf.constant(P), tf.constant(V), tf.constant(Q)
    bP = lv.boost(tP, tV)
    bQ = lv.boost(tQ, tV)
    back = lv.boost(bP, -tV).numpy()
    sc = (np.abs(P).sum(-1) + 1e-30)
    # guard branch |v|^2 <= 1e-14 drops a term of relative size |v|^2: tolerance covers it
    tol = 1e-10
    e_inv = np.max(np.abs(back - P), -1) / (sc * g ** 4)
    bad = np.where(ok & ~(e_inv < tol))[0]
    for i in bad[:5]:
        res.fail("boost:inverse", "boost(boost(p,v),-v) != p: p=%s v=%s got %s (rel %.3g)" % (list(P[i]), list(V[i]), list(back[i]), e_inv[i]),
                 {"op": "inverse", "p": list(P[i]), "v": list(V[i])})
    d0 = lv.Dot(tP, tQ).numpy()
    d1 = lv.Dot(bP, bQ).numpy()
    e_dot = np.abs(d1 - d0) / ((np.abs(P).sum(-1) * np.abs(Q).sum(-1) + 1e-30) * g ** 2)
    bad = np.where(ok & ~(e_dot < tol))[0]
    for i in bad[:5]:
        res.fail("boost:dot", "Minkowski product not preserved by boost: p=%s q=%s v=%s: %r -> %r" % (list(P[i]), list(Q[i]), list(V[i]), d0[i], d1[i]),
                 {"op": "dot", "p": list(P[i]), "q": list(Q[i]), "v": list(V[i])})
    # boost matrix agrees with vector boost
    Mf = np.abs(rng.normal(size=n)) + 0.2
    F3 = V * (g * Mf)[:, None]
    Fr = np.concatenate([np.sqrt(Mf[:, None] ** 2 + np.sum(F3 * F3, -1, keepdims=True)), F3], -1)
    bm = tf.einsum("...ij,...j->...i", lv.boost_matrix(tf.constant(Fr)), tP).numpy()
    bv = lv.boost(tP, lv.boost_vector(tf.constant(Fr))).numpy()
    e_m = np.max(np.abs(bm - bv), -1) / (sc * g ** 2)
    bad = np.where(ok & ~(e_m < tol))[0]
    for i in bad[:5]:
        res.fail("boost:matrix", "boost_matrix(f).p != boost(p, f.boost_vector()): f=%s p=%s" % (list(Fr[i]), list(P[i])), {"op": "matrix", "f": list(Fr[i]), "p": list(P[i])})
    # rest_vector of itself is (m,0,0,0)
    rv = lv.rest_vector(tf.constant(Fr), tf.constant(Fr)).numpy()
    e_r = np.max(np.abs(rv - np.concatenate([Mf[:, None], np.zeros((n, 3))], -1)), -1) / (np.abs(Fr).sum(-1) * g ** 2)
    bad = np.where(ok & ~(e_r < tol))[0]
    for i in bad[:5]:
        res.fail("boost:rest", "rest_vector(f, f) != (m,0,0,0): f=%s got %s" % (list(Fr[i]), list(rv[i])), {"op": "rest", "f": list(Fr[i])})
    res.coverage["search_cases"] = int(n)


def replay(ctx, payload):
    print(payload)
    return 0


MANIFEST = {
    "text": "Lean theorems over the reals for ALL four-vectors and all velocities in the regular branch eps<|v|^2<1: boosts preserve Minkowski products and masses (boost_minkowski, boost_mass), boost by v then -v is the identity (boost_inverse), rest_vector then boost back is the identity, boost matrix = vector boost (all inputs), rotations preserve products; the eps-guard branch is stated separately. The same definition text is instantiated at Float and compared with tf_pwa.angle.LorentzVector.",
    "note": "Model = templates/Kin.lean.in instantiated at R (proofs) and Float (execution); tie = differential run against LorentzVector.boost/rest_vector/boost_matrix/Dot/M on seeded structured vectors (tol 1e-11 relative to gamma^2|p|, gamma>1e4 skipped). Float rounding itself is not verified. Helicity-angle / Dalitz round trips are validated on the implementation by residuals (search), see evidence for what is proved vs validated.",
    "technique": "Lean 4 proof over the reals (linear_combination certificates) of one template instantiated at Float for differential correspondence with the implementation",
}
