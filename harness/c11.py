"""C11 — kinematic transformations are mutually inverse."""
import math

import numpy as np

import common as C

PID = "C11"
DRIVER = [("C11", "TfPwaV.Gen.KinF", "KinF.handle"), ("C11d", "TfPwaV.Gen.DalitzF", "DalitzF.handle"), ("C11a", "TfPwaV.Gen.AngleF", "AngleF.handle"), ("C11t", "TfPwaV.Gen.CascadeF", "CascadeF.handle"), ("C11l", "TfPwaV.Gen.CascadeLF", "CascadeLF.handle"), ("C11s", "TfPwaV.Model.ChainL", "ChainL.handle")]
LEAN_TARGETS = ["TfPwaV.Props.C11", "TfPwaV.Props.C11b", "TfPwaV.Props.C11c", "TfPwaV.Props.C11d", "TfPwaV.Props.C11e", "TfPwaV.Gen.KinF", "TfPwaV.Gen.DalitzF", "TfPwaV.Gen.AngleF", "TfPwaV.Gen.CascadeF", "TfPwaV.Gen.CascadeLF"]
PROP_MODULES = ["TfPwaV.Props.C11", "TfPwaV.Props.C11b", "TfPwaV.Props.C11c", "TfPwaV.Props.C11d", "TfPwaV.Props.C11e"]
ALL_MODULES = ["TfPwaV.Proofs.Kin", "TfPwaV.Proofs.Dalitz", "TfPwaV.Props.C11", "TfPwaV.Props.C11b", "TfPwaV.Proofs.ScalarR", "TfPwaV.Proofs.Angle", "TfPwaV.Props.C11c", "TfPwaV.Proofs.CascadeAngle", "TfPwaV.Proofs.Cascade", "TfPwaV.Proofs.CascadeTree", "TfPwaV.Props.C11d", "TfPwaV.Model.ChainL", "TfPwaV.Proofs.ChainL", "TfPwaV.Proofs.CascadeL", "TfPwaV.Props.C11e"]
ASSUMPTIONS = [
    "IEEE double evaluation of the same formula text (Lean Float vs TensorFlow) agrees to 1e-11 relative to the scale gamma^2*|p|; cases with gamma > 1e4 are counted as ill-conditioned and skipped",
    "theorems hold over the reals in the regular branch eps < |v|^2 < 1; the guard branch (|v|^2 <= 1e-14) has its own statements",
    "Dalitz theorem (dalitz_reproduces) holds in the interior of the Dalitz region as seen by the code's own square roots (lambda > 0, x14*G >= 0)",
    "single-vertex helicity-angle extraction is proved (angle_step_roundtrip: in an orthonormal right-handed frame, angle_zx_z_getx of a daughter built at (theta, phi) returns (phi, theta) and the constructor's new x-axis; guard P sin(theta) >= 1e-14)",
    "helicity-angle CASCADE round trip is proved for every decay tree (Props/C11d.lean: cascade_boost_undo, cascade_angles, cascade_roundtrip over the model templates/Cascade.lean.in = create_rotate_p_decay + infer_momentum/add_mass/cal_chain_boost/cal_helicity_angle/find_variable) under hypotheses that mirror the code's guards: every decay above threshold (m > m1+m2, final masses >= 0), every decaying daughter's velocity in the regular branch of boost (P^2/(m^2+P^2) > 1e-14), -1 < cos(theta) < 1, -pi < phi < pi, and the cross_unit guards s >= 1e-14, s*P*sin(theta) >= 1e-14 with s = length of the un-normalised z-axis handed down (1 at the top, the mother's break-up momentum below); phi = pi is excluded and has its own statement (alpha_at_pi: the code returns -pi)",
    "the cascade model is tied to the code by correspondence of its Float instance with HelicityAngle.build_data (final momenta, tol 1e-10 relative to the top mass) and cal_angle (all masses, alpha/beta of BOTH daughters of every decay, tol 1e-9 scaled by the smallest sin^2(theta) of the chain) on all 3- and 4-body and seeded 5-body topologies; model simplifications: dictionaries keyed by particles become trees of the same shape, infer_momentum's flat reduce_sum is a nested sum (equal over the reals, rounding-different in floats), floormod is x - y*floor(x/y); not in the model: DecayChain bookkeeping (standard_topology / topology_map, depth_first order), batching, the SU2 r_matrix/b_matrix and aligned angles computed alongside",
    "the cascade round trip is additionally validated end-to-end on the implementation (search_cascade: every topology with 3..5 final particles on seeded masses/angles, tolerance 1e-6)",
    "DecayChain bookkeeping of HelicityAngle (Props/C11e.lean over Model/ChainL.lean + templates/CascadeL.lean.in): a chain is the list of its decays (numbered particles) in listing order; modelled as the code does it: build_data files costheta[j]/phi[j] under the j-th listed decay, create_rotate_p_decay walks depth_first() (node_map = dict comprehension by mother, last wins; recursion bounded by len(chain)+1), find_variable reads the angles back by decay in listing order (standard_topology() keeps the listing order); cascade_roundtrip_listed assumes that depth_first() reaches every listed decay, cascade_roundtrip_any_listing discharges that for every labelled tree with pairwise different particle names and every permutation of its decays; the hypotheses on masses/angles are those of cascade_roundtrip for the assembled tree",
    "mass_range_sound_complete: chain TreeLike (every particle decays at most once, is produced at most once, daughters of a decay differ) and every decay touches an intermediate particle (>= 3 finals); 'allowed' = every decay AT OR above threshold (closed ranges, as get_mass_range returns them); the masses get_mass_range reads are the particles' nominal get_mass() values; mass_linspace_inside assumes hi - lo >= 2e-10 and numpy.linspace(a, b, N) = arange(N)*((b-a)/(N-1)) + a with the last point set to b (compared with numpy to 2 ulp on every run)",
    "get_phsp_factor_eq_c10_weight: get_relative_p = get_p needs masses >= 0 and mother >= |m1 - m2|; the C10 side is templates/Phsp.lean.in with r32 = id (the tree with the get_p float64 fix, as /repo is); m_wtMax != 0",
    "not in the Lean model (validated by the correspondence/search only): standard_topology()/topology_map() name matching through sorted_table (the model identifies a standard-topology particle with the original one), particle identity by name (str(i.core) == name), tensors/batching, generate_p_mass(random=True), HelicityAngle1.generate_p/generate_p2/generate_p_mass (only HelicityAngle1.get_phsp_factor is modelled)",
]


def gen_cases(rng, n):
    """Structured four-vectors + velocities: physical particles, at rest, collinear, tiny and large beta."""
    out = []
    for i in range(n):
        kind = i % 8
        m = float(rng.choice([0.0, 0.139, 0.5, 1.0, 3.1, 5.3]))
        p3 = rng.normal(size=3) * float(rng.choice([0.01, 0.3, 1.0, 5.0]))
        if kind == 1:
            p3 = np.zeros(3)
        e = math.sqrt(m * m + float(p3 @ p3))
        if kind == 2:  # arbitrary (space-like allowed) four-vector
            e = float(rng.normal())
        d = rng.normal(size=3)
        d /= np.linalg.norm(d)
        beta = float(rng.choice([0.0, 1e-9, 5e-8, 1e-6, 1e-3, 0.1, 0.5, 0.9, 0.99, 0.999]))
        if kind == 3:
            beta = float(rng.uniform(0, 0.95))
        v = d * beta
        if kind == 4 and np.linalg.norm(p3) > 0:  # collinear
            v = p3 / np.linalg.norm(p3) * beta
        if kind == 5:
            v = np.array([beta, 0.0, 0.0])
        out.append(([e, *p3], list(v)))
    return out


def correspond_boost(ctx, res):
    import tensorflow as tf
    from tf_pwa.angle import LorentzVector as lv
    rng = np.random.Generator(np.random.Philox(ctx.seed + 11))
    n = 3000 if ctx.quick else 60000
    cases = gen_cases(rng, n)
    P = np.array([c[0] for c in cases])
    V = np.array([c[1] for c in cases])
    Q = np.roll(P, 1, axis=0) * 1.0
    Q[:, 1:] += 0.25
    # a massive "frame" vector for rest_vector / boost_matrix
    Mf = np.abs(rng.normal(size=n)) + 0.2
    F3 = V / np.sqrt(np.maximum(1 - np.sum(V * V, -1, keepdims=True), 1e-300)) * Mf[:, None]
    Fr = np.concatenate([np.sqrt(Mf[:, None] ** 2 + np.sum(F3 * F3, -1, keepdims=True)), F3], -1)
    impl = {
        "boost": lv.boost(tf.constant(P), tf.constant(V)).numpy(),
        "rest": lv.rest_vector(tf.constant(Fr), tf.constant(P)).numpy(),
        "bmat": tf.einsum("...ij,...j->...i", lv.boost_matrix(tf.constant(Fr)), tf.constant(P)).numpy(),
        "dot": lv.Dot(tf.constant(P), tf.constant(Q)).numpy()[:, None],
        "mass": lv.M(tf.constant(P)).numpy()[:, None],
    }
    lines = []
    order = []
    for i in range(n):
        for op, args in (("boost", list(P[i]) + list(V[i])), ("rest", list(Fr[i]) + list(P[i])),
                         ("bmat", list(Fr[i]) + list(P[i])), ("dot", list(P[i]) + list(Q[i])), ("mass", list(P[i]))):
            lines.append("C11 %s %s" % (op, " ".join(C.f2h(x) for x in args)))
            order.append((op, i))
    out = ctx.model.query(lines)
    nbad, nskip, worst = 0, 0, 0.0
    first = None
    for (op, i), line in zip(order, out):
        if line == "bad-op":
            res.broke("model driver bad-op", lines[0])
            return
        mv = np.array([C.h2f(x) for x in line.split()])
        iv = impl[op][i]
        b2 = float(V[i] @ V[i]) if op == "boost" else float(F3[i] @ F3[i] / Fr[i, 0] ** 2)
        g = 1 / math.sqrt(max(1 - b2, 1e-300))
        if g > 1e4:
            nskip += 1
            continue
        scale = (g * g if op in ("boost", "rest", "bmat") else 1.0) * (np.abs(P[i]).sum() + (np.abs(Q[i]).sum() if op == "dot" else 0) + 1e-30)
        if op == "dot":
            scale = np.abs(P[i]).sum() * np.abs(Q[i]).sum() + 1e-30
        if op == "mass":
            scale = np.abs(P[i]).sum() + 1e-15
            # sqrt|m2| near light-like: compare squared
            err = abs(mv[0] ** 2 - iv[0] ** 2) / (scale * scale)
        else:
            err = float(np.max(np.abs(mv - iv))) / scale
        worst = max(worst, err)
        if not (err < 1e-11):
            nbad += 1
            if first is None:
                first = {"op": op, "p": list(P[i]), "v": list(V[i]), "frame": list(Fr[i]), "impl": list(map(float, iv)), "model": list(map(float, mv)), "rel_err": err}
    res.coverage.update({
        "traces_validated_against_impl": len(lines) - nskip,
        "evaluations": len(lines),
        "distinct_nontrivial": int(np.sum(np.sum(V * V, -1) > 1e-14)),
        "rule": "seeded structured four-vectors (on-shell masses 0..5.3, at rest, off-shell, collinear) x velocities beta in {0,1e-9,...,0.999}+uniform; ops boost/rest_vector/boost_matrix/Dot/M; non-trivial = velocity in the regular branch |v|^2>1e-14",
        "ill_conditioned_skipped": nskip,
        "worst_rel_err": worst,
        "disagreements": nbad,
    })
    res.samples += [{"op": lines[k], "model": out[k]} for k in (0, 7, len(lines) // 2)]
    if nbad:
        res.broke("correspondence KinF vs tf_pwa.angle.LorentzVector", {"n": nbad, "first": first})
        ctx.hint = first


def search_boost(ctx, res):
    """Direct statement of the property on the implementation."""
    import tensorflow as tf
    from tf_pwa.angle import LorentzVector as lv
    rng = np.random.Generator(np.random.Philox(ctx.seed + 111))
    n = 4000 if (ctx.quick and not ctx.suspect) else 80000
    cases = gen_cases(rng, n)
    P = np.array([c[0] for c in cases])
    V = np.array([c[1] for c in cases])
    Q = np.roll(P, 3, axis=0) + 0.125
    b2 = np.sum(V * V, -1)
    g = 1 / np.sqrt(1 - b2)
    ok = g < 1e3
    tP, tV, tQ = tf.constant(P), tf.constant(V), tf.constant(Q)
    bP = lv.boost(tP, tV)
    bQ = lv.boost(tQ, tV)
    back = lv.boost(bP, -tV).numpy()
    sc = (np.abs(P).sum(-1) + 1e-30)
    # guard branch |v|^2 <= 1e-14 drops a term of relative size |v|^2: tolerance covers it
    tol = 1e-10
    e_inv = np.max(np.abs(back - P), -1) / (sc * g ** 4)
    bad = np.where(ok & ~(e_inv < tol))[0]
    for i in bad[:5]:
        res.fail("boost:inverse", "boost(boost(p,v),-v) != p: p=%s v=%s got %s (rel %.3g)" % (list(P[i]), list(V[i]), list(back[i]), e_inv[i]),
                 {"op": "inverse", "p": list(P[i]), "v": list(V[i])})
    d0 = lv.Dot(tP, tQ).numpy()
    d1 = lv.Dot(bP, bQ).numpy()
    e_dot = np.abs(d1 - d0) / ((np.abs(P).sum(-1) * np.abs(Q).sum(-1) + 1e-30) * g ** 2)
    bad = np.where(ok & ~(e_dot < tol))[0]
    for i in bad[:5]:
        res.fail("boost:dot", "Minkowski product not preserved by boost: p=%s q=%s v=%s: %r -> %r" % (list(P[i]), list(Q[i]), list(V[i]), d0[i], d1[i]),
                 {"op": "dot", "p": list(P[i]), "q": list(Q[i]), "v": list(V[i])})
    # boost matrix agrees with vector boost
    Mf = np.abs(rng.normal(size=n)) + 0.2
    F3 = V * (g * Mf)[:, None]
    Fr = np.concatenate([np.sqrt(Mf[:, None] ** 2 + np.sum(F3 * F3, -1, keepdims=True)), F3], -1)
    bm = tf.einsum("...ij,...j->...i", lv.boost_matrix(tf.constant(Fr)), tP).numpy()
    bv = lv.boost(tP, lv.boost_vector(tf.constant(Fr))).numpy()
    e_m = np.max(np.abs(bm - bv), -1) / (sc * g ** 2)
    bad = np.where(ok & ~(e_m < tol))[0]
    for i in bad[:5]:
        res.fail("boost:matrix", "boost_matrix(f).p != boost(p, f.boost_vector()): f=%s p=%s" % (list(Fr[i]), list(P[i])), {"op": "matrix", "f": list(Fr[i]), "p": list(P[i])})
    # rest_vector of itself is (m,0,0,0)
    rv = lv.rest_vector(tf.constant(Fr), tf.constant(Fr)).numpy()
    e_r = np.max(np.abs(rv - np.concatenate([Mf[:, None], np.zeros((n, 3))], -1)), -1) / (np.abs(Fr).sum(-1) * g ** 2)
    bad = np.where(ok & ~(e_r < tol))[0]
    for i in bad[:5]:
        res.fail("boost:rest", "rest_vector(f, f) != (m,0,0,0): f=%s got %s" % (list(Fr[i]), list(rv[i])), {"op": "rest", "f": list(Fr[i])})
    res.coverage["search_cases"] = int(n)


# ---------------------------------------------------------------------------------------------
# Dalitz clause
# ---------------------------------------------------------------------------------------------

def dalitz_points(rng, n):
    """Seeded mass sets and (m12, m23) inside the Dalitz region, incl. points close to the boundary."""
    out = []
    while len(out) < n:
        m1, m2, m3 = [float(rng.choice([0.0, 0.000511, 0.139, 0.493, 0.938, 1.5])) for _ in range(3)]
        q = float(rng.choice([0.01, 0.2, 1.0, 3.0]))
        m0 = m1 + m2 + m3 + q
        # phase-space point by sequential two-body decay in numpy (independent of the library)
        s23 = float(rng.uniform((m2 + m3) ** 2, (m0 - m1) ** 2))
        if len(out) % 7 == 3:  # near the m23 edges
            t = float(rng.choice([1e-6, 1e-4, 1 - 1e-6, 1 - 1e-4]))
            s23 = (m2 + m3) ** 2 + t * ((m0 - m1) ** 2 - (m2 + m3) ** 2)
        m23 = math.sqrt(s23)
        e2 = (s23 + m2 * m2 - m3 * m3) / (2 * m23)
        e1 = (m0 * m0 - s23 - m1 * m1) / (2 * m23)
        p2 = math.sqrt(max(e2 * e2 - m2 * m2, 0.0))
        p1 = math.sqrt(max(e1 * e1 - m1 * m1, 0.0))
        lo = (e1 + e2) ** 2 - (p1 + p2) ** 2
        hi = (e1 + e2) ** 2 - (p1 - p2) ** 2
        c = float(rng.uniform(0.0, 1.0))
        if len(out) % 5 == 4:
            c = float(rng.choice([1e-5, 1e-3, 1 - 1e-3, 1 - 1e-5]))
        s12 = lo + c * (hi - lo)
        out.append((s12, s23, m0, m1, m2, m3))
    return out


def correspond_dalitz(ctx, res):
    from tf_pwa.data_trans.dalitz import Dalitz
    rng = np.random.Generator(np.random.Philox(ctx.seed + 1101))
    n = 1500 if ctx.quick else 30000
    pts = dalitz_points(rng, n)
    lines = ["C11d gen " + " ".join(C.f2h(x) for x in p) for p in pts]
    out = ctx.model.query(lines)
    nbad, worst, first, nskip = 0, 0.0, None, 0
    for p, line in zip(pts, out):
        if line == "bad-op":
            res.broke("model driver bad-op (Dalitz)", lines[0])
            return
        mv = np.array([C.h2f(x) for x in line.split()])
        p1, p2, p3 = Dalitz(p[2], p[3], p[4], p[5]).generate_p(np.array([p[0]]), np.array([p[1]]))
        iv = np.concatenate([p1.numpy()[0], p2.numpy()[0], p3.numpy()[0]])
        if not (np.all(np.isfinite(mv)) and np.all(np.isfinite(iv))):
            # a point numerically on the boundary: the roots get a (rounding-)negative argument in either evaluation
            nskip += 1
            continue
        # conditioning: the roots amplify rounding by 1/sqrt(distance to the boundary); scale by the largest |pc|, |pa|
        lam = (p[2] ** 2 - (p[3] + math.sqrt(p[1])) ** 2) * (p[2] ** 2 - (p[3] - math.sqrt(p[1])) ** 2)
        pc = abs(iv[6])
        if lam < 1e-6 * p[2] ** 4 or pc < 1e-4 * p[2]:
            nskip += 1
            continue
        # forward error of the same formula text in double precision ~ eps * (m0^4/lambda + (m0/pc)^2)
        cond = 1.0 + p[2] ** 4 / lam + (p[2] / pc) ** 2
        err = float(np.max(np.abs(mv - iv))) / p[2] / cond
        worst = max(worst, err)
        if not err < 1e-12:
            nbad += 1
            if first is None:
                first = {"args": list(p), "impl": list(map(float, iv)), "model": list(map(float, mv)), "rel_err": err}
    res.coverage["dalitz_points"] = n
    res.coverage["dalitz_skipped_ill_conditioned"] = nskip
    res.coverage["dalitz_worst_rel_err"] = worst
    res.coverage["traces_validated_against_impl"] = res.coverage.get("traces_validated_against_impl", 0) + n - nskip
    res.samples.append({"op": lines[0], "model": out[0]})
    if nbad:
        res.broke("correspondence DalitzF.gen vs tf_pwa.data_trans.dalitz.generate_p", {"n": nbad, "first": first})


def search_dalitz(ctx, res):
    """The Dalitz clause stated on the implementation: on-shell, sum = parent at rest, variables reproduced."""
    from tf_pwa.data_trans.dalitz import Dalitz
    rng = np.random.Generator(np.random.Philox(ctx.seed + 1102))
    n = 3000 if (ctx.quick and not ctx.suspect) else 40000
    pts = dalitz_points(rng, n)
    A = np.array(pts)
    nfail, nskip, worst = 0, 0, 0.0
    for key in sorted({tuple(r[2:]) for r in pts}):
        sel = np.all(A[:, 2:] == np.array(key), axis=1)
        m0, m1, m2, m3 = key
        p1, p2, p3 = [x.numpy() for x in Dalitz(m0, m1, m2, m3).generate_p(A[sel, 0], A[sel, 1])]
        ok = np.all(np.isfinite(p1) & np.isfinite(p2) & np.isfinite(p3), axis=-1)
        # conditioning guard (same as the correspondence): the code divides by sqrt(lambda) and takes sqrt of the
        # boundary polynomial, so rounding is amplified without bound at the edge of the Dalitz plot
        lam = (m0 ** 2 - (m1 + np.sqrt(A[sel, 1])) ** 2) * (m0 ** 2 - (m1 - np.sqrt(A[sel, 1])) ** 2)
        ok &= (lam > 1e-6 * m0 ** 4) & (np.abs(p2[:, 2]) > 1e-4 * m0)
        nskip += int(np.sum(~ok))
        cond = 1.0 + m0 ** 4 / np.where(ok, lam, 1.0) + (m0 / np.where(ok, np.abs(p2[:, 2]), 1.0)) ** 2

        def M2(p):
            return p[:, 0] ** 2 - p[:, 1] ** 2 - p[:, 2] ** 2 - p[:, 3] ** 2
        tot = p1 + p2 + p3
        sc = m0 * m0
        checks = {
            "m1": np.abs(M2(p1) - m1 * m1) / sc, "m2": np.abs(M2(p2) - m2 * m2) / sc, "m3": np.abs(M2(p3) - m3 * m3) / sc,
            "m12": np.abs(M2(p1 + p2) - A[sel, 0]) / sc, "m23": np.abs(M2(p2 + p3) - A[sel, 1]) / sc,
            "sum": np.max(np.abs(tot - np.array([m0, 0, 0, 0])), axis=-1) / m0,
        }
        checks = {k: v / cond for k, v in checks.items()}
        for name, e in checks.items():
            if np.any(ok):
                worst = max(worst, float(np.max(e[ok])))
            bad = np.where(ok & ~(e < 1e-12))[0]
            for i in bad[:2]:
                if nfail < 10:
                    res.fail("dalitz:" + name, "Dalitz.generate_p(m12=%r, m23=%r; m0..m3=%r) does not reproduce %s (residual %.3g)" % (
                        A[sel, 0][i], A[sel, 1][i], key, name, e[i]),
                        {"op": "dalitz", "m12": float(A[sel, 0][i]), "m23": float(A[sel, 1][i]), "masses": list(key), "what": name})
                nfail += 1
    res.coverage["dalitz_search_points"] = n
    res.coverage["dalitz_search_skipped_ill_conditioned"] = nskip
    res.coverage["dalitz_search_worst_residual"] = worst


# ---------------------------------------------------------------------------------------------
# helicity-angle cascade round trip, end to end on the implementation (the theorem is Props/C11d.lean cascade_roundtrip)
# ---------------------------------------------------------------------------------------------

def _roundtrip_chain(ch, finals, rnd, N):
    import tensorflow as tf
    from tf_pwa.data_trans.helicity_angle import HelicityAngle
    ha = HelicityAngle(ch)
    mass = {}
    for f in finals:
        mass[f] = np.full(N, rnd.choice([0.0, 0.14, 0.5, 0.94]))

    def m_of(p):
        if p in mass:
            return mass[p]
        for d in ch:
            if d.core == p:
                lo = sum(m_of(o) for o in d.outs)
                mass[p] = lo + np.array([rnd.choice([0.02, 0.3, 1.0]) * rnd.uniform(0.5, 1.0) for _ in range(N)])
                return mass[p]
        raise KeyError(p)
    m_of(ch.top)
    decs = list(ch)
    cos = [np.array([rnd.uniform(-0.995, 0.995) for _ in range(N)]) for _ in decs]
    phi = [np.array([rnd.uniform(-3.13, 3.13) for _ in range(N)]) for _ in decs]
    ms = {k: tf.constant(v) for k, v in mass.items()}
    p4 = ha.build_data(ms, [tf.constant(c) for c in cos], [tf.constant(c) for c in phi])
    dat = ha.cal_angle(p4)
    ms2, cos2, phi2 = ha.find_variable(dat)
    errs = {}
    for k in mass:
        # compare squared masses (sqrt|m2| amplifies rounding for massless particles)
        errs["mass " + str(k)] = float(np.max(np.abs(ms2[k].numpy() ** 2 - mass[k] ** 2))) / float(np.max(mass[ch.top]) ** 2)
    for j, (a, b) in enumerate(zip(cos, cos2)):
        errs["cos(theta) of %s" % decs[j]] = float(np.max(np.abs(a - b.numpy())))
    for j, (a, b) in enumerate(zip(phi, phi2)):
        # inputs are in (-3.13, 3.13), away from the wrap-around point: the extracted phi must be the input itself
        # (theorem cascade_roundtrip), not merely the input mod 2 pi
        d = np.abs(a - b.numpy())
        errs["phi of %s" % decs[j]] = float(d.max())
    # momenta: on shell and summing to the parent at rest
    tot = sum(p4[f].numpy() for f in finals)
    errs["sum"] = float(np.max(np.abs(tot - np.concatenate([mass[ch.top][:, None], np.zeros((N, 3))], -1))))
    return errs, {"masses": {str(k): [float(x) for x in v] for k, v in mass.items()}, "cos": [list(map(float, c)) for c in cos], "phi": [list(map(float, c)) for c in phi]}


def search_cascade(ctx, res):
    import random
    from tf_pwa.particle import BaseParticle, DecayChain
    rnd = random.Random(ctx.seed * 7919 + 11)
    worst, nch, nfail = 0.0, 0, 0
    deep = (not ctx.quick) or ctx.suspect
    for n in (3, 4, 5):
        top = BaseParticle("A")
        finals = [BaseParticle(c) for c in "BCDEF"[:n]]
        chains = DecayChain.from_particles(top, finals)
        for ci, ch in enumerate(chains):
            if n == 5 and not deep and rnd.random() > 0.3:
                continue
            nch += 1
            errs, inp = _roundtrip_chain(ch, finals, rnd, 4 if not deep else 12)
            for name, e in errs.items():
                worst = max(worst, e)
                if not e < 1e-6:
                    if nfail < 8:
                        res.fail("cascade:roundtrip", "HelicityAngle(%s).build_data -> cal_angle -> find_variable does not return the inputs: %s, max err %.3g" % (ch, name, e),
                                 {"op": "cascade", "n": n, "chain_index": ci, "chain": str(ch), "what": name, "inputs": inp})
                    nfail += 1
    res.coverage["cascade_chains"] = nch
    res.coverage["cascade_worst_err"] = worst
    res.samples.append({"cascade_chains_checked": nch, "worst_roundtrip_error": worst})


def correspond_angle(ctx, res):
    """templates/Angle.lean.in (Float) vs Vector3.cross_unit / EulerAngle.angle_zx_z_getx on seeded frames."""
    import tensorflow as tf
    from tf_pwa.angle import EulerAngle, Vector3
    rng = np.random.Generator(np.random.Philox(ctx.seed + 1103))
    n = 1500 if ctx.quick else 30000
    # random orthonormal frames (QR), daughter directions incl. nearly collinear with z (conditioning guard below)
    Q = np.linalg.qr(rng.normal(size=(n, 3, 3)))[0]
    Q[:, :, 2] *= np.sign(np.linalg.det(Q))[:, None]  # right-handed
    X, Z = Q[:, :, 0], Q[:, :, 2]
    Y = Q[:, :, 1]
    th = rng.uniform(0.02, math.pi - 0.02, n)
    th[:20] = np.array([1e-3, 1e-5, math.pi - 1e-4, math.pi / 2] * 5)
    ph = rng.uniform(-math.pi, math.pi, n)
    P = np.abs(rng.normal(size=n)) + 0.05
    p = P[:, None] * (np.sin(th)[:, None] * (np.cos(ph)[:, None] * X + np.sin(ph)[:, None] * Y) + np.cos(th)[:, None] * Z)
    # axes passed un-normalised, as the code does (z of a daughter is its momentum)
    zs = Z * (np.abs(rng.normal(size=n)) + 0.1)[:, None]
    ang, x2 = EulerAngle.angle_zx_z_getx(tf.constant(zs), tf.constant(X), tf.constant(p))
    cu = Vector3.cross_unit(tf.constant(zs), tf.constant(p)).numpy()
    al, be, x2 = ang["alpha"].numpy(), ang["beta"].numpy(), x2.numpy()
    lines = []
    for i in range(n):
        lines.append("C11a getx " + " ".join(C.f2h(v) for v in list(zs[i]) + list(X[i]) + list(p[i])))
        lines.append("C11a crossunit " + " ".join(C.f2h(v) for v in list(zs[i]) + list(p[i])))
    out = ctx.model.query(lines)
    nbad, worst, first, nskip = 0, 0.0, None, 0
    for i in range(n):
        if out[2 * i] == "bad-op":
            res.broke("model driver bad-op (Angle)", lines[0])
            return
        mv = np.array([C.h2f(v) for v in out[2 * i].split()])
        cv = np.array([C.h2f(v) for v in out[2 * i + 1].split()])
        st = math.sin(th[i])
        if st < 1e-6:  # azimuth ill-defined near the poles
            nskip += 1
            continue
        da = abs(mv[0] - al[i]); da = min(da, abs(da - 2 * math.pi))
        err = max(da * st, abs(mv[1] - be[i]) * st, float(np.max(np.abs(mv[2:] - x2[i]))) * st, float(np.max(np.abs(cv - cu[i]))) * st)
        worst = max(worst, err)
        # the theorem's content, on the implementation: extracted (alpha, beta) are (phi, theta)
        dphi = abs(al[i] - ph[i]); dphi = min(dphi, abs(dphi - 2 * math.pi))
        if not (err < 1e-11 and dphi * st < 1e-9 and abs(be[i] - th[i]) * st < 1e-9):
            nbad += 1
            if first is None:
                first = {"z": list(zs[i]), "x": list(X[i]), "p": list(p[i]), "theta": th[i], "phi": ph[i], "impl": [al[i], be[i]] + list(x2[i]), "model": list(map(float, mv)), "err": err}
    res.coverage["angle_vertices"] = n
    res.coverage["angle_skipped_near_pole"] = nskip
    res.coverage["angle_worst_err"] = worst
    res.coverage["traces_validated_against_impl"] = res.coverage.get("traces_validated_against_impl", 0) + 2 * (n - nskip)
    res.samples.append({"op": lines[0], "model": out[0]})
    if nbad:
        res.broke("correspondence AngleF vs EulerAngle.angle_zx_z_getx / Vector3.cross_unit", {"n": nbad, "first": first})


# ---------------------------------------------------------------------------------------------
# cascade model (templates/Cascade.lean.in) vs HelicityAngle.build_data / cal_angle
# ---------------------------------------------------------------------------------------------

def _cascade_inputs(ch, finals, rnd, N, edge=False):
    """seeded masses (every decay above threshold) and angles for one chain; `edge`: angles close to the poles / ±π"""
    mass = {}
    for f in finals:
        mass[f] = np.full(N, rnd.choice([0.0, 0.14, 0.5, 0.94]))

    def m_of(p):
        if p in mass:
            return mass[p]
        for d in ch:
            if d.core == p:
                lo = sum(m_of(o) for o in d.outs)
                mass[p] = lo + np.array([rnd.choice([0.02, 0.3, 1.0]) * rnd.uniform(0.5, 1.0) for _ in range(N)])
                return mass[p]
        raise KeyError(p)
    m_of(ch.top)
    decs = list(ch)
    if edge:
        cos = [np.array([rnd.choice([-0.9999, 0.9999, 0.0, rnd.uniform(-0.99, 0.99)]) for _ in range(N)]) for _ in decs]
        phi = [np.array([rnd.choice([-3.1415, 3.1415, 0.0, 1e-9, -1e-9, rnd.uniform(-3.1, 3.1)]) for _ in range(N)]) for _ in decs]
    else:
        cos = [np.array([rnd.uniform(-0.995, 0.995) for _ in range(N)]) for _ in decs]
        phi = [np.array([rnd.uniform(-3.13, 3.13) for _ in range(N)]) for _ in decs]
    return mass, decs, cos, phi


def _tree_tokens(ch, decs, mass, cos, phi, k):
    """prefix notation of the decay tree of event k for the Lean model; also the preorder list of (decay | final)"""
    by_core = {d.core: (j, d) for j, d in enumerate(decs)}
    toks, order = [], []

    def rec(p):
        if p in by_core:
            j, d = by_core[p]
            toks.extend([1.0, float(mass[p][k]), float(cos[j][k]), float(phi[j][k])])
            order.append(("dec", j, d))
            rec(d.outs[0])
            rec(d.outs[1])
        else:
            toks.extend([0.0, float(mass[p][k])])
            order.append(("fin", p))
    rec(ch.top)
    return toks, order


def correspond_cascade(ctx, res):
    """CascadeF (Float instance of the model the cascade theorems are about) vs the implementation:
    final momenta of build_data, and per decay (alpha, beta) of BOTH daughters + all masses from cal_angle."""
    import random
    import tensorflow as tf
    from tf_pwa.data_trans.helicity_angle import HelicityAngle
    from tf_pwa.particle import BaseParticle, DecayChain
    rnd = random.Random(ctx.seed * 104729 + 1104)
    N = 6 if ctx.quick else 40
    picks = []
    for n in (3, 4, 5):
        top = BaseParticle("A")
        finals = [BaseParticle(c) for c in "BCDEF"[:n]]
        chains = DecayChain.from_particles(top, finals)
        idx = list(range(len(chains)))
        if n == 5 and ctx.quick:
            idx = sorted(rnd.sample(idx, 12))
        picks += [(n, ci, chains[ci], finals) for ci in idx]
    lines, meta = [], []
    for n, ci, ch, finals in picks:
        for edge in (False, True):
            mass, decs, cos, phi = _cascade_inputs(ch, finals, rnd, N, edge)
            ha = HelicityAngle(ch)
            ms = {k: tf.constant(v) for k, v in mass.items()}
            p4 = ha.build_data(ms, [tf.constant(c) for c in cos], [tf.constant(c) for c in phi])
            dat = ha.cal_angle(p4)
            st = ch.standard_topology()
            tmap = st.topology_map(ch)
            inv = {v: k for k, v in tmap.items()}
            for k in range(N):
                toks, order = _tree_tokens(ch, decs, mass, cos, phi, k)
                arg = " ".join(C.f2h(x) for x in toks)
                impl_p, impl_a = [], []
                sin_min = 1.0
                for o in order:
                    if o[0] == "fin":
                        impl_p += [float(x) for x in p4[o[1]].numpy()[k]]
                        impl_a.append(float(dat["particle"][inv[o[1]]]["m"].numpy()[k]))
                    else:
                        d = o[2]
                        sd = inv[d]
                        impl_a.append(float(dat["particle"][sd.core]["m"].numpy()[k]))
                        for out in sd.outs:
                            ang = dat["decay"][st][sd][out]["ang"]
                            impl_a += [float(ang["alpha"].numpy()[k]), float(ang["beta"].numpy()[k])]
                        sin_min = min(sin_min, math.sqrt(max(1 - cos[o[1]][k] ** 2, 0.0)))
                lines += ["C11t build " + arg, "C11t angle " + arg]
                meta.append({"n": n, "chain_index": ci, "chain": str(ch), "event": k, "edge": edge, "impl_p": impl_p, "impl_a": impl_a,
                             "order": order, "m0": float(mass[ch.top][k]), "sin_min": sin_min, "tokens": toks})
    out = ctx.model.query(lines)
    nbad, worst_p, worst_a, first, nskip = 0, 0.0, 0.0, None, 0
    for i, mt in enumerate(meta):
        lp, la = out[2 * i], out[2 * i + 1]
        if lp == "bad-op" or la == "bad-op":
            res.broke("model driver bad-op (Cascade)", lines[2 * i])
            return
        mp = np.array([C.h2f(x) for x in lp.split()])
        ma = np.array([C.h2f(x) for x in la.split()])
        ip, ia = np.array(mt["impl_p"]), np.array(mt["impl_a"])
        if mp.shape != ip.shape or ma.shape != ia.shape:
            res.broke("correspondence CascadeF: shape of the answer", {"chain": mt["chain"], "model": [len(mp), len(ma)], "impl": [len(ip), len(ia)]})
            return
        ep = float(np.max(np.abs(mp - ip))) / mt["m0"]
        worst_p = max(worst_p, ep)
        # angles: compare mod 2π; masses squared (sqrt|m²| of a massless particle amplifies rounding);
        # azimuths are ill-conditioned near the poles of any vertex above: scale by the smallest sin θ of the chain
        ea, pos = 0.0, 0
        for o in mt["order"]:
            if o[0] == "fin":
                ea = max(ea, abs(ma[pos] ** 2 - ia[pos] ** 2) / mt["m0"] ** 2)
                pos += 1
            else:
                ea = max(ea, abs(ma[pos] ** 2 - ia[pos] ** 2) / mt["m0"] ** 2)
                for q in (1, 3):
                    da = abs(ma[pos + q] - ia[pos + q])
                    # the ranges are part of the contract ([-pi, pi) for outs[0], [-2pi, 0) for outs[1], theorem cascade_angles):
                    # compare exactly, except within 1e-6 of the wrap-around point, where rounding may pick either end
                    hi = math.pi if q == 1 else 0.0
                    if min(abs(ia[pos + q] - hi), abs(ia[pos + q] - hi + 2 * math.pi)) < 1e-6:
                        da = min(da % (2 * math.pi), 2 * math.pi - da % (2 * math.pi))
                    ea = max(ea, da * mt["sin_min"] ** 2, abs(ma[pos + q + 1] - ia[pos + q + 1]) * mt["sin_min"] ** 2)
                pos += 5
        if mt["sin_min"] < 1e-3:
            nskip += 1
            continue
        worst_a = max(worst_a, ea)
        if not (ep < 1e-10 and ea < 1e-9):
            nbad += 1
            if first is None:
                first = {"chain": mt["chain"], "n": mt["n"], "chain_index": mt["chain_index"], "tokens": mt["tokens"], "err_momenta": ep, "err_angles": ea,
                         "impl_p": mt["impl_p"], "model_p": list(map(float, mp)), "impl_a": mt["impl_a"], "model_a": list(map(float, ma))}
    res.coverage["cascade_model_events"] = len(meta)
    res.coverage["cascade_model_chains"] = len(picks)
    res.coverage["cascade_model_skipped_near_pole"] = nskip
    res.coverage["cascade_model_worst_err_momenta"] = worst_p
    res.coverage["cascade_model_worst_err_angles"] = worst_a
    res.coverage["traces_validated_against_impl"] = res.coverage.get("traces_validated_against_impl", 0) + 2 * (len(meta) - nskip)
    res.samples.append({"op": lines[0][:200], "model": out[0][:200]})
    if nbad:
        res.broke("correspondence CascadeF vs HelicityAngle.build_data / cal_angle", {"n": nbad, "first": first})


def correspond(ctx, res):
    import c11_l
    correspond_boost(ctx, res)
    correspond_dalitz(ctx, res)
    correspond_angle(ctx, res)
    correspond_cascade(ctx, res)
    c11_l.correspond(ctx, res)


def search(ctx, res):
    import c11_l
    search_boost(ctx, res)
    search_dalitz(ctx, res)
    search_cascade(ctx, res)
    c11_l.search(ctx, res)


def replay(ctx, payload):
    """Re-execute the failing input of a replay file on the current /repo; exit 1 if it still fails."""
    import tensorflow as tf
    r = payload.get("replay") or {}
    op = r.get("op")
    res = C.Result()
    if op in ("inverse", "dot", "matrix", "rest"):
        from tf_pwa.angle import LorentzVector as lv
        if op == "inverse":
            p, v = tf.constant([r["p"]]), tf.constant([r["v"]])
            back = lv.boost(lv.boost(p, v), -v).numpy()[0]
            g2 = 1 / (1 - float(np.sum(np.array(r["v"]) ** 2)))
            bad = not np.max(np.abs(back - np.array(r["p"]))) / (np.abs(r["p"]).sum() * g2 * g2 + 1e-30) < 1e-10
            print("boost(boost(p,v),-v) =", list(back), "p =", r["p"])
        elif op == "dot":
            p, q, v = tf.constant([r["p"]]), tf.constant([r["q"]]), tf.constant([r["v"]])
            d0 = float(lv.Dot(p, q)[0]); d1 = float(lv.Dot(lv.boost(p, v), lv.boost(q, v))[0])
            g2 = 1 / (1 - float(np.sum(np.array(r["v"]) ** 2)))
            bad = not abs(d1 - d0) / ((np.abs(r["p"]).sum() * np.abs(r["q"]).sum() + 1e-30) * g2) < 1e-10
            print("p.q =", d0, "after boost:", d1)
        elif op == "matrix":
            f, p = tf.constant([r["f"]]), tf.constant([r["p"]])
            a = tf.einsum("...ij,...j->...i", lv.boost_matrix(f), p).numpy()[0]
            b = lv.boost(p, lv.boost_vector(f)).numpy()[0]
            bad = not np.max(np.abs(a - b)) / (np.abs(r["p"]).sum() * (r["f"][0] ** 2 / lv.M2(f).numpy()[0])) < 1e-10
            print("boost_matrix.p =", list(a), "boost(p, bv) =", list(b))
        else:
            f = tf.constant([r["f"]])
            a = lv.rest_vector(f, f).numpy()[0]
            bad = not np.max(np.abs(a[1:])) / np.abs(r["f"]).sum() < 1e-8
            print("rest_vector(f,f) =", list(a))
    elif op == "dalitz":
        from tf_pwa.data_trans.dalitz import Dalitz
        m0, m1, m2, m3 = r["masses"]
        p1, p2, p3 = [x.numpy()[0] for x in Dalitz(m0, m1, m2, m3).generate_p(np.array([r["m12"]]), np.array([r["m23"]]))]
        M2 = lambda p: p[0] ** 2 - p[1] ** 2 - p[2] ** 2 - p[3] ** 2
        vals = {"m1": M2(p1) - m1 ** 2, "m2": M2(p2) - m2 ** 2, "m3": M2(p3) - m3 ** 2, "m12": M2(p1 + p2) - r["m12"], "m23": M2(p2 + p3) - r["m23"],
                "sum": float(np.max(np.abs(p1 + p2 + p3 - np.array([m0, 0, 0, 0])))) * m0}
        print(vals)
        bad = not abs(vals[r["what"]]) / (m0 * m0) < 1e-9
    elif op == "cascade":
        import random
        from tf_pwa.particle import BaseParticle, DecayChain
        n = r["n"]
        top = BaseParticle("A")
        finals = [BaseParticle(c) for c in "BCDEF"[:n]]
        ch = DecayChain.from_particles(top, finals)[r["chain_index"]]
        errs, _ = _roundtrip_chain(ch, finals, random.Random(1), 8)
        print(str(ch), {k: v for k, v in errs.items() if v > 1e-6})
        bad = any(not v < 1e-6 for v in errs.values())
    elif op in ("listed", "range", "c10"):
        import c11_l
        bad = c11_l.replay(r)
    else:
        print("replay file names a broken obligation, not an input:", json_dumps(payload.get("broken")))
        return 1
    print("REPLAY: property C11 %s" % ("still violated" if bad else "holds on this input now"))
    return 1 if bad else 0


def json_dumps(x):
    import json
    return json.dumps(x, default=str)[:2000]


MANIFEST = {
    "text": "Lean theorems over the reals for ALL four-vectors and all velocities in the regular branch eps<|v|^2<1: boosts preserve Minkowski products and masses (boost_minkowski, boost_mass), boost by v then -v is the identity (boost_inverse), rest_vector then boost back is the identity, boost matrix = vector boost (all inputs), rotations preserve products; the eps-guard branch is stated separately; momenta built from Dalitz variables are on shell, sum to the parent at rest and reproduce (m12, m23) everywhere inside the Dalitz region (dalitz_reproduces, certificate-checked); for EVERY decay tree (sequential or branching, any number of final particles) building the final momenta from masses and helicity angles and extracting masses and angles again returns the inputs (cascade_roundtrip, with cascade_boost_undo and cascade_angles), for cos(theta) in (-1,1), phi in (-pi,pi), decays above threshold and outside the code's 1e-14 guards -- and this holds for EVERY LISTING ORDER of the decays of the chain: the positional costheta[j]/phi[j] lists come back position by position (cascade_roundtrip_listed for any list of decays whose depth-first walk reaches every listed decay; cascade_roundtrip_any_listing for every labelled tree and every permutation of its decays). HelicityAngle.get_mass_range is sound and complete for every tree-like chain in any listing order and all masses (mass_range_sound_complete: every decay at/above threshold iff every intermediate mass is in [sum of its daughters, mother - sibling]); mass_linspace returns N points strictly inside the range (mass_linspace_inside); eval_phsp_factor/get_phsp_factor do not depend on the listing order (phsp_factor_perm) and equal PhaseSpaceGenerator.get_weight(importances=False)*m_wtMax of C10 on the sequential cascade (get_phsp_factor_eq_c10_weight, via get_relative_p = get_p). The same definition text is instantiated at Float and compared with tf_pwa.angle.LorentzVector / HelicityAngle.",
    "note": "Model = templates/Kin.lean.in instantiated at R (proofs) and Float (execution); tie = differential run against LorentzVector.boost/rest_vector/boost_matrix/Dot/M on seeded structured vectors (tol 1e-11 relative to gamma^2|p|, gamma>1e4 skipped). + Dalitz.generate_p vs templates/Dalitz.lean.in (a line-by-line transcription of _generate_fun0). Float rounding itself is not verified. Helicity angles: single vertex (angle_step_roundtrip, Props/C11c.lean; model templates/Angle.lean.in compared with EulerAngle.angle_zx_z_getx / Vector3.cross_unit) and the whole CASCADE (Props/C11d.lean over templates/Cascade.lean.in, by structural induction over an arbitrary binary decay tree): cascade_boost_undo (masses and the nested rest_vector boosts of cal_chain_boost return exactly the rest-frame momenta create_rotate_p_decay started from), daughter_frames (the axes handed to both daughters, incl. [x,-y,-z], are orthonormal right-handed frames), cascade_angles (cal_helicity_angle returns (phi, theta) for outs[0] and (phi-pi, pi-theta) for outs[1], range shift with bias -pi/-2pi included), cascade_roundtrip (find_variable(cal_angle(build_data(t))) = t), hypotheses = the code's own guards + thresholds + open angle ranges; phi = pi stated separately (alpha_at_pi). The Float instance of the cascade model is compared with HelicityAngle.build_data / cal_angle (momenta, masses, both daughters' angles) on all 3-/4-body and seeded 5-body topologies. BOOKKEEPING (Props/C11e.lean; Model/ChainL.lean scalar-free + templates/CascadeL.lean.in): a chain is the LIST of its decays in listing order; the model assembles the tree the way the code does (build_data: positional angle j -> data[j-th listed decay]; create_rotate_p_decay: depth_first() with node_map by mother; find_variable: positional lists over the listing), and the Float instance is compared with the real HelicityAngle on every run for all 3-/4-body and seeded 5-body topologies in SEEDED LISTING ORDERS (depth-first, reversed, random permutations, swapped daughters; random particle numbering): tops / depth_first order / finals / get_all_particles exactly, build_data momenta 1e-10, find_variable masses and positional cos/phi 1e-9, get_mass_range exactly (None included), mass_linspace to 2 ulp, get_phsp_factor / eval_phsp_factor / HelicityAngle1.get_phsp_factor 1e-12, generate_p_mass 1e-10, the C10 tie (product of get_relative_p over the sequential triples = product of C10's qListAux) 1e-12. Theorems: cascade_roundtrip_listed, cascade_roundtrip_any_listing (depthFirstTop_perm: depth_first() of ANY permutation of the decays of a tree walks that tree), build_data_keys, mass_range_sound_complete, mass_range_value, mass_range_none, mass_linspace_inside, phsp_factor_perm, get_phsp_factor_perm, get_relative_p_eq_get_p, phsp_factor_seq_eq_c10, get_phsp_factor_eq_c10_weight. Search on the implementation: round trip over listing orders (positional), get_mass_range vs an independent threshold oracle just inside/outside both ends, mass_linspace strictly inside and increasing, get_phsp_factor vs a numpy Kallen-function product, eval_phsp_factor of the sequential chain vs PhaseSpaceGenerator.get_weight*m_wtMax. Validated only (not in the Lean model): standard_topology()/topology_map() name matching via sorted_table, particle identity by name, batching/tensors, generate_p_mass(random=True), HelicityAngle1.generate_p*, float rounding, the SU(2) r_matrix/b_matrix computed alongside. Side finding (not a C11 violation; fixes/C11-side-fix_helicity_angle1_float64.diff): HelicityAngle1.get_phsp_factor evaluates get_relative_p on Python floats, which tf.where turns into float32 (relative error ~2e-8 against HelicityAngle.get_phsp_factor on the same chain); the check compares it within a float32 forward-error bound (3e-7 x sum of m0/(m0-m1-m2)) and records the measured deviation. The end-to-end round trip is still run on the implementation for every chain topology with 3..5 final particles (all in the thorough tier, all 3- and 4-body plus a seeded 30% of the 105 five-body chains in the quick tier).",
    "technique": "Lean 4 proof over the reals (linear_combination certificates, structural induction over decay trees, list/permutation lemmas for the chain bookkeeping) of one template instantiated at Float for differential correspondence with the implementation",
}
