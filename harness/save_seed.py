#!/usr/bin/env python3
"""save_seed.py <seed-id> <worktree> <caught_by> [note]: store a confirmed seeded change under /verif/seeded/<seed-id>/"""
import json, os, shutil, sys
sid, wt, caught = sys.argv[1:4]
note = sys.argv[4] if len(sys.argv) > 4 else None
d = "/verif/seeded/" + sid
os.makedirs(d, exist_ok=True)
for f in ("patch.diff", "demo.py", "meta.json"):
    shutil.copy(os.path.join(wt, "_seed", f), d)
m = json.load(open(d + "/meta.json"))
m["caught_by"] = caught
if note:
    m["note"] = note
m["confirmed_by_integrator"] = "demo.py exit 0 on the unchanged worktree and exit 1 with patch.diff applied; the registered check run against the worktree with the patch (VERIF_REPO) exits 1 with a VIOLATION line and exits 0 on the unchanged tree"
json.dump(m, open(d + "/meta.json", "w"), indent=1)
print("saved", d)
