"""C03 — amplitudes superpose linearly; fit fractions obey the sum rule and do not depend on batching."""
import contextlib
import io
import itertools
import math
import random

import common as C
import c03_ff as B

PID = "C03"
DRIVER = [("C03", "TfPwaV.Model.Superpose", "Superpose.handle"), ("C03b", "TfPwaV.Model.FitFrac", "FitFrac.handle")]
LEAN_TARGETS = ["TfPwaV.Props.C03", "TfPwaV.Props.C03b"]
PROP_MODULES = ["TfPwaV.Props.C03", "TfPwaV.Props.C03b"]
ALL_MODULES = ["TfPwaV.Model.Superpose", "TfPwaV.Proofs.Superpose", "TfPwaV.Props.C03", "TfPwaV.Model.FitFrac", "TfPwaV.Props.C03b"]
ASSUMPTIONS = [
    "theorems are over an arbitrary commutative ring / field K (exact arithmetic); the implementation is IEEE double: "
    "superposition is compared at 1e-12 relative, fractions at 1e-10 absolute, sum-rule residual at 1e-9",
    "the single-chain tensors a_k fed to the model are the implementation's own get_amp3 under set_used_chains([k]) "
    "(what a chain's amplitude *is* — line shapes, Wigner D, couplings — belongs to C04/C12/C15, not to C03)",
    "list(set of small ints) is ascending for groups with <= 8 chains (CPython hash table >= 8 slots); above that the "
    "order produced by set_used_res(only=False) is compared as a set",
    "a chain that contains two of the named resonances is counted in both fractions by the definition itself: the sum "
    "rule is stated (and checked) under the hypothesis that the named resonances' chain sets are pairwise disjoint",
    "fit fractions are computed from the full selection; the library's own restore logic after a fit-fraction call is "
    "property C17's subject (the harness restores chains_idx / not_full / parameters itself)",
    "gradients: TF autodiff is a parameter of the model (see C07) — the per-event tape gradients are handed to the model, "
    "which accumulates them batch by batch and applies the quotient rule as coded; frac_grad_table_is_deriv / "
    "ff_grad_is_deriv (C03b, from C09 frac_grad_is_deriv) assume the per-event gradients are the derivatives of the densities",
    "C03b models the dictionaries cached_int / cached_grad of FitFractions by position (i, j) in res; the code keys them by "
    "str(res[i]): the two agree when the names str(res[i]) are pairwise distinct (a repeated name collapses keys in the code)",
    "C03b exact runs use a stub amplitude object (integer tensors, integer couplings held in tf.Variables, dyadic weights) on "
    "top of the library's own DecayGroup selection, so that every partial sum is an integer < 2^53 and the Lean Float model "
    "must reproduce cached integrals, gradients, fractions and gradient tables bit for bit (==); tf.reduce_sum / the tape "
    "are exact on such inputs",
    "a value that is neither str, BaseParticle nor int inside the res list (nested list, tuple, None, float) is one model "
    "value Item.other: set_used_res raises TypeError before touching chains_idx; so nested lists are legal exactly one level "
    "deep (partial_weight(combine=[[...], ...])), a list-valued res[i] of FitFractions / cal_fitfractions raises",
    "get_frac's sqrt(g E g) error bars and NumberError formatting are C09's subject; C03b compares get_frac_diag_sum's error "
    "with |sum of diagonal gradients| at 1e-9 only",
]

TOL_AMP = 1e-12
TOL_FF = 1e-10
TOL_SUM = 1e-9
TOL_GRAD = 1e-7

# ---------------------------------------------------------------------------------------------
# decay groups (dict configs -> ConfigLoader)
# ---------------------------------------------------------------------------------------------

def _cfg_g0():
    # spinless three-body decay, three chains: the cheap group that carries the full batch-size matrix in the quick tier
    return {
        "data": {"dat_order": ["B", "C", "D"]},
        "decay": {"A": [["R_BC", "D"], ["R_BD", "C"], ["R_CD", "B"]],
                  "R_BC": ["B", "C"], "R_BD": ["B", "D"], "R_CD": ["C", "D"]},
        "particle": {
            "$top": {"A": {"J": 0, "P": -1, "mass": 1.87}},
            "$finals": {"B": {"J": 0, "P": -1, "mass": 0.494}, "C": {"J": 0, "P": -1, "mass": 0.14},
                        "D": {"J": 0, "P": -1, "mass": 0.135}},
            "R_BC": {"J": 1, "P": -1, "mass": 0.892, "width": 0.05},
            "R_BD": {"J": 0, "P": 1, "mass": 1.43, "width": 0.27},
            "R_CD": {"J": 2, "P": 1, "mass": 1.27, "width": 0.19},
        },
    }


def _cfg_g1():
    return {
        "data": {"dat_order": ["B", "C", "D"]},
        "decay": {"A": [["R_BC", "D"], ["R_BD", "C"], ["R_CD", "B"]],
                  "R_BC": ["B", "C"], "R_BD": ["B", "D"], "R_CD": ["C", "D"]},
        "particle": {
            "$top": {"A": {"J": 1, "P": -1, "mass": 4.6}},
            "$finals": {"B": {"J": 1, "P": -1, "mass": 2.00698}, "C": {"J": 1, "P": -1, "mass": 2.01028},
                        "D": {"J": 0, "P": -1, "mass": 0.13957}},
            "R_BC": ["Z1", "Z2"],
            "Z1": {"J": 1, "P": 1, "mass": 4.16, "width": 0.1},
            "Z2": {"J": 0, "P": -1, "mass": 4.3, "width": 0.2},
            "R_BD": {"J": 1, "P": 1, "mass": 2.42, "width": 0.03},
            "R_CD": {"J": 2, "P": 1, "mass": 2.46, "width": 0.05},
        },
    }


def _cfg_g2():
    # spin-1/2 parent -> 1/2 (+) 0 (+) 1 with six interfering chains
    return {
        "data": {"dat_order": ["B", "C", "D"]},
        "decay": {"A": [["R_BC", "D"], ["R_BD", "C"], ["R_CD", "B"]],
                  "R_BC": ["B", "C"], "R_BD": ["B", "D"], "R_CD": ["C", "D"]},
        "particle": {
            "$top": {"A": {"J": 0.5, "P": 1, "mass": 5.6}},
            "$finals": {"B": {"J": 0.5, "P": 1, "mass": 0.938}, "C": {"J": 0, "P": -1, "mass": 0.494},
                        "D": {"J": 1, "P": -1, "mass": 3.097}},
            "R_BC": ["L1", "L2"],
            "L1": {"J": 0.5, "P": -1, "mass": 1.67, "width": 0.03},
            "L2": {"J": 1.5, "P": -1, "mass": 1.52, "width": 0.016},
            "R_BD": ["P1", "P2"],
            "P1": {"J": 1.5, "P": -1, "mass": 4.38, "width": 0.2},
            "P2": {"J": 0.5, "P": 1, "mass": 4.45, "width": 0.04},
            "R_CD": ["K1", "K2"],
            "K1": {"J": 1, "P": 1, "mass": 4.0, "width": 0.15},
            "K2": {"J": 1, "P": -1, "mass": 4.2, "width": 0.3},
        },
    }


def _cfg_g3():
    # four-body cascades: resonances shared between chains (R in two chains; X1/X2 in two chains each)
    return {
        "data": {"dat_order": ["B", "C", "D", "E"]},
        "decay": {"A": [["R", "E"], ["X", "W"]],
                  "R": [["X", "D"], ["Y", "C"]],
                  "X": ["B", "C"], "Y": ["B", "D"], "W": ["D", "E"]},
        "particle": {
            "$top": {"A": {"J": 1, "P": -1, "mass": 5.3}},
            "$finals": {"B": {"J": 0, "P": -1, "mass": 0.14}, "C": {"J": 0, "P": -1, "mass": 0.494},
                        "D": {"J": 0, "P": -1, "mass": 0.135}, "E": {"J": 0, "P": -1, "mass": 0.498}},
            "R": {"J": 1, "P": 1, "mass": 2.4, "width": 0.3},
            "X": ["X1", "X2"],
            "X1": {"J": 1, "P": -1, "mass": 0.89, "width": 0.05},
            "X2": {"J": 0, "P": 1, "mass": 1.43, "width": 0.27},
            "Y": {"J": 1, "P": -1, "mass": 0.77, "width": 0.15},
            "W": {"J": 1, "P": -1, "mass": 1.2, "width": 0.2},
        },
    }


def _cfg_g4():
    # g1 with identical final-state particles B, C: exercises the id_swap branch of get_amp2 (swap factor + transpose)
    c = _cfg_g1()
    c["data"]["identical_particles"] = [["B", "C"]]
    c["particle"]["$finals"]["C"]["mass"] = c["particle"]["$finals"]["B"]["mass"]
    return c


GROUPS = [("g0", _cfg_g0), ("g1", _cfg_g1), ("g2", _cfg_g2), ("g3", _cfg_g3), ("g4", _cfg_g4)]


class Grp:
    """A real decay group, a phase-space sample and parameter values, all derived from the seed."""

    def __init__(self, name, cfg, seed, ne):
        import numpy as np
        import tensorflow as tf
        from tf_pwa.config_loader import ConfigLoader
        from tf_pwa.data import set_random_seed
        self.name = name
        self.rs = np.random.RandomState([seed, sum(map(ord, name))])
        set_random_seed(int(self.rs.randint(1 << 30)))
        with _quiet():
            self.config = ConfigLoader(cfg)
            self.amp = self.config.get_amplitude()
        self.dg = self.amp.decay_group
        self.n = len(self.dg.chains)
        self.res_names = [str(r) for r in self.dg.resonances]
        self.rid = {nm: i for i, nm in enumerate(self.res_names)}
        self.inner = [[self.rid[str(p)] for p in c.inner] for c in self.dg.chains]
        self.inner_names = [sorted(str(p) for p in c.inner) for c in self.dg.chains]
        # parameters: every trainable magnitude / phase drawn from the seed
        pars = {}
        for k in sorted(self.amp.get_params(trainable_only=True)):
            if k.endswith("r"):
                pars[k] = float(self.rs.uniform(0.5, 2.0))
            elif k.endswith("i"):
                pars[k] = float(self.rs.uniform(-math.pi, math.pi))
        self.amp.set_params(pars)
        self.params0 = dict(self.amp.get_params())
        with _quiet():
            self.data = self.config.generate_phsp(ne)
        from tf_pwa.data import data_shape
        self.ne = ne = int(data_shape(self.data))   # the sample as the library delivered it
        self.weights = self.rs.uniform(0.3, 1.7, ne)
        wd = type(self.data)(self.data)
        wd["weight"] = tf.convert_to_tensor(self.weights)
        self.wdata = wd
        self.idx0 = list(self.dg.chains_idx)
        self.nf0 = self.dg.not_full
        assert self.idx0 == list(range(self.n)) and self.nf0 is False

    # state handling is the harness' own: never rely on the library restoring anything
    def reset(self):
        self.dg.chains_idx = list(self.idx0)
        self.dg.not_full = self.nf0

    def reset_params(self):
        self.amp.set_params(self.params0)

    def state(self):
        return (list(int(i) for i in self.dg.chains_idx), bool(self.dg.not_full))

    def lean_group(self):
        return ";".join(_nats(i) for i in self.inner) + " " + _nats(range(len(self.res_names)))

    def entry_id(self, e):
        if isinstance(e, int):
            return "i%d" % e
        return "r%d" % self.rid.get(str(e), 900 + (sum(map(ord, str(e))) % 50))


@contextlib.contextmanager
def _quiet():
    buf = io.StringIO()
    with contextlib.redirect_stdout(buf):
        yield buf


def _nats(l):
    l = list(l)
    return ",".join(str(int(i)) for i in l) if l else "-"


# ---------------------------------------------------------------------------------------------
# observations on the real implementation (shared by correspond and search)
# ---------------------------------------------------------------------------------------------

def _sel_sequences(g, rnd, n_random):
    """op sequences ('res'|'only'|'set'|'add', payload); payload entries are names, BaseParticle or ints."""
    seqs = []
    names = g.res_names
    for r in range(len(names) + 1):
        for sub in itertools.combinations(names, r):
            seqs.append([("res", list(sub))])
            seqs.append([("only", list(sub))])
    for k in range(g.n):
        seqs.append([("res", [k])])
        seqs.append([("set", [k]), ("add", [k, (k + 1) % g.n])])
    seqs.append([("set", [0, 0, 1])])
    seqs.append([("res", list(range(g.n)))])           # every chain by index: not_full stays stale
    seqs.append([("res", names), ("add", [0])])
    seqs.append([("res", ["NoSuchParticle"])])
    seqs.append([("only", ["NoSuchParticle", 1])])

    def rand_entries():
        es = []
        for _ in range(rnd.randint(0, 4)):
            t = rnd.random()
            if t < 0.55:
                es.append(rnd.choice(names))
            elif t < 0.9:
                es.append(rnd.randrange(g.n))
            else:
                es.append("Ghost%d" % rnd.randint(0, 3))
        return es

    for _ in range(n_random):
        seq = []
        for _ in range(rnd.randint(1, 4)):
            t = rnd.random()
            if t < 0.35:
                seq.append(("res", rand_entries()))
            elif t < 0.6:
                seq.append(("only", rand_entries()))
            elif t < 0.8:
                seq.append(("set", [rnd.randrange(g.n) for _ in range(rnd.randint(0, g.n + 1))]))
            else:
                seq.append(("add", [rnd.randrange(g.n) for _ in range(rnd.randint(0, 3))]))
        seqs.append(seq)
    return seqs


def _observe_selection(g, rnd, n_random):
    from tf_pwa.particle import BaseParticle
    out = []
    try:
        for seq in _sel_sequences(g, rnd, n_random):
            g.reset()
            states = []
            err = None
            passed = []
            for k, (op, payload) in enumerate(seq):
                try:
                    if op in ("res", "only"):
                        arg = [BaseParticle(e) if (isinstance(e, str) and (k + len(e)) % 2) else e for e in payload]
                        g.dg.set_used_res(arg, only=(op == "only"))
                    else:
                        arg = list(payload)
                        passed.append((arg, list(payload)))
                        if op == "set":
                            g.dg.set_used_chains(arg)
                        else:
                            g.dg.add_used_chains(arg)
                except Exception as e:  # noqa: BLE001
                    err = "%s: %s" % (type(e).__name__, e)
                    break
                states.append(g.state())
            if err is None and any(a != b for a, b in passed):
                err = "the list passed by the caller was modified by a later selection call: %s" % [(b, a) for a, b in passed if a != b]
            out.append({"seq": seq, "states": states, "err": err})
    finally:
        g.reset()
    return out


def _amp3(g, sel=None):
    """get_amp3 with selection `sel` (via set_used_chains), flattened to (ne, nh) complex numpy."""
    import numpy as np
    if sel is not None:
        g.dg.set_used_chains(list(sel))
    return _as2d(g, g.dg.get_amp3(g.data).numpy())


def _as2d(g, a):
    """(ne, nh) complex array; an empty selection yields a scalar 0 in the implementation -> zeros"""
    import numpy as np
    a = np.asarray(a)
    if a.size == 1:
        return np.full((g.ne, 1), complex(a.reshape(-1)[0]))
    return a.reshape(g.ne, -1)


def _observe_amps(g, rnd, all_subsets, pdf_all=True):
    import numpy as np
    obs = {}
    try:
        g.reset()
        obs["singles"] = [_amp3(g, [k]) for k in range(g.n)]
        obs["nh"] = obs["singles"][0].shape[1]
        subsets = [list(s) for r in range(1, g.n + 1) for s in itertools.combinations(range(g.n), r)]
        if not all_subsets:
            keep = [s for s in subsets if len(s) in (2, g.n)]
            rest = [s for s in subsets if len(s) not in (1, 2, g.n)]
            subsets = keep + rnd.sample(rest, min(len(rest), 10))
        # order of the list and duplicates must not matter
        extra = [list(reversed(range(g.n))), [0, 0, 1], [g.n - 1, 0, g.n - 1]]
        obs["subsets"] = []
        for s in subsets + extra:
            a = _amp3(g, s)
            pdf = None
            if pdf_all or len(s) <= 2 or len(s) == g.n or rnd.random() < 0.15:
                g.dg.set_used_chains(list(s))
                pdf = np.asarray(g.amp(g.data).numpy()).reshape(-1)
                if pdf.size == 1:
                    pdf = np.full(g.ne, float(pdf[0]))
            obs["subsets"].append({"S": s, "amp": a, "pdf": pdf})
        # selection through resonance names must give the same tensor as through indices
        obs["byres"] = []
        for r in range(1, len(g.res_names) + 1):
            for sub in itertools.combinations(g.res_names, r):
                if 2 < r < len(g.res_names) and rnd.random() < (0.7 if pdf_all else 0.85):
                    continue
                g.reset()
                g.dg.set_used_res(list(sub))
                idx = list(g.dg.chains_idx)
                a = _as2d(g, g.dg.get_amp3(g.data).numpy())
                obs["byres"].append({"res": list(sub), "idx": [int(i) for i in idx], "amp": a})
        # the library's own users of the selection: partial_weight (set_used_res with int lists) and
        # partial_weight_interference (set_used_chains with pairs)
        g.reset()
        combine = [[k] for k in range(g.n)] + [[0, g.n - 1], list(range(g.n))]
        pw = g.amp.partial_weight(g.data, combine=combine)
        obs["pw"] = [{"S": c, "pdf": np.asarray(x.numpy()).reshape(-1)} for c, x in zip(combine, pw)]
        obs["pw_state"] = g.state()
        g.reset()
        pwi = g.amp.partial_weight_interference(g.data)
        obs["pwi"] = [{"S": list(k), "pdf": np.asarray(v.numpy()).reshape(-1)} for k, v in pwi.items()]
        # coupling scaling: total coupling of chain k multiplied by rho*exp(i phi) (polar parameters r, theta)
        g.reset()
        obs["scaled"] = []
        for k in range(g.n):
            rho, phi = float(rnd.uniform(0.2, 3.0)), float(rnd.uniform(-3.0, 3.0))
            if k == 0:
                rho, phi = 0.0, 0.0          # switching a chain off through its coupling
            if k == 1:
                rho, phi = 1.0, math.pi      # sign flip
            base = str(g.dg.chains[k].total)
            pr, pi_ = base + "_0r", base + "_0i"
            if pr not in g.params0 or pi_ not in g.params0:
                continue
            try:
                g.amp.set_params({pr: g.params0[pr] * rho, pi_: g.params0[pi_] + phi})
                obs["scaled"].append({"k": k, "rho": rho, "phi": phi, "amp": _amp3(g, None)})
            finally:
                g.reset_params()
    finally:
        g.reset()
        g.reset_params()
    return obs


def _ff_entries(g, kind):
    if kind == "names":
        return list(g.res_names)
    if kind == "chains":
        return list(range(g.n))
    raise ValueError(kind)


def _call_ff(g, method, entries, batch, weighted, preset=None):
    """One fit-fraction evaluation from the full selection (or from `preset`, a chain list switched on before the
    call). Returns ordered [(key, value)], total (if exposed), gradient norms (if exposed)."""
    import numpy as np
    from tf_pwa.applications import fit_fractions
    from tf_pwa.fitfractions import cal_fitfractions_no_grad
    data = g.wdata if weighted else g.data
    g.reset()
    g.reset_params()
    if preset is not None:
        g.dg.set_used_chains(list(preset))
    try:
        with _quiet():
            if method == "old":
                nvar = len(g.amp.trainable_variables)
                frac, err = fit_fractions(g.amp, data, inv_he=np.eye(nvar), params=None, batch=batch,
                                          res=list(entries), method="old")
                return {"frac": [(k, float(v)) for k, v in frac.items()], "total": None,
                        "gnorm": [float(err[k]) for k in frac]}
            if method == "new":
                ff = fit_fractions(g.amp, data, inv_he=None, params=None, batch=batch, res=list(entries), method="new")
                frac, grad = ff.get_frac_grad(sum_diag=False)
                return {"frac": [(k, float(v)) for k, v in frac.items()], "total": float(ff.cached_int_total),
                        "gnorm": [float(np.sqrt(np.sum(np.asarray(grad[k], dtype=float) ** 2))) for k in frac]}
            if method == "nograd":
                frac = cal_fitfractions_no_grad(g.amp, data, res=list(entries), batch=batch)
                return {"frac": [(k, float(v)) for k, v in frac.items()], "total": None, "gnorm": None}
            if method == "config":
                frac, err = g.config.cal_fitfractions({}, mcdata=data, batch=batch)
                return {"frac": [(k, float(v)) for k, v in frac.items()], "total": None, "gnorm": None,
                        "entries": sorted(g.res_names)}
    finally:
        g.reset()
        g.reset_params()
    raise ValueError(method)


def _ff_plan(g, gi, tier_quick):
    """(method, entries-kind, batch, weighted) tuples. batch sizes {1, 7, n-1, n, 2n}."""
    n = g.ne
    batches = [1, 7, n - 1, n, 2 * n]
    plan = []
    if not tier_quick:
        for m in ("old", "new", "nograd"):
            for b in batches:
                for wt in (False, True):
                    plan.append((m, "names", b, wt))
        for b in (7, n):
            plan.append(("old", "chains", b, True))
            plan.append(("new", "chains", b, False))
        plan.append(("config", "names", 7, False))
        plan.append(("new", "names", None, True))
        return plan
    wt = gi % 2 == 0
    if gi == 0:
        for m in ("old", "new", "nograd"):
            for b in batches:
                plan.append((m, "names", b, wt))
        plan.append(("new", "names", None, wt))
        plan.append(("config", "names", 7, False))
        plan.append(("old", "chains", 7, not wt))
    elif gi == 1:
        plan += [("old", "names", 7, wt), ("new", "names", n - 1, wt), ("nograd", "names", 2 * n, wt),
                 ("nograd", "chains", 7, not wt)]
    elif gi == 2:
        plan += [("old", "names", n, wt), ("new", "names", 7, wt), ("nograd", "names", 3, wt),
                 ("new", "chains", n, not wt)]
    elif gi == 3:
        plan += [("old", "names", 7, wt), ("new", "names", 2 * n, wt), ("nograd", "names", n, not wt),
                 ("old", "chains", 7, wt)]
    else:
        plan += [("old", "names", n - 1, wt), ("new", "names", 3, not wt), ("nograd", "names", 7, wt)]
    return plan


_CACHE = {}


def _run_ff(g, plan):
    out = []
    for (m, kind, b, wt) in plan:
        entries = _ff_entries(g, kind)
        try:
            r = _call_ff(g, m, entries, b, wt)
        except Exception as e:  # noqa: BLE001
            r = {"error": "%s: %s" % (type(e).__name__, e)}
        r.update({"method": m, "kind": kind, "batch": b, "weighted": wt})
        r.setdefault("entries", entries)
        out.append(r)
    return out


def _observe_partial(g):
    """Fit fractions requested while a partial chain selection is active (last chain switched off), res = the
    resonances of the active chains, so that the active chains are exactly the chains carrying a named resonance."""
    sel = list(range(g.n - 1))
    names = [nm for nm in g.res_names if any(nm in g.inner_names[j] for j in sel)]
    if any(nm in g.inner_names[g.n - 1] for nm in names):
        return []
    out = []
    for m, b in (("new", None), ("new", g.ne), ("new", 4), ("new", 1), ("old", g.ne), ("old", 4)):
        try:
            r = _call_ff(g, m, names, b, True, preset=sel)
        except Exception as e:  # noqa: BLE001
            r = {"error": "%s: %s" % (type(e).__name__, e)}
        r.update({"method": m, "kind": "names", "batch": b, "weighted": True, "entries": names, "preset": sel})
        out.append(r)
    return out


def observe(ctx):
    """Run the real code once per check; both the correspondence and the search read these observations."""
    import traceback
    key = (ctx.seed, ctx.tier)
    if key in _CACHE:
        return _CACHE[key]
    rnd = random.Random(ctx.seed * 7919 + 3)
    quick = ctx.quick
    out = []
    for gi, (name, cfg) in enumerate(GROUPS):
        ne = (9 if gi == 0 else 8) if quick else (23 if gi == 0 else 17)
        g = Grp(name, cfg(), ctx.seed, ne)
        o = {"g": g, "gi": gi, "errors": []}
        o["sel"] = _observe_selection(g, rnd, 150 if quick else 1500)
        try:
            o["amps"] = _observe_amps(g, rnd, all_subsets=True, pdf_all=not quick)
        except Exception as e:  # noqa: BLE001
            o["amps"] = None
            o["errors"].append("amplitude observation raised %s: %s" % (type(e).__name__, traceback.format_exc()[-1500:]))
        o["ff"] = _run_ff(g, _ff_plan(g, gi, quick))
        o["ffpartial"] = _observe_partial(g) if (gi in (0, 1) or not quick) else []
        out.append(o)
    _CACHE[key] = out
    return out


def observe_extra(ctx, obs):
    """More fit-fraction evaluations when a proof or the correspondence broke (bounded: the cheap group, other weights)."""
    key = (ctx.seed, ctx.tier, "extra")
    if key in _CACHE:
        return _CACHE[key]
    o = obs[0]
    g = o["g"]
    n = g.ne
    wt = not (o["gi"] % 2 == 0)
    plan = [(m, "names", b, wt) for m in ("old", "new", "nograd") for b in (1, 2, 7, n - 1, n, 2 * n)]
    plan += [(m, "chains", b, wt) for m in ("new", "nograd") for b in (2, n)]
    o["ff"] = o["ff"] + _run_ff(g, plan)
    _CACHE[key] = True
    return True


# ---------------------------------------------------------------------------------------------
# correspondence: implementation vs Lean model
# ---------------------------------------------------------------------------------------------

def _floats(arr):
    import numpy as np
    a = np.asarray(arr)
    if np.iscomplexobj(a):
        a = np.stack([a.real, a.imag], axis=-1)
    return " ".join(C.f2h(x) for x in a.reshape(-1))


def _data_line(g, singles):
    import numpy as np
    st = np.stack(singles, axis=0)  # (nc, ne, nh) complex
    return "%d %d %d" % st.shape, _floats(st)


def _seq_line(g, seq):
    ops = []
    for op, payload in seq:
        if op in ("res", "only"):
            ops.append(op + ":" + (",".join(g.entry_id(e) for e in payload) if payload else "-"))
        else:
            ops.append(op + ":" + _nats(payload))
    return "C03 sel %s %s" % (g.lean_group(), " ".join(ops))


def correspond(ctx, res):
    import numpy as np
    obs = observe(ctx)
    lines, checks = [], []   # checks[i] = function(answer line) -> None | (what, detail)
    n_sel = n_amp = n_ff = 0
    nontriv = set()

    for o in obs:
        g = o["g"]
        # 1. selection logic, exact
        for rec in o["sel"]:
            if rec["err"] is not None:
                res.broke("correspondence selection op raised on the implementation", {"group": g.name, "seq": rec["seq"], "err": rec["err"]})
                continue
            lines.append(_seq_line(g, rec["seq"]))
            want = " | ".join("%s %d" % (_nats(i), int(nf)) for i, nf in rec["states"])
            n_sel += len(rec["states"])
            nontriv.add((g.name, want))

            def chk(ans, want=want, rec=rec, g=g):
                if g.n > 8:  # set order not pinned down above 8 chains
                    def cs(s):
                        return [(sorted(p.split(" ")[0].split(",")), p.split(" ")[1]) for p in s.split(" | ")]
                    if cs(ans) == cs(want):
                        return None
                if ans != want:
                    return ("correspondence chains_idx/not_full after selection ops", {"group": g.name, "seq": rec["seq"], "impl": want, "model": ans})
                return None
            checks.append(chk)

        for err in o["errors"]:
            res.broke("correspondence: observation of the implementation failed", {"group": g.name, "err": err})
        A = o["amps"]
        if A is None:
            continue
        singles = A["singles"]
        shape, fl = _data_line(g, singles)
        scale = max(float(np.abs(s).max()) for s in singles)
        # 2. amplitude under every selection = model sum of the single-chain tensors
        for rec in A["subsets"]:
            ones = " ".join([C.f2h(1.0), C.f2h(0.0)] * g.n)
            lines.append("C03 amp %s %s %s %s" % (shape, _nats(rec["S"]), ones, fl))
            n_amp += 1

            def chk(ans, rec=rec, g=g, scale=scale):
                m = np.array([C.h2f(x) for x in ans.split()]).reshape(g.ne, -1, 2)
                m = m[..., 0] + 1j * m[..., 1]
                d = float(np.abs(m - rec["amp"]).max())
                if not d <= TOL_AMP * scale:
                    return ("correspondence get_amp3 under set_used_chains(S) vs model sum of single chains", {"group": g.name, "S": rec["S"], "max_abs_diff": d, "scale": scale})
                return None
            checks.append(chk)
        # densities (AmplitudeModel.__call__ -> sum_amp) for all selections in one op
        withpdf = [r for r in A["subsets"] if r["pdf"] is not None] + A["pw"] + A["pwi"]
        sels = "/".join(_nats(r["S"]) for r in withpdf)
        lines.append("C03 dens %s %s %s" % (shape, sels, fl))

        def chk(ans, withpdf=withpdf, A=A, g=g, scale=scale):
            m = np.array([C.h2f(x) for x in ans.split()]).reshape(len(withpdf), g.ne)
            for i, rec in enumerate(withpdf):
                d = float(np.abs(m[i] - rec["pdf"]).max())
                if not d <= TOL_AMP * scale * scale * A["nh"]:
                    return ("correspondence pdf (sum_amp) under selection vs model density", {"group": g.name, "S": rec["S"], "max_abs_diff": d})
            return None
        checks.append(chk)
        n_amp += len(withpdf)
        # selection by resonance names: model selection + model sum
        for rec in A["byres"]:
            lines.append(_seq_line(g, [("res", rec["res"])]))

            def chk(ans, rec=rec, g=g):
                if ans.split(" ")[0] != _nats(rec["idx"]):
                    return ("correspondence set_used_res(names) chain list", {"group": g.name, "res": rec["res"], "impl": rec["idx"], "model": ans})
                return None
            checks.append(chk)
            ones = " ".join([C.f2h(1.0), C.f2h(0.0)] * g.n)
            lines.append("C03 amp %s %s %s %s" % (shape, _nats(rec["idx"]), ones, fl))

            def chk2(ans, rec=rec, g=g, scale=scale):
                m = np.array([C.h2f(x) for x in ans.split()]).reshape(g.ne, -1, 2)
                m = m[..., 0] + 1j * m[..., 1]
                d = float(np.abs(m - rec["amp"]).max())
                if not d <= TOL_AMP * scale:
                    return ("correspondence get_amp3 under set_used_res(names) vs model", {"group": g.name, "res": rec["res"], "max_abs_diff": d})
                return None
            checks.append(chk2)
            n_amp += 1
        # 3. coupling scaling
        for rec in A["scaled"]:
            cs = []
            for k in range(g.n):
                if k == rec["k"]:
                    cs += [C.f2h(rec["rho"] * math.cos(rec["phi"])), C.f2h(rec["rho"] * math.sin(rec["phi"]))]
                else:
                    cs += [C.f2h(1.0), C.f2h(0.0)]
            lines.append("C03 amp %s %s %s %s" % (shape, _nats(range(g.n)), " ".join(cs), fl))
            n_amp += 1

            def chk(ans, rec=rec, g=g, scale=scale):
                m = np.array([C.h2f(x) for x in ans.split()]).reshape(g.ne, -1, 2)
                m = m[..., 0] + 1j * m[..., 1]
                d = float(np.abs(m - rec["amp"]).max())
                if not d <= 1e-11 * scale * max(1.0, rec["rho"]):
                    return ("correspondence coupling scaling: total of chain k times lambda vs model", {"group": g.name, "k": rec["k"], "rho": rec["rho"], "phi": rec["phi"], "max_abs_diff": d})
                return None
            checks.append(chk)
        # 4. fit fractions, every method / batch size
        single = [r for r in o["ffpartial"] if "error" in r or r["method"] == "old" or r["batch"] is None or r["batch"] >= g.ne]
        for rec in o["ff"] + single:
            if "error" in rec:
                res.broke("correspondence fit-fraction routine raised", {"group": g.name, "method": rec["method"], "batch": rec["batch"], "err": rec["error"]})
                continue
            meth = "new" if rec["method"] == "new" else "old"
            es = ",".join(g.entry_id(e) for e in rec["entries"])
            w = g.weights if rec["weighted"] else np.ones(g.ne)
            lines.append("C03 ff %s %s %s %s %d %s %s %s" % (meth, g.lean_group(), _nats(rec.get("preset", range(g.n))), es,
                                                          0 if rec["batch"] is None else rec["batch"], shape, _floats(w), fl))
            n_ff += 1

            def chk(ans, rec=rec, g=g):
                m = [C.h2f(x) for x in ans.split()]
                tot, fr = m[0], m[1:]
                impl = [v for _, v in rec["frac"]]
                if len(fr) != len(impl):
                    return ("correspondence fit fractions: table shape", {"group": g.name, "method": rec["method"], "impl_keys": [str(k) for k, _ in rec["frac"]], "model_n": len(fr)})
                d = max(abs(a - b) for a, b in zip(fr, impl))
                if not d <= TOL_FF:
                    i = max(range(len(fr)), key=lambda i: abs(fr[i] - impl[i]))
                    return ("correspondence fit fractions vs model", {"group": g.name, "method": rec["method"], "kind": rec["kind"], "batch": rec["batch"], "weighted": rec["weighted"],
                                                                     "key": str(rec["frac"][i][0]), "impl": impl[i], "model": fr[i]})
                if rec["total"] is not None and not abs(rec["total"] - tot) <= 1e-10 * abs(tot):
                    return ("correspondence total integral vs model", {"group": g.name, "method": rec["method"], "batch": rec["batch"], "impl": rec["total"], "model": tot})
                return None
            checks.append(chk)

    answers = ctx.model.query(lines)
    bad = 0
    for ans, chk, line in zip(answers, checks, lines):
        if ans == "bad-op":
            res.broke("model driver rejected op", line[:200])
            bad += 1
            continue
        r = chk(ans)
        if r is not None:
            bad += 1
            if bad <= 5:
                res.broke(r[0], r[1])
    res.coverage.update({
        "traces_validated_against_impl": n_sel + n_amp + n_ff,
        "evaluations": len(lines),
        "distinct_nontrivial": len(nontriv),
        "selection_states_compared_exactly": n_sel,
        "amplitude_tensors_compared": n_amp,
        "fit_fraction_tables_compared": n_ff,
        "disagreements": bad,
        "rule": "5 real decay groups (3, 4, 6, 5 and 4 chains; spins 0..2 incl. 1/2, 3/2; 3- and 4-body, shared resonances, identical particles). Selection: every "
                "subset of resonances x only in {F,T}, every chain index, duplicates, unknown names, plus seeded random op "
                "sequences (set_used_res/set_used_chains/add_used_chains; names, BaseParticle, ints), chains_idx order and "
                "not_full compared exactly. Amplitudes: get_amp3 and pdf for EVERY non-empty subset of chains (+ reversed "
                "list, duplicates), every small resonance subset, one coupling rescaling per chain (incl. 0 and -1). "
                "Fit fractions: methods old/new/no_grad(/ConfigLoader), batch in {1,7,n-1,n,2n,None}, weighted and unweighted. "
                "non-trivial = distinct (group, state trace) pairs of the selection part",
        "exhaustive": False,
        "exhaustive_scope": "subsets of chains and of resonances of the five groups: all; op sequences, samples, parameters: seeded",
        "tolerances": {"amp_rel": TOL_AMP, "fit_fraction_abs": TOL_FF},
    })
    o = obs[0]
    res.samples += [
        {"group": o["g"].name, "chains": [str(c) for c in o["g"].dg.chains], "ff": {str(k): v for k, v in o["ff"][0]["frac"]} if "frac" in o["ff"][0] else o["ff"][0]},
        {"selection_trace": _seq_line(o["g"], o["sel"][-1]["seq"]), "impl": o["sel"][-1]["states"]},
    ]
    # C03b: FitFractions bookkeeping (exact on integer stubs, 1e-12 on the real amplitude), argument handling
    B.correspond(ctx, res, obs)


# ---------------------------------------------------------------------------------------------
# search: the property's identities on the implementation alone (numpy oracle, no model)
# ---------------------------------------------------------------------------------------------

def _oracle_sel(g, prev, op, payload):
    """expected chains_idx as (ordered?) description, written from the property statement, not from the code."""
    names = {e if isinstance(e, str) else None for e in payload} - {None}
    ints = [e for e in payload if isinstance(e, int)]
    if op == "res":
        base = [j for j in range(g.n) if set(g.inner_names[j]) & names]
    elif op == "only":
        base = [j for j in range(g.n) if set(g.inner_names[j]) <= names]
    elif op == "set":
        return list(payload)
    else:
        base, ints = list(prev), list(payload)
    for i in ints:
        if i not in base:
            base.append(i)
    return base


def search(ctx, res):
    import numpy as np
    obs = observe(ctx)
    if ctx.suspect and ctx.quick:
        observe_extra(ctx, obs)
    n_id = 0
    worst = {"superpose": 0.0, "scale": 0.0, "sumrule": 0.0, "batch": 0.0, "methods": 0.0}
    for o in obs:
        g = o["g"]
        # selection: exactly the chains containing a named resonance (+ ints), no duplicates
        for rec in o["sel"]:
            if rec["err"] is not None:
                res.fail("select:raises", "selection ops %s raise %s on group %s" % (rec["seq"], rec["err"], g.name), {"group": g.name, "seq": rec["seq"]})
                continue
            prev = list(range(g.n))
            for (op, payload), (idx, nf) in zip(rec["seq"], rec["states"]):
                want = _oracle_sel(g, prev, op, payload)
                n_id += 1
                ok = (idx == want) if (g.n <= 8 or op != "res") else (sorted(idx) == sorted(want) and len(idx) == len(want))
                if not ok:
                    key = {"res": "select:set_used_res", "only": "select:set_used_res:only", "set": "select:set_used_chains", "add": "select:add_used_chains"}[op]
                    res.fail(key, "group %s (%s): after %s(%s) chains_idx=%s, the chains that contain a named resonance (plus listed indices) are %s" % (
                        g.name, "; ".join("%d:%s" % (j, "+".join(x)) for j, x in enumerate(g.inner_names)), op, payload, idx, want),
                        {"group": g.name, "seq": rec["seq"], "got": idx, "want": want})
                prev = idx
        A = o["amps"]
        if A is None:
            res.fail("superpose:raises", "group %s: evaluating amplitudes under chain selections raises: %s" % (g.name, o["errors"][0][-600:]), {"group": g.name})
            continue
        singles = A["singles"]
        scale = max(float(np.abs(s).max()) for s in singles)
        for rec in A["subsets"]:
            S = list(dict.fromkeys(rec["S"]))
            ref = sum(singles[k] for k in S)
            d = float(np.abs(rec["amp"] - ref).max()) / scale
            worst["superpose"] = max(worst["superpose"], d)
            n_id += 1
            if not d <= TOL_AMP:
                res.fail("superpose:subset", "group %s: get_amp3 with chains %s differs from the sum of the single-chain amplitudes by %.3g (relative)" % (g.name, rec["S"], d),
                         {"group": g.name, "S": rec["S"], "rel": d})
            if rec["pdf"] is None:
                continue
            dens = (np.abs(ref) ** 2).sum(axis=1)
            d2 = float(np.abs(rec["pdf"] - dens).max()) / (scale * scale * A["nh"])
            n_id += 1
            if not d2 <= TOL_AMP:
                res.fail("superpose:density", "group %s: amp(data) with chains %s differs from sum_lambda |sum_k A_k|^2 by %.3g (relative)" % (g.name, rec["S"], d2),
                         {"group": g.name, "S": rec["S"], "rel": d2})
        for tag, recs in (("partial_weight", A["pw"]), ("partial_weight_interference", A["pwi"])):
            for rec in recs:
                dens = (np.abs(sum(singles[k] for k in rec["S"])) ** 2).sum(axis=1)
                d = float(np.abs(rec["pdf"] - dens).max()) / (scale * scale * A["nh"])
                n_id += 1
                if not d <= TOL_AMP:
                    res.fail("superpose:%s" % tag, "group %s: %s for chains %s differs from sum_lambda |sum_k A_k|^2 of those chains by %.3g (relative)" % (g.name, tag, rec["S"], d),
                             {"group": g.name, "S": rec["S"], "rel": d})
        for rec in A["byres"]:
            want = [j for j in range(g.n) if set(g.inner_names[j]) & set(rec["res"])]
            ref = sum(singles[k] for k in want)
            d = float(np.abs(rec["amp"] - ref).max()) / scale
            n_id += 1
            if not d <= TOL_AMP:
                res.fail("superpose:by-resonance", "group %s: get_amp3 after set_used_res(%s) differs from the sum over the chains containing them (%s) by %.3g" % (g.name, rec["res"], want, d),
                         {"group": g.name, "res": rec["res"], "rel": d})
        for rec in A["scaled"]:
            lam = rec["rho"] * complex(math.cos(rec["phi"]), math.sin(rec["phi"]))
            ref = sum(singles[k] * (lam if k == rec["k"] else 1.0) for k in range(g.n))
            d = float(np.abs(rec["amp"] - ref).max()) / (scale * max(1.0, rec["rho"]))
            worst["scale"] = max(worst["scale"], d)
            n_id += 1
            if not d <= 1e-11:
                res.fail("scale:coupling", "group %s: multiplying the total coupling of chain %d by %.3g*exp(%.3gi) does not scale exactly that chain's contribution (rel diff %.3g)" % (
                    g.name, rec["k"], rec["rho"], rec["phi"], d), {"group": g.name, "k": rec["k"], "rho": rec["rho"], "phi": rec["phi"], "rel": d})
        # fit fractions
        by_cfg = {}
        for rec in o["ff"]:
            if "error" in rec:
                res.fail("ff:raises:%s" % rec["method"], "group %s: fit fractions method=%s batch=%s raise %s" % (g.name, rec["method"], rec["batch"], rec["error"]),
                         {"group": g.name, "method": rec["method"], "batch": rec["batch"]})
                continue
            vals = [v for _, v in rec["frac"]]
            disjoint = all(len([e for e in rec["entries"] if (isinstance(e, str) and e in g.inner_names[j]) or e == j]) <= 1 for j in range(g.n))
            n_id += 1
            if disjoint:
                r = abs(sum(vals) - 1.0)
                worst["sumrule"] = max(worst["sumrule"], r)
                if not r <= TOL_SUM:
                    res.fail("ff:sumrule:%s" % rec["method"], "group %s: sum of fit fractions + interference terms = %.12g (method=%s, batch=%s, weighted=%s, res=%s)" % (
                        g.name, sum(vals), rec["method"], rec["batch"], rec["weighted"], rec["entries"]),
                        {"group": g.name, "method": rec["method"], "batch": rec["batch"], "weighted": rec["weighted"], "kind": rec["kind"], "sum": sum(vals)})
            # independent oracle: direct numpy integration of the single-chain tensors
            w = g.weights if rec["weighted"] else np.ones(g.ne)

            def I(S):
                if not S:
                    return 0.0
                return float((w * (np.abs(sum(singles[k] for k in S)) ** 2).sum(axis=1)).sum())

            def pick(es):
                return [j for j in range(g.n) if any((isinstance(e, str) and e in g.inner_names[j]) or e == j for e in es)]
            es = rec["entries"]
            tot = I(pick(es)) if rec["method"] != "new" else I(list(range(g.n)))
            want = []
            for i in range(len(es)):
                for j in range(i, -1, -1):
                    if i == j:
                        want.append(I(pick([es[i]])) / tot)
                    else:
                        want.append(I(pick([es[i], es[j]])) / tot - I(pick([es[i]])) / tot - I(pick([es[j]])) / tot)
            n_id += 1
            if len(want) != len(vals) or not max(abs(a - b) for a, b in zip(want, vals)) <= TOL_FF:
                i = max(range(min(len(want), len(vals))), key=lambda i: abs(want[i] - vals[i]))
                res.fail("ff:definition:%s" % rec["method"], "group %s: fit fraction %s = %.12g but I_sel/I computed from the single-chain amplitudes gives %.12g (method=%s, batch=%s, weighted=%s)" % (
                    g.name, rec["frac"][i][0], vals[i], want[i], rec["method"], rec["batch"], rec["weighted"]),
                    {"group": g.name, "method": rec["method"], "batch": rec["batch"], "weighted": rec["weighted"], "kind": rec["kind"]})
            by_cfg.setdefault((rec["method"], rec["kind"], rec["weighted"]), []).append(rec)
        for (m, kind, wt), recs in by_cfg.items():
            ref = recs[-1]
            for rec in recs[:-1]:
                d = max(abs(a[1] - b[1]) for a, b in zip(rec["frac"], ref["frac"]))
                worst["batch"] = max(worst["batch"], d)
                n_id += 1
                if not d <= TOL_FF:
                    res.fail("ff:batch:%s" % m, "group %s: fit fractions depend on the batch size: batch=%s vs batch=%s differ by %.3g (method=%s, weighted=%s, sample size %d)" % (
                        g.name, rec["batch"], ref["batch"], d, m, wt, g.ne), {"group": g.name, "method": m, "batches": [rec["batch"], ref["batch"]], "weighted": wt, "kind": kind})
                if rec.get("gnorm") and ref.get("gnorm"):
                    dg_ = max(abs(a - b) / (1.0 + abs(b)) for a, b in zip(rec["gnorm"], ref["gnorm"]))
                    n_id += 1
                    if not dg_ <= TOL_GRAD:
                        res.fail("ff:batch-grad:%s" % m, "group %s: fit-fraction gradients depend on the batch size: batch=%s vs %s differ by %.3g (method=%s)" % (
                            g.name, rec["batch"], ref["batch"], dg_, m), {"group": g.name, "method": m, "batches": [rec["batch"], ref["batch"]], "weighted": wt})
        # fit fractions requested while a partial selection is active (the active chains = chains of the named resonances)
        part = [r for r in o["ffpartial"]]
        for rec in part:
            if "error" in rec:
                res.fail("ff:raises:%s" % rec["method"], "group %s: fit fractions with chains %s active, method=%s batch=%s raise %s" % (g.name, rec["preset"], rec["method"], rec["batch"], rec["error"]),
                         {"group": g.name, "method": rec["method"], "batch": rec["batch"], "preset": rec["preset"]})
        part = [r for r in part if "frac" in r]
        for m in ("old", "new"):
            recs = [r for r in part if r["method"] == m]
            if not recs:
                continue
            ref = recs[0]   # a single batch
            n_id += 1
            r1 = abs(sum(v for _, v in ref["frac"]) - 1.0)
            if not r1 <= TOL_SUM:
                res.fail("ff:sumrule:%s" % m, "group %s: chains %s active, res=%s, method=%s, one batch: fractions + interference sum to %.12g" % (
                    g.name, ref["preset"], ref["entries"], m, 1.0 + r1), {"group": g.name, "method": m, "preset": ref["preset"], "batch": ref["batch"]})
            for rec in recs[1:]:
                d = max(abs(a[1] - b[1]) for a, b in zip(rec["frac"], ref["frac"]))
                n_id += 1
                if not d <= TOL_FF:
                    key = "ff:new:partial-selection:batch" if m == "new" else "ff:batch:old"
                    i = max(range(len(rec["frac"])), key=lambda i: abs(rec["frac"][i][1] - ref["frac"][i][1]))
                    res.fail(key, "group %s: with chains %s switched on (set_used_chains) and res=%s, fit_fractions(method=%r) depends on the batch size: %s = %.9g for batch=%s but %.9g for batch=%s (sample of %d events)" % (
                        g.name, ref["preset"], ref["entries"], m, rec["frac"][i][0], rec["frac"][i][1], rec["batch"], ref["frac"][i][1], ref["batch"], g.ne),
                        {"group": g.name, "method": m, "preset": ref["preset"], "batches": [rec["batch"], ref["batch"]], "res": ref["entries"], "seed": ctx.seed})
        # the methods agree with each other from the full selection when every chain carries a named resonance
        for wt in (False, True):
            tabs = [r for r in o["ff"] if "frac" in r and r["kind"] == "names" and r["weighted"] == wt and r["method"] in ("old", "new", "nograd")]
            for a, b in zip(tabs, tabs[1:]):
                d = max(abs(x[1] - y[1]) for x, y in zip(a["frac"], b["frac"]))
                worst["methods"] = max(worst["methods"], d)
                n_id += 1
                if not d <= TOL_FF:
                    res.fail("ff:methods", "group %s: methods %s (batch %s) and %s (batch %s) give different fit fractions (max diff %.3g)" % (
                        g.name, a["method"], a["batch"], b["method"], b["batch"], d), {"group": g.name, "methods": [a["method"], b["method"]], "weighted": wt})
    res.coverage["search_identities"] = n_id
    res.coverage["search_worst_residuals"] = worst
    B.search(ctx, res, obs)


def replay(ctx, payload):
    """Re-run the whole search for the recorded seed and report whether the recorded key still fails."""
    res = C.Result()
    ctx.seed = int(payload.get("seed", (payload.get("replay") or {}).get("seed", ctx.seed)))
    ctx.suspect = True
    search(ctx, res)
    key = payload.get("key")
    hits = [f for f in res.failures if key is None or f.key == key]
    for f in hits[:5]:
        print("FAIL", f.key, f.what)
    if not hits:
        print("no failure with key", key)
    return 1 if hits else 0


MANIFEST = {
    "text": "Lean theorems over an arbitrary commutative ring / field: the amplitude under any chain selection is the sum of the selected single-chain amplitudes (permutation- and duplicate-insensitive), rescaling one coupling rescales exactly that chain's term, set_used_res selects exactly the chains containing a named resonance (plus listed indices; only=True variant; bare values and one-level lists; TypeError with untouched state exactly when an element is no particle / int — res_grouping: a list selects the union of its parts), integrals are independent of the batch partition for every batch size, and the fit-fraction table of cal_fitfractions / FitFractions sums to one whenever the named resonances' chain sets are pairwise disjoint and the total is non-zero. C03b puts the FitFractions bookkeeping itself into the model (init_res_table key order, append_int per batch with weights and the selection active at the call, integral(batch), get_frac_grad, get_frac_diag_sum, cal_fitfractions' per-batch sums, partial_weight / partial_weight_interference / BaseAmplitudeModel.partial_weight with restore) and proves for every group, res list, weighted sample and batching (None or any b >= 1): integral_state / calFF_state (cached integrals, total and every gradient component equal the whole-sample sums), interference_definition (entry (i,j) = A_ij/A - A_i/A - A_j/A; = integrated 2Re(A_i conj A_j)/A when no chain carries both), frac_table_symmetric, sum_rule_table / sum_rule_table_old (diagonal + interference entries = 1 for a duplicate-free partition), sum_rule_groups (the same for nested resonance groups as partial_weight integrates them), pwi_expansion, diag_sum_unnormalised, and over the reals frac_grad_table_is_deriv / ff_grad_is_deriv (every entry of the gradient table is the derivative of the corresponding fraction, from C09's frac_grad_is_deriv; per-event tape gradients assumed correct). The model is tied to DecayGroup / fitfractions.py by exact comparison of chains_idx traces and argument-handling traces, 1e-12 / 1e-10 comparison of amplitudes, densities and fraction tables on five real decay groups, and bit-exact comparison of cached integrals, gradients, fraction and gradient tables of the real FitFractions / cal_fitfractions / cal_fitfractions_no_grad / fit_fractions run on integer-valued stub amplitudes.",
    "note": "Models = TfPwaV.Superpose (selection logic exact; numeric part one text for Float and for the proofs) and TfPwaV.FitFrac (FitFractions state machine over an abstract scalar; densities and per-event gradients are parameters). Inputs to the numeric model are the implementation's own single-chain tensors, so what a chain's amplitude is (line shapes, D-functions) is outside C03. Validated only (not proved): TF autodiff / reduce_sum, the stub-vs-real amplitude gap (real AmplitudeModel runs of the C03b model are 1e-12 comparisons on group g0, g1/g3 in the thorough tier), ConfigLoader.cal_fitfractions(method='new') (res default = sorted names minus exclude_res, keys, restore: observed, not modelled beyond the res list), dictionary-key collisions for repeated names, get_frac's error bars (C09). get_frac_diag_sum returns the un-normalised sum of the diagonal integrals (mirrored, theorem diag_sum_unnormalised). The library's restore logic as such is C17. Trusted: Lean kernel, standard axioms, harness, IEEE double ~ real arithmetic.",
    "technique": "Lean 4 proof (list induction / ring identities over any commutative ring; Perm + Nodup for the selection logic; HasDerivAt quotient rule reused from C09) + differential correspondence with the real DecayGroup and fit-fraction routines over all chain subsets and batch sizes (bit-exact on integer stub amplitudes, 1e-12 on real amplitudes) + direct identity search with a numpy oracle",
}
