"""C08 helper: scenarios (a real VarsManager built from a JSON spec) and a fast synthetic FCN over it.

The FCN exposes exactly what tf_pwa.fit needs (vm, nll_grad, nll_grad_hessian, grad_hessp, get_params, __call__,
cached_nll) and, like tf_pwa.model.FCN, moves the parameters with `vm.set_all(x)` before it evaluates.
The NLL is a pure function of the parameter dictionary (`nll_of`): strictly convex quadratic + mild log terms in the
Cartesian components of the complex parameters (so it is invariant under the polar standardisation r -> -r, phi -> phi+pi)
+ Gaussian constraint terms.
"""
import math
import random


def build_vm(spec):
    """real VarsManager for a scenario; the order is the order in which a configuration applies operations"""
    from tf_pwa.variable import VarsManager
    vm = VarsManager(dtype="float64")
    vm.polar = bool(spec.get("polar", True))
    for v in spec["vars"]:
        if v["k"] == "real":
            vm.add_real_var(v["name"], float(v["value"]), trainable=bool(v["free"]))
        else:
            if v["free"]:
                vm.add_complex_var(v["name"], polar=v.get("polar"), trainable=True)
                vm.set(v["name"] + "r", float(v["vals"][0]))
                vm.set(v["name"] + "i", float(v["vals"][1]))
            else:
                vm.add_complex_var(v["name"], polar=v.get("polar"), trainable=False, fix_vals=(float(v["vals"][0]), float(v["vals"][1])))
    for n in spec.get("fix", []):
        vm.set_fix(n)
    for t in spec.get("ties", []):
        if "share" in t:
            vm.set_share_r(list(t["share"]))
        else:
            vm.set_same(list(t["names"]), cplx=bool(t.get("cplx", False)))
    return vm


def bounds_of(spec):
    return {k: (v[0], v[1]) for k, v in spec.get("bounds", {}).items()}


class Landscape:
    """the synthetic NLL as a pure function of {name: value} and the coordinate flags of the complex parameters"""

    def __init__(self, names, cplx_flags, seed, gauss=None, linear=False, centre=None, kind=None):
        import numpy as np
        self.np = np
        self.kind = kind  # "l1": sum a_i |w_i - c_i| (kinks: no Wolfe step exists near them)
        self.names = list(names)
        self.idx = {n: i for i, n in enumerate(self.names)}
        self.cplx = dict(cplx_flags)  # complex name -> polar?
        rnd = random.Random(seed)
        n = len(self.names)
        self.a = np.array([rnd.uniform(0.6, 2.5) for _ in range(n)])
        self.v = np.array([rnd.uniform(-0.5, 0.5) for _ in range(n)])
        self.c = np.array([rnd.uniform(-1.5, 1.5) for _ in range(n)])
        self.d = np.array([rnd.uniform(-2.0, 2.0) for _ in range(n)])
        # `centre`: names whose optimum is placed by the scenario (e.g. on the far side of a declared bound)
        for k, val in (centre or {}).items():
            if k in self.idx:
                self.c[self.idx[k]] = float(val)
                self.d[self.idx[k]] = float(val)
                self.v[self.idx[k]] = 0.0
        self.eps = 0.2
        self.offset = rnd.uniform(-50.0, 50.0)
        self.gauss = {k: (float(m), float(s)) for k, (m, s) in (gauss or {}).items()}
        # `linear`: an NLL without a minimum (drives an optimiser to large values; LargeNumberError path)
        self.lin = np.array([rnd.uniform(0.5, 1.5) for _ in range(n)]) if linear else None
        self.pairs = []
        for c in self.cplx:
            if c + "r" in self.idx and c + "i" in self.idx:
                self.pairs.append((self.idx[c + "r"], self.idx[c + "i"], c))

    def features(self, z, order):
        """w(z), J = dw/dz, and (for order 2) the list of second-derivative blocks"""
        np = self.np
        w = np.array(z, dtype=float)
        n = len(w)
        J = np.eye(n)
        second = []
        for ir, ii, c in self.pairs:
            if not self.cplx[c]:
                continue
            r, p = z[ir], z[ii]
            cs, sn = math.cos(p), math.sin(p)
            w[ir], w[ii] = r * cs, r * sn
            J[ir, ir], J[ir, ii] = cs, -r * sn
            J[ii, ir], J[ii, ii] = sn, r * cs
            if order >= 2:
                # d2 w_ir / d(r,p)^2 ; d2 w_ii / d(r,p)^2
                second.append((ir, ir, ii, [[0.0, -sn], [-sn, -r * cs]]))
                second.append((ii, ir, ii, [[0.0, cs], [cs, -r * sn]]))
        return w, J, second

    def f_w(self, w, order):
        np = self.np
        if self.lin is not None:
            f = self.offset + float(np.dot(self.lin, w))
            return f, self.lin.copy(), np.zeros((len(w), len(w)))
        dw = w - self.c
        if self.kind == "l1":
            return self.offset + float(np.sum(self.a * np.abs(dw))), self.a * np.sign(dw), np.zeros((len(w), len(w)))
        vd = float(np.dot(self.v, dw))
        t = w - self.d
        f = self.offset + 0.5 * float(np.dot(self.a * dw, dw)) + 0.5 * vd * vd + self.eps * float(np.sum(np.log1p(t * t)))
        g = self.a * dw + vd * self.v + self.eps * 2 * t / (1 + t * t)
        H = None
        if order >= 2:
            H = np.diag(self.a + self.eps * (2 - 2 * t * t) / (1 + t * t) ** 2) + np.outer(self.v, self.v)
        return f, g, H

    def eval_z(self, z, order=1):
        np = self.np
        w, J, second = self.features(z, order)
        f, gw, Hw = self.f_w(w, order)
        g = J.T @ gw
        H = None
        if order >= 2:
            H = J.T @ Hw @ J
            for k, i0, i1, blk in second:
                H[i0, i0] += gw[k] * blk[0][0]
                H[i0, i1] += gw[k] * blk[0][1]
                H[i1, i0] += gw[k] * blk[1][0]
                H[i1, i1] += gw[k] * blk[1][1]
        for name, (m, s) in self.gauss.items():
            if name in self.idx:
                i = self.idx[name]
                f += (z[i] - m) ** 2 / (s * s) / 2
                g[i] += (z[i] - m) / (s * s)
                if H is not None:
                    H[i, i] += 1 / (s * s)
        return f, g, H

    def nll_of(self, params):
        """NLL at a parameter dictionary (the oracle of `min_nll == NLL(params)`)"""
        z = [float(params[n]) for n in self.names]
        return self.eval_z(z, 0)[0]


class SynthFCN:
    def __init__(self, vm, seed, gauss=None, linear=False, centre=None, kind=None):
        import numpy as np
        self.np = np
        self.vm = vm
        self.cached_nll = None
        self.n_call = 0
        self.land = Landscape(list(vm.variables), {k: bool(v) for k, v in vm.complex_vars.items()}, seed, gauss, linear, centre, kind)
        self.bnd_seen = None  # names that had a registered bound transform at some evaluation since the harness reset it
        self.trace = []  # ('set', values of all names after the move) per evaluation, used by the search oracle

    # -- the interface tf_pwa.fit uses -------------------------------------------------------
    def get_params(self, trainable_only=False):
        return self.vm.get_all_dic(trainable_only)

    def _z(self):
        return [float(self.vm.variables[n].numpy()) for n in self.land.names]

    def _S(self):
        np = self.np
        tr = list(self.vm.trainable_vars)
        S = np.zeros((len(self.land.names), len(tr)))
        for j, t in enumerate(tr):
            obj = self.vm.variables[t]
            for i, n in enumerate(self.land.names):
                if self.vm.variables[n] is obj:
                    S[i, j] = 1.0
        return S

    def _sync_flags(self):
        for c in self.land.cplx:
            self.land.cplx[c] = bool(self.vm.complex_vars[c])

    def _eval(self, x, order):
        if self.bnd_seen is None:
            self.bnd_seen = []
        self.bnd_seen += [k for k in self.vm.bnd_dic if k not in self.bnd_seen]
        self.vm.set_all(x)
        self._sync_flags()
        self.n_call += 1
        z = self._z()
        if len(self.trace) < 64:
            self.trace.append(dict(zip(self.land.names, z)))
        f, g, H = self.land.eval_z(z, order)
        S = self._S()
        self.cached_nll = f
        return f, S.T @ g, (S.T @ H @ S if H is not None else None)

    def __call__(self, x={}):
        return self._eval(x, 0)[0]

    def nll_grad(self, x={}):
        f, g, _ = self._eval(x, 1)
        return float(f), g

    def nll_grad_hessian(self, x={}, batch=None):
        f, g, H = self._eval(x, 2)
        return float(f), g, H

    def grad_hessp(self, x, p, batch=None):
        f, g, H = self._eval(x, 2)
        return g, H @ self.np.array(p, dtype=float)

    # -- oracle side -------------------------------------------------------------------------
    def nll_of(self, params):
        self._sync_flags()
        return self.land.nll_of(params)
